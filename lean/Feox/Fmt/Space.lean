import Feox.Fmt.Found
/-!
# Fmt.Space — after a crashed open no free block is owned (C05 on the whole open)

`recover_crashed_image_space`: the free-space manager `recoverImage` returns on a crashed device is well
formed (`Fsm.Inv`) and none of its free blocks lies inside the extent of an entry of the returned table
(from `ScanInv` and the tail release).  `crashed_front_write_space_safe`: the same from a clean device and a
crashed write transaction, together with "the table is the old one".
-/
namespace Feox.Fmt
open Feox.Gen Feox.Proto Feox.Fsm

/-- **After a crashed open no free block is owned** (C05 on the whole open): under the hypotheses of
`recover_crashed_image` the free-space manager the open returns is well formed and none of its free blocks
lies inside the extent of an entry of the returned table — space handed out later cannot damage a live
record. -/
theorem recover_crashed_image_space (img0 img : Image) (size : Nat) (o : Opts) (info : Gen → RecMeta) (d0 : Disk) (L : List Rec)
    (md : Meta) (js : JournalState) (co : List (Nat × Nat)) (io1 : List IoEv) (p1 : JPos)
    (hro : o.readOnly = false)
    (hsize : validDeviceSize size = true) (himg : img.size * BSZ = size) (hnz : imageAllZero img = false)
    (hsig : slice (selectMeta (blockAt img FEOX_METADATA_BLOCK) (blockAt img FEOX_METADATA_BACKUP_BLOCK)) 0 FEOX_SIGNATURE_SIZE = FEOX_SIGNATURE)
    (hmd : Meta.decode (selectMeta (blockAt img FEOX_METADATA_BLOCK) (blockAt img FEOX_METADATA_BACKUP_BLOCK)) = some md)
    (hjs : decodeJournal ((List.range ALLOCATION_JOURNAL_BLOCKS).flatMap fun i => blockAt img (ALLOCATION_JOURNAL_START_BLOCK + i)) (size / BSZ) = .ok js)
    (hne : js.extents.isEmpty = false) (hco : coalesceExtents js.extents = some co)
    (hio : replayIo ⟨js.generation, js.slot⟩ js.extents = .ok (io1, p1))
    (hrep : Rep img0 md.version FEOX_DATA_START_BLOCK (size / BSZ) info d0) (ht : TiledBy d0 (size / BSZ) L FEOX_DATA_START_BLOCK)
    (htot0 : size / BSZ ≤ img0.size)
    (hruns : ∀ r ∈ co, 0 < r.2 ∧ FEOX_DATA_START_BLOCK ≤ r.1 ∧ r.1 + r.2 ≤ size / BSZ ∧ Aligned L r.1 (r.1 + r.2))
    (hdisj : co.Pairwise (fun a b => a.1 + a.2 ≤ b.1 ∨ b.1 + b.2 ≤ a.1))
    (hagree : ∀ q, FEOX_DATA_START_BLOCK ≤ q → ¬ inRuns (co.map toRun) q → blockAt img q = blockAt img0 q)
    (hmarks : MarksClean (applyIo img io1) FEOX_DATA_START_BLOCK (size / BSZ) (maskRuns d0 (co.map toRun)))
    (hnd : ((filterRuns L (co.map toRun)).map (fun r => (info r.2.1).key)).Nodup)
    (hexp : o.ttlOn = true → ∀ l ∈ (filterRuns L (co.map toRun)).foldl (fun lv r => absorbLive lv (liveOf info r)) [],
      (decide (l.expiry > 0) && decide (o.now > l.expiry)) = false) :
    ∃ r, (recoverImage img size o).result = .ok r ∧ Fsm.Inv r.fsm ∧
      ∀ b, covers r.fsm.runs b → ∀ l, Vis r.live l → ¬ (l.sector ≤ b ∧ b < l.sector + l.blocks) := by
  have hBSZ : BSZ = 4096 := rfl
  have hvs := hsize
  unfold validDeviceSize at hvs
  simp only [Bool.not_eq_true', Bool.or_eq_false_iff, decide_eq_false_iff_not, bne_eq_false_iff_eq] at hvs
  obtain ⟨⟨h1, h2⟩, h3⟩ := hvs
  have hMAX : MAX_DEVICE_SIZE < 2 ^ 64 := by decide
  have hds : FEOX_DATA_START_BLOCK ≤ size / BSZ := by
    have : FEOX_DATA_START_BLOCK * BSZ < size := by omega
    rw [hBSZ] at this ⊢
    omega
  have hd0 : 0 < size := by have : 0 < FEOX_DATA_START_BLOCK * BSZ := by decide
                            omega
  have h64 : size / BSZ < 2 ^ 64 := by
    have : size / BSZ ≤ size := Nat.div_le_self _ _
    omega
  have htot : size / BSZ ≤ img.size := by
    rw [← himg, hBSZ]; simp
  -- the replay
  obtain ⟨hrepF, htF, hgoF⟩ := replay_open_on_bytes h64 js.extents co ⟨js.generation, js.slot⟩ p1 io1 img0 img d0 L hne hco hio
    hrep ht htot0 htot hruns hdisj hagree
  -- the scan
  obtain ⟨st, hscan, q, hinv⟩ := scan_rep_tiled_ok (o := o) (journal := js.extents) hro hrepF hd0 rfl h64
    (size / BSZ - FEOX_DATA_START_BLOCK) FEOX_DATA_START_BLOCK _ { fsm := Fsm.setDeviceSize Fsm.new size }
    (Nat.le_refl _) (Nat.le_refl _) htF (scanInv_init size (size / BSZ) hds)
  have hgo := hgoF o js.extents { fsm := Fsm.setDeviceSize Fsm.new size } hro
  rw [hscan] at hgo
  simp only [GoodOutcome] at hgo
  have hret : st.retired = [] := by
    have := scan_clean_retired (o := o) (journal := js.extents) hro hrepF hmarks (size / BSZ - FEOX_DATA_START_BLOCK)
      FEOX_DATA_START_BLOCK _ { fsm := Fsm.setDeviceSize Fsm.new size } st (Nat.le_refl _) (Nat.le_refl _) htF hnd
      (by intro r _; simp [findLive]) hscan
    simpa using this
  -- the tail release
  obtain ⟨f2, hrel, hinv2, _, hcov2⟩ := gap_release (f := st.fsm) (dev := size) (total := size / BSZ) (lastEnd := st.lastEnd) (p := size / BSZ)
    hinv.inv hinv.dev hd0 rfl h64 (fun b hb => (hinv.free b hb).1) hinv.le.1 (Nat.le_refl _)
  refine ⟨{ version := md.version, fresh := false, live := st.live, fsm := f2, count := st.count, memory := st.memory,
            diskUsage := st.disk, ambiguous := st.ambiguous, clock := st.clock, io := io1, image := applyIo img io1,
            jgen := p1.gen, jslot := p1.slot }, ?_, hinv2, ?_⟩
  rotate_left
  · intro b hb l hl
    rcases hcov2 b hb with h | h
    · exact (hinv.free b h).2 l hl
    · have := (hinv.ext l hl).2.2
      omega
  · unfold recoverImage
    have c1 : (!validDeviceSize size) = false := by rw [hsize]; rfl
    have c2 : (img.size * BSZ != size) = false := by rw [himg]; simp
    have hst : { st with retired := [] } = st := by
      cases st; simp only at hret; subst hret; rfl
    cases httl : o.ttlOn with
    | false =>
      simp only [c1, Bool.false_eq_true, ↓reduceIte, c2, hnz, Bool.false_and, hsig, bne_self_eq_false, hmd, hjs, hro,
        hio, applyIo, hscan, hret, retireExtentsIo, Bool.not_false, List.isEmpty_nil,
        List.append_nil, hrel]
    | true =>
      have hrm : removeExpired o st = .ok st := removeExpired_none o st (by rw [hgo.2]; exact hexp httl)
      simp only [c1, Bool.false_eq_true, ↓reduceIte, c2, hnz, Bool.false_and, hsig, bne_self_eq_false, hmd, hjs, hro,
        hio, applyIo, hscan, hret, retireExtentsIo, Bool.not_false, List.isEmpty_nil, Bool.and_self,
        List.append_nil, hrel, hst, hrm]



/-- **Space stays safe across a crashed write transaction** (C05, whole open, from a clean device).  Under the
hypotheses of `recover_crashed_front_write`: the free-space manager `recoverImage` returns is well formed and no
free block of it lies inside the extent of any entry of the returned table, and that table is the old one. -/
theorem crashed_front_write_space_safe (img0 img : Image) (size : Nat) (o : Opts) (info : Gen → RecMeta) (d0 : Disk) (L : List Rec)
    (md : Meta) (js : JournalState) (co : List (Nat × Nat))
    (hro : o.readOnly = false)
    (hsize : validDeviceSize size = true) (himg : img.size * BSZ = size)
    (hsig : slice (selectMeta (blockAt img FEOX_METADATA_BLOCK) (blockAt img FEOX_METADATA_BACKUP_BLOCK)) 0 FEOX_SIGNATURE_SIZE = FEOX_SIGNATURE)
    (hmd : Meta.decode (selectMeta (blockAt img FEOX_METADATA_BLOCK) (blockAt img FEOX_METADATA_BACKUP_BLOCK)) = some md)
    (hjs : decodeJournal ((List.range ALLOCATION_JOURNAL_BLOCKS).flatMap fun i => blockAt img (ALLOCATION_JOURNAL_START_BLOCK + i)) (size / BSZ) = .ok js)
    (hne : js.extents.isEmpty = false) (hco : coalesceExtents js.extents = some co)
    (hrep : Rep img0 md.version FEOX_DATA_START_BLOCK (size / BSZ) info d0) (ht : TiledBy d0 (size / BSZ) L FEOX_DATA_START_BLOCK)
    (htot0 : size / BSZ ≤ img0.size)
    (hclean : MarksClean img0 FEOX_DATA_START_BLOCK (size / BSZ) d0)
    (hx : ∀ e ∈ js.extents, 0 < e.2 ∧ FEOX_DATA_START_BLOCK ≤ e.1 ∧ e.1 + e.2 ≤ size / BSZ ∧
      (∀ q, e.1 ≤ q → q < e.1 + e.2 → FLs d0 q) ∧
      (e.1 = FEOX_DATA_START_BLOCK ∨ ¬ FLs d0 (e.1 - 1) ∨ inExt js.extents (e.1 - 1)))
    (hagree : ∀ q, FEOX_DATA_START_BLOCK ≤ q → ¬ inExt js.extents q → blockAt img q = blockAt img0 q)
    (hnd : (L.map (fun r => (info r.2.1).key)).Nodup)
    (hexp : o.ttlOn = true → ∀ l ∈ L.foldl (fun lv r => absorbLive lv (liveOf info r)) [],
      (decide (l.expiry > 0) && decide (o.now > l.expiry)) = false) :
    ∃ r, (recoverImage img size o).result = .ok r ∧ Fsm.Inv r.fsm ∧
      r.live = L.foldl (fun lv r => absorbLive lv (liveOf info r)) [] ∧
      ∀ b, covers r.fsm.runs b → ∀ l, Vis r.live l → ¬ (l.sector ≤ b ∧ b < l.sector + l.blocks) := by
  have hBSZ : BSZ = 4096 := rfl
  have hvs := hsize
  unfold validDeviceSize at hvs
  simp only [Bool.not_eq_true', Bool.or_eq_false_iff, decide_eq_false_iff_not, bne_eq_false_iff_eq] at hvs
  obtain ⟨⟨v1, v2⟩, v3⟩ := hvs
  have hMAX : MAX_DEVICE_SIZE < 2 ^ 64 := by decide
  have h64 : size / BSZ < 2 ^ 64 := by
    have : size / BSZ ≤ size := Nat.div_le_self _ _
    omega
  have htot : size / BSZ ≤ img.size := by rw [← himg, hBSZ]; simp
  have hnz := not_blank_of_signature img hsig
  have hes : ∀ e ∈ js.extents, FEOX_DATA_START_BLOCK ≤ e.1 ∧ e.1 + e.2 ≤ size / BSZ ∧ Aligned L e.1 (e.1 + e.2) := by
    intro e he
    obtain ⟨a, b, c, d, _⟩ := hx e he
    exact ⟨b, c, (ht.aligned_of_fls e.1 (e.1 + e.2) (by omega) d).1⟩
  have hspan := span_avoids_front_alloc ht js.extents (fun e he => by obtain ⟨_, b, _, _, f⟩ := hx e he; exact ⟨b, f⟩)
  have hclean0 : ∀ p r, FEOX_DATA_START_BLOCK ≤ p → p < size / BSZ → ¬ inExt js.extents p → d0 p = .mark r →
      rd (slice (blockAt img0 p) 18 1) = RETIREMENT_COMPLETE ∧ (r > 1 → tailsComplete img0 p r = true) :=
    fun p r h1 h2 _ hm => hclean p r h1 h2 hm
  obtain ⟨hruns, hdisj, hcov⟩ := coalesceExtents_spec L FEOX_DATA_START_BLOCK (size / BSZ) js.extents co hco hes
  obtain ⟨io1, hio⟩ := replayIo_ok ⟨js.generation, js.slot⟩ js.extents co hne hco
  obtain ⟨_, _, hmarksF⟩ := crashed_open_restores_clean_rep h64 js.extents co _ _ io1 img0 img d0 L hne hco hio hrep ht htot0 htot
    hes hagree hclean0 hspan
  have hsame : filterRuns L (co.map toRun) = L := by
    apply filterRuns_free ht
    intro run hrun
    obtain ⟨c, hc, rfl⟩ := List.mem_map.mp hrun
    refine ⟨by have := (hruns c hc).1; simp only [toRun]; omega, fun q h1 h2 => ?_⟩
    obtain ⟨e, he, h3, h4⟩ := (hcov q).mp ⟨toRun c, hrun, h1, h2⟩
    exact (hx e he).2.2.2.1 q h3 h4
  obtain ⟨r, a1, a2, a3⟩ := recover_crashed_image_space img0 img size o info d0 L md js co io1 _ hro hsize himg hnz hsig hmd hjs hne hco hio
    hrep ht htot0 hruns hdisj (fun q hq hout => hagree q hq (fun h => hout ((hcov q).mpr h))) hmarksF
    (by rw [hsame]; exact hnd) (by rw [hsame]; exact hexp)
  obtain ⟨r', _, b1, _, _, _, b5⟩ := recover_crashed_front_write img0 img size o info d0 L md js co hro hsize himg hnz hsig hmd hjs hne hco
    hrep ht htot0 hclean hx hagree hnd hexp
  have : r' = r := by
    rw [a1] at b1
    injection b1 with b1
    exact b1.symm
  subst this
  exact ⟨r', a1, a2, b5, a3⟩

end Feox.Fmt
