import Feox.Fmt.Clean
import Feox.Fmt.Ttl
/-!
# Fmt.Open — opening a clean device: no write, exactly the records

`recoverImage` is the whole of opening a file (size checks, metadata selection, journal decoding and
replay, the scan, expired-winner removal, retirement of what the scan queued, the tail release) and is
compared with the real open on every image of every run.  For a device in the state a store leaves
after an acknowledged flush and a clean close — valid metadata, a clear journal, a data area that
represents a tiling by records with pairwise different keys, markers complete, and (with TTL on) no winner expired — it returns `.ok`,
issues **no device write**, leaves the image as it was, and its table is the newest-wins fold over
exactly the tiling's records.
-/
namespace Feox.Fmt
open Feox.Gen Feox.Proto Feox.Fsm

theorem recover_clean_image (img : Image) (size : Nat) (o : Opts) (info : Gen → RecMeta) (d : Disk) (L : List Rec)
    (md : Meta) (js : JournalState)
    (hro : o.readOnly = false)
    (hsize : validDeviceSize size = true) (himg : img.size * BSZ = size) (hnz : imageAllZero img = false)
    (hsig : slice (selectMeta (blockAt img FEOX_METADATA_BLOCK) (blockAt img FEOX_METADATA_BACKUP_BLOCK)) 0 FEOX_SIGNATURE_SIZE = FEOX_SIGNATURE)
    (hmd : Meta.decode (selectMeta (blockAt img FEOX_METADATA_BLOCK) (blockAt img FEOX_METADATA_BACKUP_BLOCK)) = some md)
    (hjs : decodeJournal ((List.range ALLOCATION_JOURNAL_BLOCKS).flatMap fun i => blockAt img (ALLOCATION_JOURNAL_START_BLOCK + i)) (size / BSZ) = .ok js)
    (hclear : js.extents = [])
    (hrep : Rep img md.version FEOX_DATA_START_BLOCK (size / BSZ) info d) (ht : TiledBy d (size / BSZ) L FEOX_DATA_START_BLOCK)
    (hmarks : MarksClean img FEOX_DATA_START_BLOCK (size / BSZ) d)
    (hnd : (L.map (fun r => (info r.2.1).key)).Nodup)
    (hexp : o.ttlOn = true → ∀ l ∈ L.foldl (fun lv r => absorbLive lv (liveOf info r)) [],
      (decide (l.expiry > 0) && decide (o.now > l.expiry)) = false) :
    ∃ r, (recoverImage img size o).result = .ok r ∧ (recoverImage img size o).io = [] ∧ r.image = img ∧
      r.version = md.version ∧ r.live = L.foldl (fun lv r => absorbLive lv (liveOf info r)) [] := by
  have hBSZ : BSZ = 4096 := rfl
  -- size facts
  have hvs := hsize
  unfold validDeviceSize at hvs
  simp only [Bool.not_eq_true', Bool.or_eq_false_iff, decide_eq_false_iff_not, bne_eq_false_iff_eq] at hvs
  obtain ⟨⟨h1, h2⟩, h3⟩ := hvs
  have hMAX : MAX_DEVICE_SIZE < 2 ^ 64 := by decide
  have hds : FEOX_DATA_START_BLOCK ≤ size / BSZ := by
    have : FEOX_DATA_START_BLOCK * BSZ < size := by omega
    rw [hBSZ] at this ⊢
    omega
  have hd0 : 0 < size := by have : 0 < FEOX_DATA_START_BLOCK * BSZ := by decide
                            omega
  have h64 : size / BSZ < 2 ^ 64 := by
    have : size / BSZ ≤ size := Nat.div_le_self _ _
    omega
  -- the scan
  obtain ⟨st, hscan, q, hinv⟩ := scan_rep_tiled_ok (o := o) (journal := []) hro hrep hd0 rfl h64
    (size / BSZ - FEOX_DATA_START_BLOCK) FEOX_DATA_START_BLOCK L { fsm := Fsm.setDeviceSize Fsm.new size }
    (Nat.le_refl _) (Nat.le_refl _) ht (scanInv_init size (size / BSZ) hds)
  have hgo := scan_rep_tiled (o := o) (journal := []) hro hrep (size / BSZ - FEOX_DATA_START_BLOCK) FEOX_DATA_START_BLOCK L
    { fsm := Fsm.setDeviceSize Fsm.new size } (Nat.le_refl _) (Nat.le_refl _) ht
  rw [hscan] at hgo
  simp only [GoodOutcome] at hgo
  have hret : st.retired = [] := by
    have := scan_clean_retired (o := o) (journal := []) hro hrep hmarks (size / BSZ - FEOX_DATA_START_BLOCK)
      FEOX_DATA_START_BLOCK L { fsm := Fsm.setDeviceSize Fsm.new size } st (Nat.le_refl _) (Nat.le_refl _) ht hnd
      (by intro r _; simp [findLive]) hscan
    simpa using this
  -- the tail release
  obtain ⟨f2, hrel, _, _, _⟩ := gap_release (f := st.fsm) (dev := size) (total := size / BSZ) (lastEnd := st.lastEnd) (p := size / BSZ)
    hinv.inv hinv.dev hd0 rfl h64 (fun b hb => (hinv.free b hb).1) hinv.le.1 (Nat.le_refl _)
  refine ⟨{ version := md.version, fresh := false, live := st.live, fsm := f2, count := st.count, memory := st.memory,
            diskUsage := st.disk, ambiguous := st.ambiguous, clock := st.clock, io := [], image := img,
            jgen := js.generation, jslot := js.slot }, ?_, ?_, rfl, rfl, hgo.2⟩
  all_goals
    unfold recoverImage
    have c1 : (!validDeviceSize size) = false := by rw [hsize]; rfl
    have c2 : (img.size * BSZ != size) = false := by rw [himg]; simp
    have hst : { st with retired := [] } = st := by
      cases st; simp only at hret; subst hret; rfl
    cases httl : o.ttlOn with
    | false =>
      simp only [c1, Bool.false_eq_true, ↓reduceIte, c2, hnz, Bool.false_and, hsig, bne_self_eq_false, hmd, hjs, hro,
        hclear, replayIo, List.isEmpty_nil, applyIo, hscan, hret, retireExtentsIo, Bool.not_false,
        List.append_nil, hrel]
    | true =>
      have hrm : removeExpired o st = .ok st := removeExpired_none o st (by rw [hgo.2]; exact hexp httl)
      simp only [c1, Bool.false_eq_true, ↓reduceIte, c2, hnz, Bool.false_and, hsig, bne_self_eq_false, hmd, hjs, hro,
        hclear, replayIo, List.isEmpty_nil, applyIo, hscan, hret, retireExtentsIo, Bool.not_false, Bool.and_self,
        List.append_nil, hrel, hst, hrm]

end Feox.Fmt
