import Feox.Fmt.Recover
/-!
# Fmt.Blank — a device whose selected metadata block carries the signature is not blank

The whole-open theorems carry both `imageAllZero img = false` and the signature hypothesis; the first
follows from the second (`not_blank_of_signature`), so it is no restriction.
-/
namespace Feox.Fmt
open Feox.Gen

theorem selectMeta_cases (a b : Bytes) : selectMeta a b = a ∨ selectMeta a b = b := by
  unfold selectMeta
  split
  · split
    · exact Or.inr rfl
    · exact Or.inl rfl
  · exact Or.inl rfl
  · exact Or.inr rfl
  · exact Or.inl rfl

theorem allZero_take {x : Bytes} (h : allZero x = true) (n : Nat) : allZero (x.take n) = true := by
  unfold allZero at h ⊢
  rw [List.all_eq_true] at h ⊢
  exact fun y hy => h y (List.mem_of_mem_take hy)

/-- a block that starts with the format signature is not blank -/
theorem not_allZero_of_signature (x : Bytes) (h : slice x 0 FEOX_SIGNATURE_SIZE = FEOX_SIGNATURE) : allZero x = false := by
  cases hz : allZero x with
  | false => rfl
  | true =>
    have := allZero_take hz FEOX_SIGNATURE_SIZE
    unfold slice at h
    simp only [List.drop_zero] at h
    rw [h] at this
    exact absurd this (by decide)

/-- **A device whose selected metadata block carries the signature is not a blank device**: the
`imageAllZero` hypothesis of the whole-open theorems follows from the signature hypothesis. -/
theorem not_blank_of_signature (img : Image)
    (hsig : slice (selectMeta (blockAt img FEOX_METADATA_BLOCK) (blockAt img FEOX_METADATA_BACKUP_BLOCK)) 0 FEOX_SIGNATURE_SIZE = FEOX_SIGNATURE) :
    imageAllZero img = false := by
  have hnz := not_allZero_of_signature _ hsig
  have key : ∀ i, allZero (blockAt img i) = false → imageAllZero img = false := by
    intro i hi
    unfold blockAt at hi
    by_cases hlt : i < img.size
    · cases hall : imageAllZero img with
      | false => rfl
      | true =>
        unfold imageAllZero at hall
        rw [Array.all_eq_true] at hall
        have := hall i hlt
        rw [Array.getD_eq_getD_getElem?, Array.getElem?_eq_getElem hlt] at hi
        simp only [Option.getD_some] at hi
        rw [this] at hi
        cases hi
    · rw [Array.getD_eq_getD_getElem?, Array.getElem?_eq_none (by omega)] at hi
      simp [allZero] at hi
  rcases selectMeta_cases (blockAt img FEOX_METADATA_BLOCK) (blockAt img FEOX_METADATA_BACKUP_BLOCK) with h | h
  · rw [h] at hnz; exact key _ hnz
  · rw [h] at hnz; exact key _ hnz

end Feox.Fmt
