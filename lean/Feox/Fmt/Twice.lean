import Feox.Fmt.ClearAfter
/-!
# Fmt.Twice — recovery of a crashed device, twice, end to end

`crashed_open_twice_slot0/1`: the capstone of the crashed-open chain.  Hypotheses: bytes of the crashed
image (signature, metadata, the stamped intent in one journal slot and a valid older record in the other,
block lengths), the image before the crashed transaction (represents a tiled disk, old markers complete
and not reaching into journalled extents), the journalled extents (in the data area, whole tiles,
accepted by `coalesce_extents`), and that the crash touched only journalled blocks.  Conclusion:
`recoverImage` succeeds; `recoverImage` of the image it leaves succeeds again with no device write, the
same image and the same table — the newest-wins fold over the old records outside the journalled extents.
-/
namespace Feox.Fmt
open Feox.Gen Feox.Proto

/-- **Recovery of a crashed device is idempotent — `recoverImage` twice, every hypothesis about the crashed
image's bytes or the state before the crashed transaction** (intent in slot 0).  The first open succeeds and
replays; opening the image it left succeeds again, issues *no* device write, leaves the image as it is and
shows the same table.  So a crash at any point after the first open's replay, or any number of further
restarts, changes nothing. -/
theorem crashed_open_twice_slot0 (img0 img : Image) (size : Nat) (o : Opts) (info : Gen → RecMeta) (d0 : Disk) (L : List Rec)
    (md : Meta) (gen : Nat) (exts co : List (Nat × Nat)) (tail : Bytes) (B : JournalState)
    (h0 : slotBytes img 0 = stampJournal (journalBody gen JOURNAL_ACTIVE exts) ++ tail)
    (hlen : ∀ q, q < FEOX_DATA_START_BLOCK → (blockAt img q).length = BSZ)
    (hz1 : allZero (slotBytes img 1) = false) (hB : decodeSlot (slotBytes img 1) (size / BSZ) 1 = .ok B)
    (hgt : gen > B.generation) (hg64 : gen + 1 < 2 ^ 64)
    (hro : o.readOnly = false)
    (hsize : validDeviceSize size = true) (himg : img.size * BSZ = size)
    (hsig : slice (selectMeta (blockAt img FEOX_METADATA_BLOCK) (blockAt img FEOX_METADATA_BACKUP_BLOCK)) 0 FEOX_SIGNATURE_SIZE = FEOX_SIGNATURE)
    (hmd : Meta.decode (selectMeta (blockAt img FEOX_METADATA_BLOCK) (blockAt img FEOX_METADATA_BACKUP_BLOCK)) = some md)
    (hok : JournalOK gen JOURNAL_ACTIVE (size / BSZ) exts)
    (hne : exts.isEmpty = false) (hco : coalesceExtents exts = some co)
    (hrep : Rep img0 md.version FEOX_DATA_START_BLOCK (size / BSZ) info d0) (ht : TiledBy d0 (size / BSZ) L FEOX_DATA_START_BLOCK)
    (htot0 : size / BSZ ≤ img0.size)
    (hes : ∀ r ∈ exts, FEOX_DATA_START_BLOCK ≤ r.1 ∧ r.1 + r.2 ≤ size / BSZ ∧ Aligned L r.1 (r.1 + r.2))
    (hagree : ∀ q, FEOX_DATA_START_BLOCK ≤ q → ¬ inExt exts q → blockAt img q = blockAt img0 q)
    (hclean0 : ∀ p r, FEOX_DATA_START_BLOCK ≤ p → p < size / BSZ → ¬ inExt exts p → d0 p = .mark r →
      rd (slice (blockAt img0 p) 18 1) = RETIREMENT_COMPLETE ∧ (r > 1 → tailsComplete img0 p r = true))
    (hspan : ∀ p r, FEOX_DATA_START_BLOCK ≤ p → p < size / BSZ → ¬ inExt exts p → d0 p = .mark r →
      ∀ q, p ≤ q → q < p + r → ¬ inExt exts q)
    (hnd : ((filterRuns L (co.map toRun)).map (fun r => (info r.2.1).key)).Nodup)
    (hexp : o.ttlOn = true → ∀ l ∈ (filterRuns L (co.map toRun)).foldl (fun lv r => absorbLive lv (liveOf info r)) [],
      (decide (l.expiry > 0) && decide (o.now > l.expiry)) = false) :
    ∃ r r2, (recoverImage img size o).result = .ok r ∧
      (recoverImage r.image size o).result = .ok r2 ∧ (recoverImage r.image size o).io = [] ∧ r2.image = r.image ∧
      r2.live = r.live ∧
      r.live = (filterRuns L (co.map toRun)).foldl (fun lv r => absorbLive lv (liveOf info r)) [] := by
  have hB' : BSZ = 4096 := rfl
  have hjs0 : journalSector 0 = 1 := rfl
  have hjs1 : journalSector 1 = 4 := rfl
  have h0l : (slotBytes img 0).length = JOURNAL_SLOT_SIZE := by
    unfold slotBytes
    simp only [List.length_append, hjs0, hlen 1 (by decide), hlen 2 (by decide), hlen 3 (by decide)]
    rfl
  have h1l : (slotBytes img 1).length = JOURNAL_SLOT_SIZE := by
    unfold slotBytes
    simp only [List.length_append, hjs1, hlen 4 (by decide), hlen 5 (by decide), hlen 6 (by decide)]
    rfl
  have hnz := not_blank_of_signature img hsig
  have hjs := open_reads_intent_slot0 img (size / BSZ) gen JOURNAL_ACTIVE exts tail B h0 h0l h1l hz1 hB hok hgt
  obtain ⟨r, io1, a1, _, a3, hio, _, a5⟩ := recover_crashed_device_journalled img0 img size o info d0 L md _ co hro hsize himg hnz hsig hmd
    hjs hne hco hrep ht htot0 hes hagree hclean0 hspan hnd hexp
  simp only at hio
  -- the journal of the replayed image
  have hvs := hsize
  unfold validDeviceSize at hvs
  simp only [Bool.not_eq_true', Bool.or_eq_false_iff, decide_eq_false_iff_not, bne_eq_false_iff_eq] at hvs
  obtain ⟨⟨v1, v2⟩, v3⟩ := hvs
  have htot : size / BSZ ≤ img.size := by rw [← himg, hB']; simp
  have hds : FEOX_DATA_START_BLOCK ≤ size / BSZ := by
    have : FEOX_DATA_START_BLOCK * BSZ < size := by omega
    rw [hB'] at this ⊢
    omega
  obtain ⟨hruns, hdisj, _⟩ := coalesceExtents_spec L FEOX_DATA_START_BLOCK (size / BSZ) exts co hco hes
  have hruns' : ∀ r ∈ co, r.1 ≤ r.1 + r.2 ∧ FEOX_DATA_START_BLOCK ≤ r.1 ∧ r.1 + r.2 ≤ img.size :=
    fun r hr => by obtain ⟨_, b, c, _⟩ := hruns r hr; exact ⟨by omega, b, by omega⟩
  have hz0 : allZero (slotBytes img 0) = false := by rw [h0]; exact stamped_not_allZero _ _ _ _
  have hA : decodeSlot (slotBytes img 0) (size / BSZ) 0 = .ok ⟨gen, 0, exts⟩ := by
    rw [h0]; exact journal_slot_roundtrip gen JOURNAL_ACTIVE (size / BSZ) 0 exts tail hok
  have hjsF := journal_clear_after_replay_slot1 img (size / BSZ) ⟨gen, 0, exts⟩ hne hco hio (by omega) hruns' hdisj hlen hz0 hA
    (by simp) hg64
  obtain ⟨r2, b1, b2, b3, b5⟩ := reopen_after_crashed_open img0 img size o info d0 L md ⟨gen, 0, exts⟩ _ co io1 _ hro hsize himg hsig hmd
    hne hco hio hjsF rfl hrep ht htot0 hes hagree hclean0 hspan hnd hexp
  refine ⟨r, r2, a1, ?_, ?_, ?_, ?_, a5⟩
  · rw [a3]; exact b1
  · rw [a3]; exact b2
  · rw [a3]; exact b3
  · rw [b5, a5]


theorem crashed_open_twice_slot1 (img0 img : Image) (size : Nat) (o : Opts) (info : Gen → RecMeta) (d0 : Disk) (L : List Rec)
    (md : Meta) (gen : Nat) (exts co : List (Nat × Nat)) (tail : Bytes) (A : JournalState)
    (h1 : slotBytes img 1 = stampJournal (journalBody gen JOURNAL_ACTIVE exts) ++ tail)
    (hlen : ∀ q, q < FEOX_DATA_START_BLOCK → (blockAt img q).length = BSZ)
    (hz0 : allZero (slotBytes img 0) = false) (hA : decodeSlot (slotBytes img 0) (size / BSZ) 0 = .ok A)
    (hge : gen ≥ A.generation) (hg64 : gen + 1 < 2 ^ 64)
    (hro : o.readOnly = false)
    (hsize : validDeviceSize size = true) (himg : img.size * BSZ = size)
    (hsig : slice (selectMeta (blockAt img FEOX_METADATA_BLOCK) (blockAt img FEOX_METADATA_BACKUP_BLOCK)) 0 FEOX_SIGNATURE_SIZE = FEOX_SIGNATURE)
    (hmd : Meta.decode (selectMeta (blockAt img FEOX_METADATA_BLOCK) (blockAt img FEOX_METADATA_BACKUP_BLOCK)) = some md)
    (hok : JournalOK gen JOURNAL_ACTIVE (size / BSZ) exts)
    (hne : exts.isEmpty = false) (hco : coalesceExtents exts = some co)
    (hrep : Rep img0 md.version FEOX_DATA_START_BLOCK (size / BSZ) info d0) (ht : TiledBy d0 (size / BSZ) L FEOX_DATA_START_BLOCK)
    (htot0 : size / BSZ ≤ img0.size)
    (hes : ∀ r ∈ exts, FEOX_DATA_START_BLOCK ≤ r.1 ∧ r.1 + r.2 ≤ size / BSZ ∧ Aligned L r.1 (r.1 + r.2))
    (hagree : ∀ q, FEOX_DATA_START_BLOCK ≤ q → ¬ inExt exts q → blockAt img q = blockAt img0 q)
    (hclean0 : ∀ p r, FEOX_DATA_START_BLOCK ≤ p → p < size / BSZ → ¬ inExt exts p → d0 p = .mark r →
      rd (slice (blockAt img0 p) 18 1) = RETIREMENT_COMPLETE ∧ (r > 1 → tailsComplete img0 p r = true))
    (hspan : ∀ p r, FEOX_DATA_START_BLOCK ≤ p → p < size / BSZ → ¬ inExt exts p → d0 p = .mark r →
      ∀ q, p ≤ q → q < p + r → ¬ inExt exts q)
    (hnd : ((filterRuns L (co.map toRun)).map (fun r => (info r.2.1).key)).Nodup)
    (hexp : o.ttlOn = true → ∀ l ∈ (filterRuns L (co.map toRun)).foldl (fun lv r => absorbLive lv (liveOf info r)) [],
      (decide (l.expiry > 0) && decide (o.now > l.expiry)) = false) :
    ∃ r r2, (recoverImage img size o).result = .ok r ∧
      (recoverImage r.image size o).result = .ok r2 ∧ (recoverImage r.image size o).io = [] ∧ r2.image = r.image ∧
      r2.live = r.live ∧
      r.live = (filterRuns L (co.map toRun)).foldl (fun lv r => absorbLive lv (liveOf info r)) [] := by
  have hB' : BSZ = 4096 := rfl
  have hjs0 : journalSector 0 = 1 := rfl
  have hjs1 : journalSector 1 = 4 := rfl
  have h0l : (slotBytes img 0).length = JOURNAL_SLOT_SIZE := by
    unfold slotBytes
    simp only [List.length_append, hjs0, hlen 1 (by decide), hlen 2 (by decide), hlen 3 (by decide)]
    rfl
  have h1l : (slotBytes img 1).length = JOURNAL_SLOT_SIZE := by
    unfold slotBytes
    simp only [List.length_append, hjs1, hlen 4 (by decide), hlen 5 (by decide), hlen 6 (by decide)]
    rfl
  have hnz := not_blank_of_signature img hsig
  have hjs := open_reads_intent_slot1 img (size / BSZ) gen JOURNAL_ACTIVE exts tail A h0l h1 h1l hz0 hA hok hge
  obtain ⟨r, io1, a1, _, a3, hio, _, a5⟩ := recover_crashed_device_journalled img0 img size o info d0 L md _ co hro hsize himg hnz hsig hmd
    hjs hne hco hrep ht htot0 hes hagree hclean0 hspan hnd hexp
  simp only at hio
  -- the journal of the replayed image
  have hvs := hsize
  unfold validDeviceSize at hvs
  simp only [Bool.not_eq_true', Bool.or_eq_false_iff, decide_eq_false_iff_not, bne_eq_false_iff_eq] at hvs
  obtain ⟨⟨v1, v2⟩, v3⟩ := hvs
  have htot : size / BSZ ≤ img.size := by rw [← himg, hB']; simp
  have hds : FEOX_DATA_START_BLOCK ≤ size / BSZ := by
    have : FEOX_DATA_START_BLOCK * BSZ < size := by omega
    rw [hB'] at this ⊢
    omega
  obtain ⟨hruns, hdisj, _⟩ := coalesceExtents_spec L FEOX_DATA_START_BLOCK (size / BSZ) exts co hco hes
  have hruns' : ∀ r ∈ co, r.1 ≤ r.1 + r.2 ∧ FEOX_DATA_START_BLOCK ≤ r.1 ∧ r.1 + r.2 ≤ img.size :=
    fun r hr => by obtain ⟨_, b, c, _⟩ := hruns r hr; exact ⟨by omega, b, by omega⟩
  have hz1 : allZero (slotBytes img 1) = false := by rw [h1]; exact stamped_not_allZero _ _ _ _
  have hB : decodeSlot (slotBytes img 1) (size / BSZ) 1 = .ok ⟨gen, 1, exts⟩ := by
    rw [h1]; exact journal_slot_roundtrip gen JOURNAL_ACTIVE (size / BSZ) 1 exts tail hok
  have hjsF := journal_clear_after_replay_slot0 img (size / BSZ) ⟨gen, 1, exts⟩ hne hco hio (by omega) hruns' hdisj hlen hz1 hB
    (by simp) hg64
  obtain ⟨r2, b1, b2, b3, b5⟩ := reopen_after_crashed_open img0 img size o info d0 L md ⟨gen, 1, exts⟩ _ co io1 _ hro hsize himg hsig hmd
    hne hco hio hjsF rfl hrep ht htot0 hes hagree hclean0 hspan hnd hexp
  refine ⟨r, r2, a1, ?_, ?_, ?_, ?_, a5⟩
  · rw [a3]; exact b1
  · rw [a3]; exact b2
  · rw [a3]; exact b3
  · rw [b5, a5]


end Feox.Fmt
