import Feox.Fmt.MetaRT
/-!
# Fmt.JournalRT — a journal slot image decodes to what was encoded
-/
namespace Feox.Fmt
open Feox.Gen

/-- the stamped slot image as a list of parts -/
def jparts (gen state : Nat) (exts : List (Nat × Nat)) (c : Nat) : List Bytes :=
  [JOURNAL_MAGIC ++ le 4 JOURNAL_VERSION, le 4 c, le 8 gen ++ le 4 state ++ le 4 exts.length, le 4 (u32not c), zeros 4] ++
  exts.flatMap (fun e => [le 4 e.1, le 4 e.2])

def jpad (exts : List (Nat × Nat)) : Bytes :=
  zeros (journalImageSize exts.length - (JOURNAL_HEADER_SIZE + exts.length * JOURNAL_ENTRY_SIZE))

theorem flatMap_entries_flatten (exts : List (Nat × Nat)) :
    (exts.flatMap (fun e => [le 4 e.1, le 4 e.2])).flatten = exts.flatMap (fun e => le 4 e.1 ++ le 4 e.2) := by
  induction exts with
  | nil => rfl
  | cons e es ih => simp [List.flatMap_cons, ih]

theorem entries_length (exts : List (Nat × Nat)) :
    (exts.flatMap (fun e => le 4 e.1 ++ le 4 e.2)).length = exts.length * 8 := by
  induction exts with
  | nil => rfl
  | cons e es ih => simp [List.flatMap_cons, ih]; omega

/-- the un-stamped body, split at the two checksum fields -/
theorem body_split (gen state : Nat) (exts : List (Nat × Nat)) :
    journalBody gen state exts =
      (JOURNAL_MAGIC ++ le 4 JOURNAL_VERSION) ++ zeros 4 ++ (le 8 gen ++ le 4 state ++ le 4 exts.length) ++ zeros 4 ++
        (zeros 4 ++ exts.flatMap (fun e => le 4 e.1 ++ le 4 e.2) ++ jpad exts) := by
  have hz : zeros 8 = zeros 4 ++ zeros 4 := by decide
  simp only [journalBody, jpad, hz, List.length_append, le_length, zeros_length, entries_length]
  have hm : JOURNAL_MAGIC.length = 8 := rfl
  rw [hm]
  have : 8 + 4 + 4 + 8 + 4 + 4 + (4 + 4) + exts.length * 8 = JOURNAL_HEADER_SIZE + exts.length * JOURNAL_ENTRY_SIZE := by
    simp [JOURNAL_HEADER_SIZE, JOURNAL_ENTRY_SIZE]
  rw [this]
  simp [List.append_assoc]

end Feox.Fmt

namespace Feox.Fmt
open Feox.Gen

theorem stamp_five (A c0 B c1 R x y : Bytes) (hA : A.length = 12) (hc0 : c0.length = 4) (hB : B.length = 16)
    (hc1 : c1.length = 4) (hx : x.length = 4) (hy : y.length = 4) :
    patch (patch (A ++ c0 ++ B ++ c1 ++ R) 12 x) 32 y = A ++ x ++ B ++ y ++ R := by
  have e1 : A ++ c0 ++ B ++ c1 ++ R = A ++ (c0 ++ (B ++ c1 ++ R)) := by simp [List.append_assoc]
  have p1 : patch (A ++ c0 ++ B ++ c1 ++ R) 12 x = A ++ (x ++ (B ++ c1 ++ R)) := by
    rw [e1, ← hA]; exact patch_mid A c0 _ x (by rw [hx, hc0])
  rw [p1]
  have e2 : A ++ (x ++ (B ++ c1 ++ R)) = (A ++ x ++ B) ++ (c1 ++ R) := by simp [List.append_assoc]
  have hl : (A ++ x ++ B).length = 32 := by simp [hA, hx, hB]
  rw [e2, ← hl, patch_mid (A ++ x ++ B) c1 R y (by rw [hy, hc1])]
  simp [List.append_assoc]

/-- the stamped image, in parts -/
theorem stamped_eq (gen state : Nat) (exts : List (Nat × Nat)) :
    stampJournal (journalBody gen state exts) =
      (jparts gen state exts (journalChecksum (journalBody gen state exts)).toNat).flatten ++ jpad exts := by
  unfold stampJournal
  simp only
  rw [body_split gen state exts]
  have hA : (JOURNAL_MAGIC ++ le 4 JOURNAL_VERSION).length = 12 := by simp; rfl
  have hB : (le 8 gen ++ le 4 state ++ le 4 exts.length).length = 16 := by simp
  rw [stamp_five _ _ _ _ _ _ _ hA (by simp) hB (by simp) (by simp) (by simp)]
  simp only [jparts, List.flatten_append, List.flatten_cons, List.flatten_nil, flatMap_entries_flatten, List.append_nil]
  rw [← body_split gen state exts]
  simp [List.append_assoc]

end Feox.Fmt

namespace Feox.Fmt
open Feox.Gen

/-- finer parts: one per header field -/
def jfine (gen state : Nat) (exts : List (Nat × Nat)) (c : Nat) : List Bytes :=
  [JOURNAL_MAGIC, le 4 JOURNAL_VERSION, le 4 c, le 8 gen, le 4 state, le 4 exts.length, le 4 (u32not c), zeros 4] ++
  exts.flatMap (fun e => [le 4 e.1, le 4 e.2])

theorem jfine_flatten (gen state : Nat) (exts : List (Nat × Nat)) (c : Nat) :
    (jfine gen state exts c).flatten = (jparts gen state exts c).flatten := by
  simp [jfine, jparts, List.append_assoc]

theorem imageSize_ge (n : Nat) : JOURNAL_HEADER_SIZE + n * JOURNAL_ENTRY_SIZE ≤ journalImageSize n := by
  unfold journalImageSize divCeil
  have hb : BSZ = 4096 := rfl
  rw [hb]
  have := Nat.div_add_mod (JOURNAL_HEADER_SIZE + n * JOURNAL_ENTRY_SIZE + 4096 - 1) 4096
  have := Nat.mod_lt (JOURNAL_HEADER_SIZE + n * JOURNAL_ENTRY_SIZE + 4096 - 1) (by decide : 0 < 4096)
  omega

theorem jfine_length (gen state : Nat) (exts : List (Nat × Nat)) (c : Nat) :
    (jfine gen state exts c).flatten.length = JOURNAL_HEADER_SIZE + exts.length * JOURNAL_ENTRY_SIZE := by
  rw [jfine_flatten]
  simp only [jparts, List.flatten_append, List.flatten_cons, List.flatten_nil, flatMap_entries_flatten, List.length_append,
    le_length, zeros_length, entries_length, List.append_nil, List.length_nil]
  have hm : JOURNAL_MAGIC.length = 8 := rfl
  simp [hm, JOURNAL_HEADER_SIZE, JOURNAL_ENTRY_SIZE]

/-- slices inside the first part of a concatenation do not see the rest -/
theorem slice_append_left' (x tail : Bytes) (off n : Nat) (h : off + n ≤ x.length) :
    slice (x ++ tail) off n = slice x off n := by
  unfold slice
  rw [List.drop_append_of_le_length (by omega), List.take_append_of_le_length (by simp; omega)]

/-- all entry parts have four bytes, so the offset of the `k`-th is `4 k` -/
theorem entry_parts_offsets (exts : List (Nat × Nat)) : ∀ k, k ≤ 2 * exts.length →
    (((exts.flatMap (fun e => [le 4 e.1, le 4 e.2])).take k).map List.length).sum = 4 * k := by
  induction exts with
  | nil => intro k hk; simp at hk; subst hk; rfl
  | cons e es ih =>
    intro k hk
    simp only [List.flatMap_cons]
    match k with
    | 0 => rfl
    | 1 => simp
    | k + 2 =>
      simp only [List.cons_append, List.nil_append, List.take_succ_cons, List.map_cons, List.sum_cons, le_length]
      rw [ih k (by simp at hk; omega)]
      omega

theorem entry_part (exts : List (Nat × Nat)) (i : Nat) (h : i < exts.length) :
    (exts.flatMap (fun e => [le 4 e.1, le 4 e.2]))[2 * i]? = some (le 4 exts[i].1) ∧
    (exts.flatMap (fun e => [le 4 e.1, le 4 e.2]))[2 * i + 1]? = some (le 4 exts[i].2) := by
  induction exts generalizing i with
  | nil => simp at h
  | cons e es ih =>
    simp only [List.flatMap_cons]
    cases i with
    | zero => simp
    | succ i =>
      have := ih i (by simpa using h)
      have e1 : 2 * (i + 1) = 2 * i + 2 := by omega
      have e2 : 2 * (i + 1) + 1 = 2 * i + 1 + 2 := by omega
      simp only [e1, e2, List.cons_append, List.nil_append, List.getElem?_cons_succ, List.getElem_cons_succ]
      exact this

end Feox.Fmt

namespace Feox.Fmt
open Feox.Gen

/-- what `encode_active` / `encode_clear` require of their arguments and what `decode_slot`
requires of a valid slot -/
structure JournalOK (gen state total : Nat) (exts : List (Nat × Nat)) : Prop where
  gen : 0 < gen ∧ gen < 2 ^ 64
  state : (state = JOURNAL_CLEAR ∧ exts = []) ∨ (state = JOURNAL_ACTIVE ∧ exts ≠ [])
  count : exts.length ≤ ALLOCATION_JOURNAL_MAX_ENTRIES
  fields : ∀ e ∈ exts, e.1 < 2 ^ 32 ∧ e.2 < 2 ^ 32
  inside : exts.any (fun e => e.1 + e.2 > total || e.1 < FEOX_DATA_START_BLOCK || e.2 == 0) = false
  disjoint : overlapping (sortByStart exts) = false

/-- field slices of the stamped image followed by anything (`tail` = the rest of the slot) -/
theorem journal_slices (gen state : Nat) (exts : List (Nat × Nat)) (c : Nat) (P tail : Bytes) :
    let D := (jfine gen state exts c).flatten ++ (P ++ tail)
    slice D 0 8 = JOURNAL_MAGIC ∧ slice D 8 4 = le 4 JOURNAL_VERSION ∧ slice D 12 4 = le 4 c ∧
    slice D 16 8 = le 8 gen ∧ slice D 24 4 = le 4 state ∧ slice D 28 4 = le 4 exts.length ∧
    slice D 32 4 = le 4 (u32not c) ∧
    ∀ i (h : i < exts.length),
      slice D (JOURNAL_HEADER_SIZE + i * JOURNAL_ENTRY_SIZE) 4 = le 4 exts[i].1 ∧
      slice D (JOURNAL_HEADER_SIZE + i * JOURNAL_ENTRY_SIZE + 4) 4 = le 4 exts[i].2 := by
  intro D
  have hlen := jfine_length gen state exts c
  have hm : JOURNAL_MAGIC.length = 8 := rfl
  have sl : ∀ (i off n : Nat) (f : Bytes), (jfine gen state exts c)[i]? = some f →
      off = (((jfine gen state exts c).take i).map List.length).sum → n = f.length →
      off + n ≤ JOURNAL_HEADER_SIZE + exts.length * JOURNAL_ENTRY_SIZE → slice D off n = f := by
    intro i off n f hf ho hn hb
    show slice ((jfine gen state exts c).flatten ++ (P ++ tail)) off n = f
    rw [slice_append_left' _ _ _ _ (by rw [hlen]; exact hb)]
    subst ho; subst hn
    exact slice_flatten _ i f hf
  have h40 : (40 : Nat) ≤ JOURNAL_HEADER_SIZE + exts.length * JOURNAL_ENTRY_SIZE := by simp [JOURNAL_HEADER_SIZE]
  refine ⟨sl 0 0 8 _ rfl rfl rfl (by omega), sl 1 8 4 _ rfl (by simp [jfine, hm]) (by simp) (by omega),
    sl 2 12 4 _ rfl (by simp [jfine, hm]) (by simp) (by omega), sl 3 16 8 _ rfl (by simp [jfine, hm]) (by simp) (by omega),
    sl 4 24 4 _ rfl (by simp [jfine, hm]) (by simp) (by omega), sl 5 28 4 _ rfl (by simp [jfine, hm]) (by simp) (by omega),
    sl 6 32 4 _ rfl (by simp [jfine, hm]) (by simp) (by omega), ?_⟩
  intro i hi
  obtain ⟨e1, e2⟩ := entry_part exts i hi
  have hpre : ∀ k, k ≤ 2 * exts.length →
      (((jfine gen state exts c).take (8 + k)).map List.length).sum = 40 + 4 * k := by
    intro k hk
    have : (jfine gen state exts c).take (8 + k) =
        [JOURNAL_MAGIC, le 4 JOURNAL_VERSION, le 4 c, le 8 gen, le 4 state, le 4 exts.length, le 4 (u32not c), zeros 4] ++
          (exts.flatMap (fun e => [le 4 e.1, le 4 e.2])).take k := by
      have e8 : 8 + k = k + 1 + 1 + 1 + 1 + 1 + 1 + 1 + 1 := by omega
      simp only [jfine, List.cons_append, List.nil_append, e8, List.take_succ_cons]
    rw [this, List.map_append, List.sum_append, entry_parts_offsets exts k hk]
    simp [hm]
  have g1 : (jfine gen state exts c)[8 + 2 * i]? = some (le 4 exts[i].1) := by
    simp only [jfine]; rw [List.getElem?_append_right (by simp)]; simpa using e1
  have g2 : (jfine gen state exts c)[8 + (2 * i + 1)]? = some (le 4 exts[i].2) := by
    simp only [jfine]; rw [List.getElem?_append_right (by simp)]; simpa using e2
  constructor
  · exact sl (8 + 2 * i) _ 4 _ g1 (by rw [hpre (2 * i) (by omega)]; simp [JOURNAL_HEADER_SIZE, JOURNAL_ENTRY_SIZE]; omega)
      (by simp) (by simp [JOURNAL_HEADER_SIZE, JOURNAL_ENTRY_SIZE]; omega)
  · exact sl (8 + (2 * i + 1)) _ 4 _ g2 (by rw [hpre (2 * i + 1) (by omega)]; simp [JOURNAL_HEADER_SIZE, JOURNAL_ENTRY_SIZE]; omega)
      (by simp) (by simp [JOURNAL_HEADER_SIZE, JOURNAL_ENTRY_SIZE]; omega)

end Feox.Fmt

namespace Feox.Fmt
open Feox.Gen

theorem journalChecksum_stamp' (a c0 b c1 rest : Bytes)
    (ha : a.length = 12) (hc0 : c0.length = 4) (hb : b.length = 16) (hc1 : c1.length = 4)
    (x y : Bytes) (hx : x.length = 4) (hy : y.length = 4) :
    journalChecksum (a ++ c0 ++ b ++ c1 ++ rest) = journalChecksum (a ++ x ++ b ++ y ++ rest) := by
  unfold journalChecksum
  have s1 : ∀ (p q : Bytes), p.length = 4 → q.length = 4 →
      slice (a ++ p ++ b ++ q ++ rest) 0 12 = a ∧ slice (a ++ p ++ b ++ q ++ rest) 16 16 = b ∧
      (a ++ p ++ b ++ q ++ rest).drop 36 = rest := by
    intro p q hp hq
    refine ⟨?_, ?_, ?_⟩
    · have : a ++ p ++ b ++ q ++ rest = a ++ (p ++ b ++ q ++ rest) := by simp [List.append_assoc]
      rw [this]; exact slice_zero_prefix _ _ ha.symm
    · have : a ++ p ++ b ++ q ++ rest = (a ++ p) ++ (b ++ (q ++ rest)) := by simp [List.append_assoc]
      rw [this]; exact slice_mid' (by simp [ha, hp]) hb.symm
    · have : a ++ p ++ b ++ q ++ rest = (a ++ p ++ b ++ q) ++ rest := by simp [List.append_assoc]
      rw [this]
      have : (36 : Nat) = (a ++ p ++ b ++ q).length := by simp [ha, hp, hb, hq]
      rw [this]; simp
  obtain ⟨e1, e2, e3⟩ := s1 c0 c1 hc0 hc1
  obtain ⟨f1, f2, f3⟩ := s1 x y hx hy
  rw [e1, e2, e3, f1, f2, f3]


theorem u32not_lt (x : Nat) : u32not x < 2 ^ 32 := by unfold u32not; omega

theorem readEntries_eq (D : Bytes) (exts : List (Nat × Nat)) (hf : ∀ e ∈ exts, e.1 < 2 ^ 32 ∧ e.2 < 2 ^ 32)
    (hs : ∀ i (h : i < exts.length),
      slice D (JOURNAL_HEADER_SIZE + i * JOURNAL_ENTRY_SIZE) 4 = le 4 exts[i].1 ∧
      slice D (JOURNAL_HEADER_SIZE + i * JOURNAL_ENTRY_SIZE + 4) 4 = le 4 exts[i].2) :
    readEntries D exts.length = exts := by
  apply List.ext_getElem
  · simp [readEntries]
  · intro i h1 h2
    simp only [readEntries, List.getElem_map, List.getElem_range]
    obtain ⟨a, b⟩ := hs i h2
    have hb := hf exts[i] (List.getElem_mem h2)
    rw [a, b, le4 _ hb.1, le4 _ hb.2]

/-- **A journal slot image decodes to what was encoded**, whatever follows it in the slot: for
every generation, state and extent list that `encode_active` / `encode_clear` accept and that is
valid for the device, `decode_slot` of the stamped image returns exactly that generation, that
slot number and those extents. -/
theorem journal_slot_roundtrip (gen state total slot : Nat) (exts : List (Nat × Nat)) (tail : Bytes)
    (h : JournalOK gen state total exts) :
    decodeSlot (stampJournal (journalBody gen state exts) ++ tail) total slot =
      .ok { generation := gen, slot := slot, extents := exts } := by
  obtain ⟨hg, hst, hcnt, hfld, hin, hdis⟩ := h
  have hc32 : (journalChecksum (journalBody gen state exts)).toNat < 2 ^ 32 := (journalChecksum _).toNat_lt
  generalize hcdef : (journalChecksum (journalBody gen state exts)).toNat = c at hc32
  have hD : stampJournal (journalBody gen state exts) ++ tail =
      (jfine gen state exts c).flatten ++ (jpad exts ++ tail) := by
    rw [stamped_eq, hcdef, jfine_flatten, List.append_assoc]
  obtain ⟨s0, s8, s12, s16, s24, s28, s32, sent⟩ := journal_slices gen state exts c (jpad exts) tail
  rw [hD]
  have hcount32 : exts.length < 2 ^ 32 := by
    have : ALLOCATION_JOURNAL_MAX_ENTRIES = 1024 := rfl
    omega
  have hstate32 : state < 2 ^ 32 := by
    rcases hst with ⟨h1, _⟩ | ⟨h1, _⟩ <;> rw [h1] <;> decide
  have hlenF := jfine_length gen state exts c
  have hsz := imageSize_ge exts.length
  have hlenD : ((jfine gen state exts c).flatten ++ (jpad exts ++ tail)).length =
      journalImageSize exts.length + tail.length := by
    simp only [List.length_append, hlenF, jpad, zeros_length]; omega
  have hre := readEntries_eq _ exts hfld sent
  -- the checksum verifies
  have hcov : slice? ((jfine gen state exts c).flatten ++ (jpad exts ++ tail)) 0 (journalImageSize exts.length) =
      some (stampJournal (journalBody gen state exts)) := by
    have hl2 : ((jfine gen state exts c).flatten ++ jpad exts).length = journalImageSize exts.length := by
      simp only [List.length_append, hlenF, jpad, zeros_length]; omega
    simp only [slice?, hlenD]
    rw [if_pos (by omega)]
    rw [stamped_eq, hcdef, ← jfine_flatten, ← List.append_assoc]
    congr 1
    unfold slice
    rw [List.drop_zero, ← hl2, List.take_left' rfl]
  have hsame : journalChecksum (stampJournal (journalBody gen state exts)) = journalChecksum (journalBody gen state exts) := by
    have hA : (JOURNAL_MAGIC ++ le 4 JOURNAL_VERSION).length = 12 := by simp; rfl
    have hB : (le 8 gen ++ le 4 state ++ le 4 exts.length).length = 16 := by simp
    have hst' : stampJournal (journalBody gen state exts) =
        (JOURNAL_MAGIC ++ le 4 JOURNAL_VERSION) ++ le 4 c ++ (le 8 gen ++ le 4 state ++ le 4 exts.length) ++ le 4 (u32not c) ++
          (zeros 4 ++ exts.flatMap (fun e => le 4 e.1 ++ le 4 e.2) ++ jpad exts) := by
      unfold stampJournal
      simp only [hcdef]
      rw [body_split gen state exts]
      exact stamp_five _ _ _ _ _ _ _ hA (by simp) hB (by simp) (by simp) (by simp)
    rw [hst', body_split gen state exts]
    exact journalChecksum_stamp' _ _ _ _ _ hA (by simp) hB (by simp) _ _ (by simp) (by simp)
  have hsum : (journalChecksum (stampJournal (journalBody gen state exts))).toNat = c := by rw [hsame]; exact hcdef
  have hv : rd (le 4 JOURNAL_VERSION) = JOURNAL_VERSION := le4 _ (by decide)
  have hcnt' : ¬ exts.length > ALLOCATION_JOURNAL_MAX_ENTRIES := by omega
  have hlen40 : ¬ ((jfine gen state exts c).flatten ++ (jpad exts ++ tail)).length < JOURNAL_HEADER_SIZE := by
    rw [hlenD]; have : JOURNAL_HEADER_SIZE ≤ JOURNAL_HEADER_SIZE + exts.length * JOURNAL_ENTRY_SIZE := Nat.le_add_right _ _; omega
  have hent : ¬ JOURNAL_HEADER_SIZE + exts.length * JOURNAL_ENTRY_SIZE > ((jfine gen state exts c).flatten ++ (jpad exts ++ tail)).length := by
    rw [hlenD]; omega
  have hstOK : ((rd (le 4 state) != JOURNAL_CLEAR && rd (le 4 state) != JOURNAL_ACTIVE)
      || (rd (le 4 state) == JOURNAL_CLEAR && exts.length != 0) || (rd (le 4 state) == JOURNAL_ACTIVE && exts.length == 0)) = false := by
    rw [le4 _ hstate32]
    rcases hst with ⟨h1, h2⟩ | ⟨h1, h2⟩
    · subst h1; subst h2; decide
    · subst h1
      have : exts.length ≠ 0 := by intro h0; exact h2 (List.length_eq_zero_iff.mp h0)
      simp [JOURNAL_ACTIVE, JOURNAL_CLEAR, this]
  unfold decodeSlot
  simp only [hlen40, if_false, s0, s8, s12, s16, s24, s28, s32, hv, le8 _ hg.2, le4 _ hc32, le4 _ hcount32,
    le4 _ (u32not_lt c), hcov, hsum, hre, hin, hdis]
  have hgen0 : (gen == 0) = false := by simp; omega
  have hver : (JOURNAL_VERSION != FULL_SLOT_CHECKSUM_VERSION && JOURNAL_VERSION != JOURNAL_VERSION) = false := by decide
  have hver2 : (JOURNAL_VERSION == FULL_SLOT_CHECKSUM_VERSION) = false := by decide
  simp only [hgen0, hver, hver2, hcnt', hstOK, Bool.false_or, Bool.or_false, Bool.false_eq_true, if_false, decide_false,
    decide_eq_true_eq, Bool.or_self]
  rw [hcov]
  simp only [hsum, bne_self_eq_false, Bool.false_eq_true, if_false, hent, hre, hin, hdis]

end Feox.Fmt

namespace Feox.Fmt
open Feox.Gen

/-- **Slot selection**: with slot `a` holding a valid image of generation `g` and the other slot
holding (i) a valid image of a greater generation, (ii) bytes `decode_slot` rejects, or (iii)
nothing but zeros, `decode` returns (i) the newer state, (ii)/(iii) the state of slot `a` — a
write of the next generation that is torn or lost leaves the previous journal state in force.
(Stated for `a` = slot 0; the symmetric statement holds with the roles exchanged except that on
equal generations the later slot wins.) -/
theorem decodeJournal_two_slots (s0 s1 : Bytes) (total : Nat) (A B : JournalState)
    (h0 : s0.length = JOURNAL_SLOT_SIZE) (h1 : s1.length = JOURNAL_SLOT_SIZE)
    (hz0 : allZero s0 = false) (hA : decodeSlot s0 total 0 = .ok A) :
    (allZero s1 = false → decodeSlot s1 total 1 = .ok B → B.generation ≥ A.generation →
        decodeJournal (s0 ++ s1) total = .ok B) ∧
    (allZero s1 = false → decodeSlot s1 total 1 = .invalid → decodeJournal (s0 ++ s1) total = .ok A) ∧
    (allZero s1 = true → decodeJournal (s0 ++ s1) total = .ok A) := by
  have hlen : (s0 ++ s1).length = ALLOCATION_JOURNAL_BLOCKS * BSZ := by
    simp [h0, h1]; rfl
  have e0 : slice (s0 ++ s1) 0 JOURNAL_SLOT_SIZE = s0 := slice_zero_prefix _ _ h0.symm
  have e1 : slice (s0 ++ s1) JOURNAL_SLOT_SIZE JOURNAL_SLOT_SIZE = s1 := by
    have := slice_mid s0 s1 []
    simp only [List.append_nil] at this
    rw [h0, h1] at this
    exact this
  refine ⟨?_, ?_, ?_⟩
  · intro hz1 hB hge
    unfold decodeJournal
    simp only [hlen, bne_self_eq_false, Bool.false_eq_true, if_false, e0, e1, hz0, hz1, hA, hB]
    simp [hge]
  · intro hz1 hB
    unfold decodeJournal
    simp only [hlen, bne_self_eq_false, Bool.false_eq_true, if_false, e0, e1, hz0, hz1, hA, hB]
  · intro hz1
    unfold decodeJournal
    simp only [hlen, bne_self_eq_false, Bool.false_eq_true, if_false, e0, e1, hz0, hz1, hA, if_true]

end Feox.Fmt
