import Feox.Fmt.Abstract
/-!
# Fmt.RepCheck — deciding the hypotheses of `scan_rep_tiled` on a concrete image

Given a device image and a table of records with their extents (the index a store reports, or the
one the Lean reader computed), `labelOf` labels every data block — block `i` of record `g`'s
extent, or, outside every extent, what its bytes look like — and `repTiledB` decides whether the
image *represents* that labelling (`Rep`) and whether the labelling is a *tiling* (`TiledBy`) by
exactly the table's records.  `repTiled_sound` is the theorem that makes a `true` answer mean
something: the byte-level recovery scan of such an image accepts exactly the table's records.

The correspondence runs evaluate `repTiledB` on the device as the real store leaves it (after a
recovery with its repairs, after a clean close), with the index the real store reports.
-/
namespace Feox.Fmt
open Feox.Gen Feox.Proto

instance (data : Bytes) : Decidable (LooksFree data) := by unfold LooksFree; infer_instance
instance (v sector : Nat) (data : Bytes) (r : Nat) : Decidable (IsMark v sector data r) := by unfold IsMark; infer_instance
instance (img : Image) (v sector : Nat) (m : RecMeta) (n : Nat) : Decidable (IsHead img v sector m n) := by
  unfold IsHead; infer_instance

/-- the condition `Rep` puts on block `p` -/
def RepAt (img : Image) (v : Nat) (info : Gen → RecMeta) (d : Disk) (p : Nat) : Prop :=
  match d p with
  | .zero => LooksFree (blockAt img p)
  | .mark r => IsMark v p (blockAt img p) r ∧ p + r < 2 ^ 64
  | .data g 0 n => IsHead img v p (info g) n
  | .data _ (_ + 1) _ => True
  | .junk => True

instance (img : Image) (v : Nat) (info : Gen → RecMeta) (d : Disk) (p : Nat) : Decidable (RepAt img v info d p) := by
  unfold RepAt
  split <;> infer_instance

def repB (img : Image) (v lo total : Nat) (info : Gen → RecMeta) (d : Disk) : Bool :=
  (List.range (total - lo)).all fun i => decide (RepAt img v info d (lo + i))

theorem repB_sound {img : Image} {v lo total : Nat} {info : Gen → RecMeta} {d : Disk}
    (h : repB img v lo total info d = true) : Rep img v lo total info d := by
  intro p hlo hp
  unfold repB at h
  rw [List.all_eq_true] at h
  have := h (p - lo) (List.mem_range.mpr (by omega))
  have e : lo + (p - lo) = p := by omega
  rw [e] at this
  have h2 : RepAt img v info d p := of_decide_eq_true this
  exact h2

/-! ### deciding a tiling -/

def flsB (d : Disk) (q : Nat) : Bool :=
  match d q with
  | .zero => true
  | .mark _ => true
  | _ => false

theorem flsB_iff {d : Disk} {q : Nat} : flsB d q = true ↔ FLs d q := by
  unfold flsB FLs
  split <;> simp_all

def markOKB (d : Disk) (hi p : Nat) : Bool :=
  match d p with
  | .mark r => decide (0 < r) && decide (p + r ≤ hi) && (List.range (r - 1)).all fun i => flsB d (p + 1 + i)
  | _ => true

theorem markOKB_sound {d : Disk} {hi p : Nat} (h : markOKB d hi p = true) : MarkOK d hi p := by
  intro r hr
  unfold markOKB at h
  rw [hr] at h
  simp only [Bool.and_eq_true, decide_eq_true_eq, List.all_eq_true, List.mem_range] at h
  refine ⟨h.1.1, h.1.2, fun q h1 h2 => ?_⟩
  have := h.2 (q - (p + 1)) (by omega)
  have e : p + 1 + (q - (p + 1)) = q := by omega
  rw [e] at this
  exact flsB_iff.mp this

/-- walk the labelled data area from `p`: the records of the tiling, or `none` if it is not one -/
def tileOf (d : Disk) (hi : Nat) : Nat → Nat → Option (List Rec)
  | 0, p => if hi ≤ p then some [] else none
  | fuel + 1, p =>
    if hi ≤ p then some []
    else match d p with
      | .zero => tileOf d hi fuel (p + 1)
      | .mark _ => if markOKB d hi p then tileOf d hi fuel (p + 1) else none
      | .data g i n =>
        if i = 0 ∧ p + n ≤ hi ∧ intactB d p g n = true then (tileOf d hi fuel (p + n)).map ((p, g, n) :: ·) else none
      | .junk => none

theorem tileOf_sound {d : Disk} {hi : Nat} : ∀ (fuel p : Nat) (L : List Rec), tileOf d hi fuel p = some L → TiledBy d hi L p := by
  intro fuel
  induction fuel with
  | zero =>
    intro p L h
    unfold tileOf at h
    split at h
    · cases h; exact TiledBy.done (by assumption)
    · cases h
  | succ fuel ih =>
    intro p L h
    unfold tileOf at h
    split at h
    · cases h; exact TiledBy.done (by assumption)
    · rename_i hnot
      split at h
      · rename_i hz
        exact TiledBy.free (by omega) (Or.inl hz) (by intro r hr; rw [hz] at hr; cases hr) (ih _ _ h)
      · rename_i r hm
        split at h
        · rename_i hok
          exact TiledBy.free (by omega) (Or.inr ⟨r, hm⟩) (markOKB_sound hok) (ih _ _ h)
        · cases h
      · rename_i g i n hd
        split at h
        · rename_i hc
          obtain ⟨hi0, hb, hint⟩ := hc
          cases hrest : tileOf d hi fuel (p + n) with
          | none => rw [hrest] at h; cases h
          | some L' =>
            rw [hrest] at h
            simp only [Option.map_some, Option.some.injEq] at h
            subst h
            exact TiledBy.recd (intactB_iff.mp hint) hb (ih _ _ hrest)
        · cases h
      · cases h

/-! ### labelling an image by a table of extents -/

/-- index of the table entry whose extent holds block `p` -/
def ownerOf (lives : List Live) (p : Nat) : Option Nat :=
  lives.findIdx? fun l => decide (l.sector ≤ p ∧ p < l.sector + l.blocks)

def labelOf (img : Image) (v : Nat) (lives : List Live) (p : Nat) : Blk :=
  match ownerOf lives p with
  | some g =>
    let l := lives.getD g default
    .data g (p - l.sector) l.blocks
  | none =>
    let data := blockAt img p
    if decide (LooksFree data) then .zero
    else
      let r := rd (slice data 8 8)
      if decide (IsMark v p data r) then .mark r else .junk

def infoOf (lives : List Live) (g : Gen) : RecMeta :=
  let l := lives.getD g default
  ⟨l.key, l.valueLen, l.ts, l.expiry⟩

/-- the decision: the image represents the labelling induced by `lives`, the labelling is a tiling
of `[lo, total)`, and the tiling has as many records as the table (every entry is met, at its own
extent) -/
def repTiledB (img : Image) (v lo total : Nat) (lives : List Live) : Bool :=
  let d := labelOf img v lives
  repB img v lo total (infoOf lives) d &&
  match tileOf d total (total - lo + 1) lo with
  | some L => L.length == lives.length
  | none => false

/-- **Soundness of the decision.**  If `repTiledB` answers `true`, the byte-level recovery scan of
the image, started anywhere in a state `st`, accepts exactly the records of a tiling `L` of the
labelled data area, as many as the table has entries, and ends with the newest generation of
each key (or fails only where the free-space manager refuses a release). -/
theorem repTiled_sound {img : Image} {v lo total : Nat} {lives : List Live} {o : Opts} {journal : List (Nat × Nat)}
    (hro : o.readOnly = false) (h : repTiledB img v lo total lives = true) :
    ∃ L, TiledBy (labelOf img v lives) total L lo ∧ L.length = lives.length ∧
      ∀ st, GoodOutcome (infoOf lives) L st (scan img v total o journal lo st) := by
  unfold repTiledB at h
  simp only [Bool.and_eq_true] at h
  obtain ⟨hrep, htile⟩ := h
  cases hL : tileOf (labelOf img v lives) total (total - lo + 1) lo with
  | none => rw [hL] at htile; cases htile
  | some L =>
    rw [hL] at htile
    have ht := tileOf_sound _ _ _ hL
    refine ⟨L, ht, by simpa using htile, fun st => ?_⟩
    exact scan_rep_tiled hro (repB_sound hrep) (total - lo) lo L st (Nat.le_refl _) (Nat.le_refl _) ht

end Feox.Fmt
