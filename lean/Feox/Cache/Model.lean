import Feox.Fmt.Bytes
/-!
# Cache — executable model of `src/core/cache.rs` (`ClockCache`)

Buckets are lists in insertion order (a `Vec` with `push` / `remove(i)`); the bucket of a key
is `murmur3_32(key, 0) % nb`.  A cached entry may be tagged with the *generation* (the
`Record` it was read for); a generation is described to the model by what the code asks of it:
its identity, its timestamp, whether it is still the published one (`refcount ≠ 0`) and
whether the `Weak` still upgrades.
-/
namespace Feox.Cache
open Feox.Gen Feox.Fmt

/-! ### murmur3_32 -/

def rotl32 (x : UInt32) (r : UInt32) : UInt32 := (x <<< r) ||| (x >>> (32 - r))

def mC1 : UInt32 := UInt32.ofNat MURMUR_C1
def mC2 : UInt32 := UInt32.ofNat MURMUR_C2
def mR1 : UInt32 := UInt32.ofNat MURMUR_R1
def mR2 : UInt32 := UInt32.ofNat MURMUR_R2
def mM : UInt32 := UInt32.ofNat MURMUR_M
def mN : UInt32 := UInt32.ofNat MURMUR_N

def mixK (k : UInt32) : UInt32 := rotl32 (k * mC1) mR1 * mC2

def le32 (a b c d : UInt8) : UInt32 :=
  a.toUInt32 ||| (b.toUInt32 <<< 8) ||| (c.toUInt32 <<< 16) ||| (d.toUInt32 <<< 24)

def murmurBody : UInt32 → Bytes → UInt32
  | h, a :: b :: c :: d :: rest =>
    murmurBody ((rotl32 (h ^^^ mixK (le32 a b c d)) mR2) * mM + mN) rest
  | h, [] => h
  | h, [a] => h ^^^ mixK a.toUInt32
  | h, [a, b] => h ^^^ mixK (a.toUInt32 ||| (b.toUInt32 <<< 8))
  | h, [a, b, c] => h ^^^ mixK (a.toUInt32 ||| (b.toUInt32 <<< 8) ||| (c.toUInt32 <<< 16))

def fmix (h : UInt32) : UInt32 :=
  let h := h ^^^ (h >>> 16)
  let h := h * 0x85ebca6b
  let h := h ^^^ (h >>> 13)
  let h := h * 0xc2b2ae35
  h ^^^ (h >>> 16)

/-- `murmur3_32(key, seed)` -/
def murmur3 (key : Bytes) (seed : UInt32) : UInt32 :=
  fmix (murmurBody seed key ^^^ UInt32.ofNat key.length)

/-! ### the cache -/

/-- what the cache asks of a record generation (kept in a registry the harness maintains:
`alive` = the `Weak` still upgrades, `current` = `refcount ≠ 0`) -/
structure GenInfo where
  ts : Nat
  current : Bool
  alive : Bool
  deriving Repr, DecidableEq, Inhabited

structure CEntry where
  key : Bytes
  value : Bytes
  gen : Option Nat      -- identity of the generation it was read for (`Weak<Record>`)
  refBit : Bool
  size : Nat
  deriving Repr, DecidableEq, Inhabited

structure State where
  nb : Nat
  buckets : Array (List CEntry)
  hand : Nat
  high : Nat
  low : Nat
  mem : Nat
  entryOverhead : Nat
  gens : List (Nat × GenInfo)
  evictions : Nat
  hash : Bytes → Nat       -- `murmur3_32(key, 0)` in the real cache; abstract in the theorems

/-- an empty cache with `nb` buckets (the real one has `CACHE_BUCKETS`) -/
def mkState (nb over : Nat) (hash : Bytes → Nat) : State :=
  { nb := nb, buckets := Array.replicate nb [], hand := 0, high := CACHE_HIGH_WATERMARK_MB * MB,
    low := CACHE_LOW_WATERMARK_MB * MB, mem := 0, entryOverhead := over, gens := [], evictions := 0, hash := hash }

/-- the real cache's bucket hash -/
def realHash (key : Bytes) : Nat := (murmur3 key 0).toNat

def bucketOf (s : State) (key : Bytes) : Nat := s.hash key % s.nb

def getBucket (s : State) (i : Nat) : List CEntry := s.buckets.getD i []

def setBucket (s : State) (i : Nat) (b : List CEntry) : State := { s with buckets := s.buckets.setIfInBounds i b }

def genInfo (s : State) (id : Nat) : GenInfo := (s.gens.lookup id).getD ⟨0, false, false⟩

def setGen (s : State) (id : Nat) (g : GenInfo) : State :=
  { s with gens := (id, g) :: s.gens.filter (·.1 != id) }

/-- `generation_matches` of `get_entry` -/
def genMatches (want have_ : Option Nat) : Bool :=
  match want, have_ with
  | some g, some c => g == c
  | some _, none => false
  | none, _ => true

/-- first entry of the bucket with this key whose generation matches; a hit sets its reference bit -/
def getIn (key : Bytes) (want : Option Nat) : List CEntry → Option (Bytes × List CEntry)
  | [] => none
  | e :: rest =>
    if e.key == key && genMatches want e.gen then some (e.value, { e with refBit := true } :: rest)
    else (getIn key want rest).map fun vr => (vr.1, e :: vr.2)

/-- `get` / `get_for_record` -/
def get (s : State) (key : Bytes) (want : Option Nat) : State × Option Bytes :=
  let i := bucketOf s key
  match getIn key want (getBucket s i) with
  | some (v, b) => (setBucket s i b, some v)
  | none => (s, none)

/-- `can_replace_generation` -/
def canReplace (s : State) (cached : Option Nat) (incoming : Option Nat) : Bool :=
  match incoming with
  | none => true
  | some g =>
    let gi := genInfo s g
    if !gi.current then false
    else match cached with
      | none => true
      | some c =>
        if c == g then true
        else
          let ci := genInfo s c
          !ci.alive || !ci.current || ci.ts < gi.ts

/-- one bucket of the CLOCK sweep: referenced entries lose their bit, unreferenced ones are
evicted; stops as soon as usage is at or below the target -/
def sweepBucket (low : Nat) : List CEntry → Nat → Nat → List CEntry × Nat × Nat
  | [], u, ev => ([], u, ev)
  | e :: rest, u, ev =>
    if e.refBit then
      let e' := { e with refBit := false }
      if u ≤ low then (e' :: rest, u, ev)
      else
        let r := sweepBucket low rest u ev
        (e' :: r.1, r.2.1, r.2.2)
    else
      let u1 := u - e.size
      if u1 ≤ low then (rest, u1, ev + 1) else sweepBucket low rest u1 (ev + 1)

/-- one pass of the hand over up to `n` buckets -/
def evictPass (s : State) : Nat → State
  | 0 => s
  | n + 1 =>
    let i := s.hand % s.nb
    let r := sweepBucket s.low (getBucket s i) s.mem s.evictions
    let s1 : State := { setBucket s i r.1 with hand := s.hand + 1, mem := r.2.1, evictions := r.2.2 }
    if s1.mem ≤ s1.low then s1 else evictPass s1 n

/-- `evict_entries`: up to `MAX_SCANS` passes -/
def evictScans (s : State) : Nat → State
  | 0 => s
  | k + 1 => if s.mem ≤ s.low then s else evictScans (evictPass s s.nb) k

def evict (s : State) : State := if s.mem ≤ s.low then s else evictScans s MAX_SCANS

def replaceAt (b : List CEntry) (key : Bytes) (e' : CEntry) : List CEntry :=
  match b with
  | [] => []
  | e :: rest => if e.key == key then e' :: rest else e :: replaceAt rest key e'

def findKey (key : Bytes) : List CEntry → Option CEntry
  | [] => none
  | e :: rest => if e.key == key then some e else findKey key rest

/-- the bucket part of `insert_entry`: refresh the entry of this key in place (if the incoming
generation may replace the cached one) or push a new entry -/
def insertAt (s : State) (i : Nat) (key value : Bytes) (incoming : Option Nat) (size : Nat) : State :=
  match findKey key (getBucket s i) with
  | some e =>
    if !canReplace s e.gen incoming then s
    else
      { setBucket s i (replaceAt (getBucket s i) key ⟨key, value, incoming, true, size⟩) with
        mem := if size > e.size then s.mem + (size - e.size) else s.mem - (e.size - size) }
  | none =>
    { setBucket s i (getBucket s i ++ [⟨key, value, incoming, true, size⟩]) with mem := s.mem + size }

/-- `insert` / `insert_for_record` -/
def insert (s : State) (key value : Bytes) (incoming : Option Nat) : State :=
  let size := key.length + value.length + s.entryOverhead
  if size > s.high / 4 then s
  else
    let s1 := if s.mem + size > s.high then evict s else s
    insertAt s1 (bucketOf s1 key) key value incoming size

def wantMatches (want : Option Nat) (e : CEntry) : Bool :=
  match want with
  | none => true
  | some g => e.gen == some g

def removeMatching (key : Bytes) (want : Option Nat) : List CEntry → Option (CEntry × List CEntry)
  | [] => none
  | e :: rest =>
    if e.key == key && wantMatches want e then some (e, rest)
    else (removeMatching key want rest).map fun er => (er.1, e :: er.2)

/-- `remove` / `remove_for_record` -/
def remove (s : State) (key : Bytes) (want : Option Nat) : State :=
  let i := bucketOf s key
  match removeMatching key want (getBucket s i) with
  | some (e, b) => { setBucket s i b with mem := s.mem - e.size }
  | none => s

/-- `clear` -/
def heldBytes (s : State) : Nat := (s.buckets.toList.map fun b => (b.map (·.size)).sum).sum

def clear (s : State) : State :=
  { s with buckets := Array.replicate s.nb [], hand := 0, mem := s.mem - heldBytes s }

/-- `adjust_watermarks` -/
def adjust (s : State) (highMb lowMb : Nat) : State :=
  let high := highMb * MB
  let low := lowMb * MB
  if high > low && high ≤ CACHE_MAX_SIZE then
    let s1 := { s with high := high, low := low }
    if s1.mem > high then evict s1 else s1
  else s

end Feox.Cache
