import Feox.Props.C16
/-!
# Cache.Evict — an eviction always reaches the low watermark

Two full passes of the hand suffice: the first clears every reference bit it meets and evicts
what was unreferenced, the second evicts the rest; `MAX_SCANS = 3` leaves one to spare.
-/
namespace Feox.C16
open Feox.Cache Feox.Fmt

/-- a bucket after the sweep has gone through all of it: the referenced entries, bits cleared -/
def processed (b : List CEntry) : List CEntry :=
  (b.filter (·.refBit)).map fun e => { e with refBit := false }

theorem processed_processed (b : List CEntry) : processed (processed b) = [] := by
  simp [processed, List.filter_map, List.filter_eq_nil_iff]

/-- a sweep that does not reach the target has processed the whole bucket -/
theorem sweepBucket_full (low : Nat) (b : List CEntry) (u ev : Nat)
    (h : ¬ (sweepBucket low b u ev).2.1 ≤ low) : (sweepBucket low b u ev).1 = processed b := by
  induction b generalizing u ev with
  | nil => simp [sweepBucket, processed]
  | cons e rest ih =>
    unfold sweepBucket at h ⊢
    split
    · rename_i hr
      split
      · rename_i hu; simp [hr, hu] at h
      · rename_i hu
        simp only [hr, hu, if_true, if_false] at h
        have := ih u ev h
        simp [processed, hr] at this ⊢
        exact this
    · rename_i hr
      simp only
      split
      · rename_i hu; simp [hr, hu] at h
      · rename_i hu
        simp only [hr, hu, if_false] at h
        have := ih (u - e.size) (ev + 1) (by simpa using h)
        simp [processed, hr] at this ⊢
        exact this

/-- distinct steps of one pass visit distinct buckets -/
theorem mod_inj {nb h j1 j2 : Nat} (hnb : 0 < nb) (h1 : j1 < j2) (h2 : j2 < nb) :
    (h + j1) % nb ≠ (h + j2) % nb := by
  intro heq
  have e : h + j2 = (h + j1) + (j2 - j1) := by omega
  rw [e] at heq
  have hdlt : j2 - j1 < nb := by omega
  have hdpos : 0 < j2 - j1 := by omega
  generalize h + j1 = a at heq
  generalize j2 - j1 = d at heq hdlt hdpos
  have hr := Nat.mod_lt a hnb
  have key : (a + d) % nb = (a % nb + d) % nb := by rw [Nat.add_mod, Nat.mod_eq_of_lt hdlt]
  rw [key] at heq
  by_cases hlt : a % nb + d < nb
  · rw [Nat.mod_eq_of_lt hlt] at heq; omega
  · have : (a % nb + d) % nb = a % nb + d - nb := by
      rw [Nat.mod_eq_sub_mod (by omega), Nat.mod_eq_of_lt (by omega)]
    rw [this] at heq; omega

/-- every bucket is visited by some step of a full pass -/
theorem mod_surj {nb h i : Nat} (hnb : 0 < nb) (hi : i < nb) : ∃ j, j < nb ∧ (h + j) % nb = i := by
  refine ⟨(i + nb - h % nb) % nb, Nat.mod_lt _ hnb, ?_⟩
  have hh := Nat.mod_lt h hnb
  rw [Nat.add_mod, Nat.mod_mod]
  by_cases hc : h % nb ≤ i
  · have e1 : (i + nb - h % nb) % nb = i - h % nb := by
      have : i + nb - h % nb = (i - h % nb) + nb := by omega
      rw [this, Nat.add_mod_right, Nat.mod_eq_of_lt (by omega)]
    rw [e1, Nat.mod_eq_of_lt (by omega)]; omega
  · have e1 : (i + nb - h % nb) % nb = i + nb - h % nb := Nat.mod_eq_of_lt (by omega)
    rw [e1]
    have : h % nb + (i + nb - h % nb) = i + nb := by omega
    rw [this, Nat.add_mod_right, Nat.mod_eq_of_lt hi]

end Feox.C16

namespace Feox.C16
open Feox.Cache Feox.Fmt

theorem getBucket_setBucket_same (s : State) (i : Nat) (b : List CEntry) (h : i < s.buckets.size) :
    getBucket (setBucket s i b) i = b := by
  simp [getBucket, setBucket, Array.getD, h]

theorem getBucket_setBucket_other (s : State) (i i' : Nat) (b : List CEntry) (h : i ≠ i') :
    getBucket (setBucket s i b) i' = getBucket s i' := by
  simp only [getBucket, setBucket, Array.getD_eq_getD_getElem?]
  rw [Array.getElem?_setIfInBounds_ne h]

end Feox.C16

namespace Feox.C16
open Feox.Cache Feox.Fmt

/-- the state `k` steps into a pass that started at `s0` and has not reached the target -/
structure Pass (s0 : State) (k : Nat) (s : State) : Prop where
  hand : s.hand = s0.hand + k
  nb : s.nb = s0.nb
  low : s.low = s0.low
  size : s.buckets.size = s0.buckets.size
  done : ∀ j, j < k → getBucket s ((s0.hand + j) % s0.nb) = processed (getBucket s0 ((s0.hand + j) % s0.nb))
  rest : ∀ i, (∀ j, j < k → (s0.hand + j) % s0.nb ≠ i) → getBucket s i = getBucket s0 i

theorem Pass.start (s0 : State) : Pass s0 0 s0 :=
  ⟨rfl, rfl, rfl, rfl, fun _ h => absurd h (Nat.not_lt_zero _), fun _ _ => rfl⟩

/-- `n` more steps of the pass: the target is reached, or `n` more buckets are processed -/
theorem evictPass_spec {s0 : State} (h0 : Inv s0) : ∀ (n k : Nat) (s : State), Pass s0 k s → k + n ≤ s0.nb →
    (evictPass s n).mem ≤ (evictPass s n).low ∨ Pass s0 (k + n) (evictPass s n) := by
  intro n
  induction n with
  | zero => intro k s hp _; right; simpa [evictPass] using hp
  | succ n ih =>
    intro k s hp hk
    have hklt : k < s0.nb := by omega
    unfold evictPass
    simp only
    have hi : s.hand % s.nb = (s0.hand + k) % s0.nb := by rw [hp.hand, hp.nb]
    have hilt : (s0.hand + k) % s0.nb < s.buckets.size := by
      rw [hp.size, h0.len]; exact Nat.mod_lt _ h0.pos
    -- the bucket about to be swept is still as it was at the start of the pass
    have hsame : getBucket s ((s0.hand + k) % s0.nb) = getBucket s0 ((s0.hand + k) % s0.nb) :=
      hp.rest _ (fun j hj => mod_inj h0.pos hj hklt)
    rw [hi]
    split
    · left; assumption
    · rename_i hnot
      have hfull := sweepBucket_full s.low (getBucket s ((s0.hand + k) % s0.nb)) s.mem s.evictions hnot
      have hnext : Pass s0 (k + 1)
          { setBucket s ((s0.hand + k) % s0.nb) (sweepBucket s.low (getBucket s ((s0.hand + k) % s0.nb)) s.mem s.evictions).1 with
            hand := s.hand + 1
            mem := (sweepBucket s.low (getBucket s ((s0.hand + k) % s0.nb)) s.mem s.evictions).2.1
            evictions := (sweepBucket s.low (getBucket s ((s0.hand + k) % s0.nb)) s.mem s.evictions).2.2 } := by
        refine ⟨by simp [setBucket, hp.hand]; omega, by simp [setBucket, hp.nb], by simp [setBucket, hp.low],
          by simp [setBucket, hp.size], ?_, ?_⟩
        · intro j hj
          rcases Nat.lt_succ_iff_lt_or_eq.mp hj with hj' | rfl
          · have hne : (s0.hand + k) % s0.nb ≠ (s0.hand + j) % s0.nb := fun e => mod_inj h0.pos hj' hklt e.symm
            show getBucket (setBucket s _ _) _ = _
            rw [getBucket_setBucket_other _ _ _ _ hne]
            exact hp.done j hj'
          · show getBucket (setBucket s _ _) _ = _
            rw [getBucket_setBucket_same _ _ _ hilt, hfull, hsame]
        · intro i hni
          have hne : (s0.hand + k) % s0.nb ≠ i := hni k (Nat.lt_succ_self k)
          show getBucket (setBucket s _ _) _ = _
          rw [getBucket_setBucket_other _ _ _ _ hne]
          exact hp.rest i (fun j hj => hni j (Nat.lt_succ_of_lt hj))
      have := ih (k + 1) _ hnext (by omega)
      have e : k + 1 + n = k + (n + 1) := by omega
      rw [e] at this
      exact this

end Feox.C16

namespace Feox.C16
open Feox.Cache Feox.Fmt

/-- a full pass either reaches the target or processes every bucket -/
theorem full_pass {s0 : State} (h0 : Inv s0) :
    (evictPass s0 s0.nb).mem ≤ (evictPass s0 s0.nb).low ∨
    (∀ i, i < s0.nb → getBucket (evictPass s0 s0.nb) i = processed (getBucket s0 i)) := by
  rcases evictPass_spec h0 s0.nb 0 s0 (Pass.start s0) (Nat.le_of_eq (Nat.zero_add _)) with h | h
  · exact Or.inl h
  · right
    intro i hi
    obtain ⟨j, hj, hji⟩ := mod_surj (h := s0.hand) h0.pos hi
    have := h.done j (by omega)
    rw [hji] at this
    exact this

theorem total_zero_of_empty (s : State) (h : ∀ i, i < s.buckets.size → getBucket s i = []) : total s = 0 := by
  unfold total
  have hsum : ∀ (l : List Nat), (∀ x ∈ l, x = 0) → l.sum = 0 := by
    intro l
    induction l with
    | nil => intro _; rfl
    | cons a t ih => intro h; simp [h a List.mem_cons_self, ih (fun x hx => h x (List.mem_cons_of_mem _ hx))]
  apply hsum
  intro x hx
  obtain ⟨b, hb, rfl⟩ := List.mem_map.mp hx
  obtain ⟨i, hi, rfl⟩ := List.getElem_of_mem hb
  have hi' : i < s.buckets.size := by simpa using hi
  have := h i hi'
  simp only [getBucket, Array.getD, hi', dite_true] at this
  have hb2 : s.buckets[i] = [] := this
  simp [Array.getElem_toList, hb2, bsize]

/-- **An eviction always reaches the low watermark**: in every state that satisfies the
accounting invariant, after `evict` the reported usage is at or below the target. -/
theorem evict_reaches_low {s : State} (hi : Inv s) : (evict s).mem ≤ (evict s).low := by
  unfold evict
  split
  · assumption
  · -- MAX_SCANS = 3 passes; two are enough
    have hms : Gen.MAX_SCANS = 3 := rfl
    rw [hms]
    simp only [evictScans]
    rename_i hgt
    rw [if_neg hgt]
    split
    · assumption
    · rename_i h1
      -- second pass
      have hi1 : Inv (evictPass s s.nb) := evictPass_inv hi s.nb
      split
      · assumption
      · rename_i h2
        exfalso
        rcases full_pass hi with hA | hA
        · exact h1 hA
        · have hnb1 : (evictPass s s.nb).nb = s.nb := by
            have := hi1.len; have hl := hi.len
            rcases evictPass_spec hi s.nb 0 s (Pass.start s) (Nat.le_of_eq (Nat.zero_add _)) with hx | hx
            · exact absurd hx h1
            · exact hx.nb
          rcases full_pass hi1 with hB | hB
          · exact h2 hB
          · -- every bucket is now empty, so usage is zero
            apply h2
            have hi2 : Inv (evictPass (evictPass s s.nb) (evictPass s s.nb).nb) := evictPass_inv hi1 _
            have hz : total (evictPass (evictPass s s.nb) (evictPass s s.nb).nb) = 0 := by
              apply total_zero_of_empty
              intro i hlt
              rw [hi2.len] at hlt
              have hnb2 : (evictPass (evictPass s s.nb) (evictPass s s.nb).nb).nb = (evictPass s s.nb).nb := by
                rcases evictPass_spec hi1 _ 0 _ (Pass.start _) (Nat.le_of_eq (Nat.zero_add _)) with hx | hx
                · exact absurd hx h2
                · exact hx.nb
              rw [hnb2] at hlt
              rw [hB i hlt, hA i (by rw [← hnb1]; exact hlt), processed_processed]
            rw [hi2.mem, hz]
            exact Nat.zero_le _

end Feox.C16
