import Feox.Gen.Constants
/-!
# Fsm — executable model of `src/storage/free_space.rs`

The two B-trees of `FreeSpaceManager` hold the same set of runs; `by_start` is a map keyed by
the start sector, so its iteration order is ascending start — the model keeps exactly that
view (`runs`, ascending `start`, unique starts) and derives the `(size, start)` order of
`by_size` when it is needed (`bestFit`, `largest`).  `total_free`, `device_size` and
`fragmentation_percent` are tracked fields updated by the same arithmetic as the code.
Machine integers are `Nat`; `C06.no_overflow` licenses that for devices up to
`MAX_DEVICE_SIZE`.
-/
namespace Feox.Fsm
open Feox.Gen

inductive Err | InvalidArgument | OutOfSpace | DuplicateKey | CorruptedData | InvalidDevice
  deriving Repr, DecidableEq, Inhabited

structure Run where
  start : Nat
  size  : Nat
  deriving Repr, DecidableEq, Inhabited

structure State where
  runs       : List Run := []     -- `by_start` view: ascending start
  totalFree  : Nat := 0           -- bytes
  deviceSize : Nat := 0           -- bytes; 0 = "no bound known"
  frag       : Nat := 0
  deriving Repr, DecidableEq, Inhabited

abbrev BS : Nat := FEOX_BLOCK_SIZE
abbrev DS : Nat := FEOX_DATA_START_BLOCK

def Run.stop (r : Run) : Nat := r.start + r.size

/-- `is_valid_free_space` -/
def isValidFree (dev : Nat) (r : Run) : Bool :=
  if r.start < DS then false
  else if dev > 0 then
    let ds := dev / BS
    if r.start ≥ ds then false
    else if r.start + r.size > ds then false
    else true
  else true

/-- `is_valid_sector_range` -/
def isValidRange (dev : Nat) (start count : Nat) : Bool :=
  if start < DS || count == 0 then false
  else if dev > 0 then
    let ds := dev / BS
    if start ≥ ds then false
    else decide (start + count ≤ ds)
  else true

/-- insertion into the start-ordered view (`BTreeMap::insert` on `by_start`) -/
def insertRun (r : Run) : List Run → List Run
  | [] => [r]
  | x :: xs => if r.start < x.start then r :: x :: xs else x :: insertRun r xs

/-- `by_start.remove(&start)` (and the twin removal from `by_size`) -/
def removeStart (s : Nat) (rs : List Run) : List Run := rs.filter (fun r => r.start != s)

def hasStart (s : Nat) (rs : List Run) : Bool := rs.any (fun r => r.start == s)

/-- `(size, start)` lexicographic order of `by_size` -/
def sizeLt (a b : Run) : Bool := a.size < b.size || (a.size == b.size && a.start < b.start)

/-- `by_size.range((n, 0)..).next()` : the `(size,start)`-least run with `size ≥ n` -/
def bestFit (n : Nat) : List Run → Option Run
  | [] => none
  | x :: xs =>
    match bestFit n xs with
    | none => if x.size ≥ n then some x else none
    | some b => if x.size ≥ n && sizeLt x b then some x else some b

/-- `by_size.iter().next_back()` : the `(size,start)`-greatest run -/
def largest : List Run → Option Run
  | [] => none
  | x :: xs =>
    match largest xs with
    | none => some x
    | some b => if sizeLt b x then some x else some b

def largestBytes (rs : List Run) : Nat :=
  match largest rs with
  | some r => r.size * BS
  | none => 0

/-- `update_fragmentation` -/
def updateFrag (s : State) : State :=
  if s.totalFree == 0 then { s with frag := 0 }
  else if s.runs.length ≤ 1 then { s with frag := 0 }
  else
    let l := largestBytes s.runs
    { s with frag := ((s.totalFree - l) * 100) / s.totalFree }

/-- `insert_free_space` -/
def insertFree (s : State) (r : Run) : Except Err State :=
  if r.size == 0 then .error .InvalidArgument
  else if !isValidFree s.deviceSize r then .error .InvalidArgument
  else if hasStart r.start s.runs then .error .DuplicateKey
  else .ok { s with totalFree := s.totalFree + r.size * BS, runs := insertRun r s.runs }

def new : State := {}

/-- `initDevice` -/
def initDevice (s : State) (dev : Nat) : Except Err State :=
  let s := { s with deviceSize := dev }
  let total := dev / BS
  if total ≤ DS then .error .InvalidDevice     -- the device size stays assigned, as in the code
  else insertFree s { start := DS, size := total - DS }

/-- the state after a failed `initDevice` (the assignment precedes the check) -/
def initializeState (s : State) (dev : Nat) : State :=
  match initDevice s dev with
  | .ok s' => s'
  | .error _ => { s with deviceSize := dev }

def setDeviceSize (s : State) (dev : Nat) : State := { s with deviceSize := dev }

/-- remove a run from both trees and debit `total_free` -/
def takeRun (s : State) (r : Run) : State :=
  { s with runs := removeStart r.start s.runs, totalFree := s.totalFree - r.size * BS }

/-- `allocate_sectors`: result and the state afterwards (the state can change on an error
path of the code only through the failed re-insert, which `Inv` excludes; it is modelled
all the same). -/
def allocate (s : State) (n : Nat) : Except Err Nat × State :=
  if n == 0 then (.error .InvalidArgument, s)
  else match bestFit n s.runs with
    | none => (.error .OutOfSpace, s)
    | some sp =>
      if !isValidFree s.deviceSize sp then (.error .CorruptedData, s)
      else
        let s1 := takeRun s sp
        if sp.size > n then
          match insertFree s1 { start := sp.start + n, size := sp.size - n } with
          | .ok s2 => (.ok sp.start, updateFrag s2)
          | .error e =>
            match insertFree s1 sp with
            | .ok s3 => (.error e, s3)
            | .error _ => (.error e, s1)
        else (.ok sp.start, updateFrag s1)

/-- `by_start.range(..start).next_back()` -/
def preceding (start : Nat) : List Run → Option Run
  | [] => none
  | x :: xs =>
    if x.start < start then
      match preceding start xs with
      | some p => some p
      | none => some x
    else none

/-- `by_start.range(start..=end).next()` -/
def following (start stop : Nat) : List Run → Option Run
  | [] => none
  | x :: xs =>
    if x.start < start then following start stop xs
    else if x.start ≤ stop then some x else none

/-- `space.start + space.size > start` on the preceding probe -/
def overlapsPrev (prec : Option Run) (start : Nat) : Bool :=
  match prec with
  | some p => decide (p.start + p.size > start)
  | none => false

/-- `space.start < end` on the following probe -/
def overlapsNext (foll : Option Run) (stop : Nat) : Bool :=
  match foll with
  | some f => decide (f.start < stop)
  | none => false

/-- `release_sectors` (with `try_merge_spaces`) -/
def release (s : State) (start count : Nat) : Except Err Unit × State :=
  if start < DS || count == 0 then (.error .InvalidArgument, s)
  else if !isValidRange s.deviceSize start count then (.error .InvalidArgument, s)
  else if start + count ≥ 2 ^ 64 then (.error .InvalidArgument, s)   -- `checked_add`
  else
    let stop := start + count
    let prec := preceding start s.runs
    let foll := following start stop s.runs
    if overlapsPrev prec start then (.error .DuplicateKey, s)
    else if overlapsNext foll stop then (.error .DuplicateKey, s)
    else
      let prev := prec.filter (fun p => p.start + p.size == start)
      let next := foll.filter (fun f => f.start == stop)
      let (s1, mstart, msize) :=
        match prev with
        | some p => (takeRun s p, p.start, count + p.size)
        | none => (s, start, count)
      let (s2, msize) :=
        match next with
        | some f => (takeRun s1 f, msize + f.size)
        | none => (s1, msize)
      match insertFree s2 { start := mstart, size := msize } with
      | .ok s3 => (.ok (), updateFrag s3)
      | .error e => (.error e, s2)

def getTotalFree (s : State) : Nat := s.totalFree
def getFragmentation (s : State) : Nat := s.frag
def getFreeChunks (s : State) : Nat := s.runs.length
def getLargestFree (s : State) : Nat := largestBytes s.runs

/-- the public calls of `FreeSpaceManager` -/
inductive Call
  | init (dev : Nat)
  | setSize (dev : Nat)
  | alloc (n : Nat)
  | release (start count : Nat)
  deriving Repr, DecidableEq

inductive Res
  | unit | sector (a : Nat) | err (e : Err)
  deriving Repr, DecidableEq

def step (s : State) : Call → Res × State
  | .init dev =>
    match initDevice s dev with
    | .ok s' => (.unit, s')
    | .error e => (.err e, { s with deviceSize := dev })
  | .setSize dev => (.unit, setDeviceSize s dev)
  | .alloc n =>
    match allocate s n with
    | (.ok a, s') => (.sector a, s')
    | (.error e, s') => (.err e, s')
  | .release a n =>
    match release s a n with
    | (.ok _, s') => (.unit, s')
    | (.error e, s') => (.err e, s')

def run (s : State) : List Call → State
  | [] => s
  | c :: cs => run (step s c).2 cs

end Feox.Fsm
