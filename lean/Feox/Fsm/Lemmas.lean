import Feox.Fsm.Model
/-! Helper lemmas for the free-space model.  Property theorems live in `Feox/Props/C06.lean`. -/
namespace Feox.Fsm

/-- block `b` is free -/
def covers (rs : List Run) (b : Nat) : Prop := ∃ r ∈ rs, r.start ≤ b ∧ b < r.start + r.size

/-- `a` lies strictly before `b` with a gap of at least one block (disjoint and non-adjacent) -/
def Gap (a b : Run) : Prop := a.start + a.size < b.start

def sumSizes (rs : List Run) : Nat := (rs.map (·.size)).sum

/-- what `update_fragmentation` would store -/
def fragOf (s : State) : Nat := (updateFrag s).frag

structure Inv (s : State) : Prop where
  sep   : s.runs.Pairwise Gap
  pos   : ∀ r ∈ s.runs, 0 < r.size ∧ DS ≤ r.start
  bnd   : 0 < s.deviceSize → ∀ r ∈ s.runs, r.start + r.size ≤ s.deviceSize / BS
  total : s.totalFree = sumSizes s.runs * BS
  frag  : s.frag = fragOf s

theorem BS_eq : BS = 4096 := rfl
theorem DS_eq : DS = 16 := rfl

/-! ### list plumbing -/

theorem mem_insertRun {r x : Run} {rs : List Run} : x ∈ insertRun r rs ↔ x = r ∨ x ∈ rs := by
  induction rs with
  | nil => simp [insertRun]
  | cons y ys ih =>
    unfold insertRun
    split
    · simp
    · simp [ih]; constructor
      · rintro (h | h | h) <;> simp [h]
      · rintro (h | h | h) <;> simp [h]

theorem sumSizes_insertRun (r : Run) (rs : List Run) :
    sumSizes (insertRun r rs) = r.size + sumSizes rs := by
  induction rs with
  | nil => simp [insertRun, sumSizes]
  | cons y ys ih =>
    unfold insertRun
    split
    · simp [sumSizes]
    · simp only [sumSizes, List.map_cons, List.sum_cons] at ih ⊢; omega

theorem length_insertRun (r : Run) (rs : List Run) :
    (insertRun r rs).length = rs.length + 1 := by
  induction rs with
  | nil => simp [insertRun]
  | cons y ys ih =>
    unfold insertRun
    split <;> simp [ih]

theorem pairwise_insertRun {r : Run} {rs : List Run} (h : rs.Pairwise Gap)
    (hr : ∀ x ∈ rs, Gap x r ∨ Gap r x) : (insertRun r rs).Pairwise Gap := by
  induction rs with
  | nil => simp [insertRun]
  | cons y ys ih =>
    rw [List.pairwise_cons] at h
    unfold insertRun
    split
    · rename_i hlt
      rw [List.pairwise_cons]
      refine ⟨?_, List.pairwise_cons.mpr h⟩
      intro x hx
      rcases List.mem_cons.mp hx with rfl | hx'
      · rcases hr x (by simp) with h1 | h1
        · unfold Gap at h1; omega
        · exact h1
      · have h2 := h.1 x hx'
        rcases hr x (by simp [hx']) with h1 | h1
        · unfold Gap at h1 h2; omega
        · exact h1
    · rename_i hge
      rw [List.pairwise_cons]
      refine ⟨?_, ih h.2 (fun x hx => hr x (by simp [hx]))⟩
      intro x hx
      rcases mem_insertRun.mp hx with rfl | hx'
      · rcases hr y (by simp) with h1 | h1
        · exact h1
        · unfold Gap at h1; omega
      · exact h.1 x hx'

theorem mem_removeStart {s : Nat} {x : Run} {rs : List Run} :
    x ∈ removeStart s rs ↔ x ∈ rs ∧ x.start ≠ s := by
  simp [removeStart]

theorem pairwise_removeStart {s : Nat} {rs : List Run} (h : rs.Pairwise Gap) :
    (removeStart s rs).Pairwise Gap := by
  unfold removeStart; exact h.filter _

theorem starts_unique {rs : List Run} (h : rs.Pairwise Gap) {a b : Run}
    (ha : a ∈ rs) (hb : b ∈ rs) (hs : a.start = b.start) : a = b := by
  induction rs with
  | nil => simp at ha
  | cons y ys ih =>
    rw [List.pairwise_cons] at h
    rcases List.mem_cons.mp ha with rfl | ha' <;> rcases List.mem_cons.mp hb with rfl | hb'
    · rfl
    · have := h.1 b hb'; unfold Gap at this; omega
    · have := h.1 a ha'; unfold Gap at this; omega
    · exact ih h.2 ha' hb'

/-- any two distinct members are separated one way or the other -/
theorem sep_or {rs : List Run} (h : rs.Pairwise Gap) {a b : Run}
    (ha : a ∈ rs) (hb : b ∈ rs) : a = b ∨ Gap a b ∨ Gap b a := by
  induction rs with
  | nil => simp at ha
  | cons y ys ih =>
    rw [List.pairwise_cons] at h
    rcases List.mem_cons.mp ha with rfl | ha' <;> rcases List.mem_cons.mp hb with rfl | hb'
    · exact Or.inl rfl
    · exact Or.inr (Or.inl (h.1 b hb'))
    · exact Or.inr (Or.inr (h.1 a ha'))
    · exact ih h.2 ha' hb'

theorem removeStart_self_of_lt {s : Nat} {ys : List Run} (h : ∀ x ∈ ys, s < x.start) :
    removeStart s ys = ys := by
  unfold removeStart
  apply List.filter_eq_self.mpr
  intro x hx
  have := h x hx
  simp; omega

theorem sumSizes_removeStart {rs : List Run} (h : rs.Pairwise Gap) {r : Run} (hr : r ∈ rs) :
    sumSizes (removeStart r.start rs) + r.size = sumSizes rs := by
  induction rs with
  | nil => simp at hr
  | cons y ys ih =>
    rw [List.pairwise_cons] at h
    rcases List.mem_cons.mp hr with rfl | hr'
    · have e1 : removeStart r.start (r :: ys) = removeStart r.start ys := by
        simp [removeStart]
      have e2 : removeStart r.start ys = ys :=
        removeStart_self_of_lt (fun x hx => by have := h.1 x hx; unfold Gap at this; omega)
      rw [e1, e2]; simp [sumSizes]; omega
    · have hne : y.start ≠ r.start := by
        have := h.1 r hr'; unfold Gap at this; omega
      have := ih h.2 hr'
      simp [removeStart, sumSizes, hne] at this ⊢
      omega

theorem length_removeStart {rs : List Run} (h : rs.Pairwise Gap) {r : Run} (hr : r ∈ rs) :
    (removeStart r.start rs).length + 1 = rs.length := by
  induction rs with
  | nil => simp at hr
  | cons y ys ih =>
    rw [List.pairwise_cons] at h
    rcases List.mem_cons.mp hr with rfl | hr'
    · have e1 : removeStart r.start (r :: ys) = removeStart r.start ys := by
        simp [removeStart]
      have e2 : removeStart r.start ys = ys :=
        removeStart_self_of_lt (fun x hx => by have := h.1 x hx; unfold Gap at this; omega)
      rw [e1, e2]; simp
    · have hne : y.start ≠ r.start := by
        have := h.1 r hr'; unfold Gap at this; omega
      have := ih h.2 hr'
      simp [removeStart, hne] at this ⊢
      omega

theorem hasStart_iff {s : Nat} {rs : List Run} : hasStart s rs = true ↔ ∃ r ∈ rs, r.start = s := by
  simp [hasStart]

/-! ### `bestFit` / `largest` -/

theorem bestFit_none {n : Nat} {rs : List Run} : bestFit n rs = none ↔ ∀ r ∈ rs, r.size < n := by
  induction rs with
  | nil => simp [bestFit]
  | cons x xs ih =>
    unfold bestFit
    split
    · rename_i h
      have hx := ih.mp h
      split
      · rename_i hge
        constructor
        · intro hh; cases hh
        · intro hh; have := hh x (by simp); omega
      · rename_i hlt
        constructor
        · intro _ r hr
          rcases List.mem_cons.mp hr with rfl | hr'
          · omega
          · exact hx r hr'
        · intro _; rfl
    · rename_i b h
      have hne : ¬ ∀ r ∈ xs, r.size < n := fun hh => by rw [ih.mpr hh] at h; cases h
      split
      · constructor
        · intro hh; cases hh
        · intro hh; exact absurd (fun r hr => hh r (by simp [hr])) hne
      · constructor
        · intro hh; cases hh
        · intro hh; exact absurd (fun r hr => hh r (by simp [hr])) hne

theorem bestFit_some {n : Nat} {rs : List Run} {b : Run} (h : bestFit n rs = some b) :
    b ∈ rs ∧ n ≤ b.size ∧
      ∀ r ∈ rs, n ≤ r.size → (b.size < r.size ∨ (b.size = r.size ∧ b.start ≤ r.start)) := by
  induction rs generalizing b with
  | nil => simp [bestFit] at h
  | cons x xs ih =>
    unfold bestFit at h
    split at h
    · rename_i hn
      have hnone := bestFit_none.mp hn
      split at h
      · cases h
        refine ⟨by simp, by omega, ?_⟩
        intro r hr hnr
        rcases List.mem_cons.mp hr with rfl | hr'
        · omega
        · have := hnone r hr'; omega
      · cases h
    · rename_i c hc
      have ⟨hm, hsz, hmin⟩ := ih hc
      split at h
      · rename_i hcond
        cases h
        simp [sizeLt] at hcond
        refine ⟨by simp, by omega, ?_⟩
        intro r hr hnr
        rcases List.mem_cons.mp hr with rfl | hr'
        · omega
        · have := hmin r hr' hnr; omega
      · rename_i hcond
        cases h
        simp [sizeLt] at hcond
        refine ⟨by simp [hm], hsz, ?_⟩
        intro r hr hnr
        rcases List.mem_cons.mp hr with rfl | hr'
        · by_cases hx : n ≤ r.size
          · have := hcond hx; omega
          · omega
        · exact hmin r hr' hnr

theorem largest_none {rs : List Run} : largest rs = none ↔ rs = [] := by
  cases rs with
  | nil => simp [largest]
  | cons x xs =>
    unfold largest
    split <;> (try split) <;> simp

theorem largest_some {rs : List Run} {b : Run} (h : largest rs = some b) :
    b ∈ rs ∧ ∀ r ∈ rs, r.size ≤ b.size := by
  induction rs generalizing b with
  | nil => simp [largest] at h
  | cons x xs ih =>
    unfold largest at h
    split at h
    · rename_i hn
      cases h
      have := largest_none.mp hn
      subst this
      simp
    · rename_i c hc
      have ⟨hm, hmax⟩ := ih hc
      split at h
      · rename_i hcond
        cases h
        simp [sizeLt] at hcond
        refine ⟨by simp, ?_⟩
        intro r hr
        rcases List.mem_cons.mp hr with rfl | hr'
        · omega
        · have := hmax r hr'; omega
      · rename_i hcond
        cases h
        simp [sizeLt] at hcond
        refine ⟨by simp [hm], ?_⟩
        intro r hr
        rcases List.mem_cons.mp hr with rfl | hr'
        · omega
        · exact hmax r hr'

/-! ### `preceding` / `following` on a start-sorted list -/

theorem sorted_of_sep {rs : List Run} (h : rs.Pairwise Gap) :
    rs.Pairwise (fun a b => a.start < b.start) :=
  h.imp (fun {a b} hab => by unfold Gap at hab; omega)

theorem preceding_some {a : Nat} {rs : List Run} {p : Run}
    (hs : rs.Pairwise (fun a b => a.start < b.start)) (h : preceding a rs = some p) :
    p ∈ rs ∧ p.start < a ∧ ∀ r ∈ rs, r.start < a → r.start ≤ p.start := by
  induction rs generalizing p with
  | nil => simp [preceding] at h
  | cons x xs ih =>
    rw [List.pairwise_cons] at hs
    unfold preceding at h
    split at h
    · rename_i hlt
      split at h
      · rename_i q hq
        cases h
        have ⟨h1, h2, h3⟩ := ih hs.2 hq
        refine ⟨by simp [h1], h2, ?_⟩
        intro r hr hra
        rcases List.mem_cons.mp hr with rfl | hr'
        · have := hs.1 p h1; omega
        · exact h3 r hr' hra
      · rename_i hq
        cases h
        refine ⟨by simp, hlt, ?_⟩
        intro r hr hra
        rcases List.mem_cons.mp hr with rfl | hr'
        · omega
        · -- preceding a xs = none means every element of xs has start ≥ a
          exfalso
          clear ih
          induction xs with
          | nil => simp at hr'
          | cons y ys ih2 =>
            unfold preceding at hq
            split at hq
            · split at hq <;> cases hq
            · rename_i hge
              rw [List.pairwise_cons] at hs
              rcases List.mem_cons.mp hr' with rfl | hr''
              · omega
              · have h1 := hs.2.1 r hr''
                omega
    · cases h

theorem preceding_none {a : Nat} {rs : List Run}
    (hs : rs.Pairwise (fun a b => a.start < b.start)) (h : preceding a rs = none) :
    ∀ r ∈ rs, a ≤ r.start := by
  cases rs with
  | nil => simp
  | cons x xs =>
    rw [List.pairwise_cons] at hs
    unfold preceding at h
    split at h
    · split at h <;> cases h
    · rename_i hge
      intro r hr
      rcases List.mem_cons.mp hr with rfl | hr'
      · omega
      · have := hs.1 r hr'; omega

theorem following_some {a e : Nat} {rs : List Run} {f : Run}
    (hs : rs.Pairwise (fun a b => a.start < b.start)) (h : following a e rs = some f) :
    f ∈ rs ∧ a ≤ f.start ∧ f.start ≤ e ∧ ∀ r ∈ rs, a ≤ r.start → f.start ≤ r.start := by
  induction rs with
  | nil => simp [following] at h
  | cons x xs ih =>
    rw [List.pairwise_cons] at hs
    unfold following at h
    split at h
    · rename_i hlt
      have ⟨h1, h2, h3, h4⟩ := ih hs.2 h
      refine ⟨by simp [h1], h2, h3, ?_⟩
      intro r hr hra
      rcases List.mem_cons.mp hr with rfl | hr'
      · omega
      · exact h4 r hr' hra
    · rename_i hge
      split at h
      · rename_i hle
        cases h
        refine ⟨by simp, by omega, hle, ?_⟩
        intro r hr _
        rcases List.mem_cons.mp hr with rfl | hr'
        · omega
        · have := hs.1 r hr'; omega
      · cases h

theorem following_none {a e : Nat} {rs : List Run}
    (hs : rs.Pairwise (fun a b => a.start < b.start)) (h : following a e rs = none) :
    ∀ r ∈ rs, r.start < a ∨ e < r.start := by
  induction rs with
  | nil => simp
  | cons x xs ih =>
    rw [List.pairwise_cons] at hs
    unfold following at h
    split at h
    · rename_i hlt
      intro r hr
      rcases List.mem_cons.mp hr with rfl | hr'
      · omega
      · exact ih hs.2 h r hr'
    · rename_i hge
      split at h
      · cases h
      · rename_i hgt
        intro r hr
        rcases List.mem_cons.mp hr with rfl | hr'
        · omega
        · have := hs.1 r hr'; omega

/-! ### bounds on the total -/

theorem sumSizes_le {rs : List Run} (h : rs.Pairwise Gap) (lo hi : Nat)
    (hb : ∀ r ∈ rs, lo ≤ r.start ∧ r.start + r.size ≤ hi) : sumSizes rs + lo ≤ hi ∨ rs = [] := by
  induction rs generalizing lo with
  | nil => simp
  | cons x xs ih =>
    rw [List.pairwise_cons] at h
    left
    have hx := hb x (by simp)
    rcases ih h.2 (x.start + x.size) (fun r hr => by
      have := h.1 r hr
      have := hb r (by simp [hr])
      unfold Gap at *; omega) with h1 | h1
    · simp only [sumSizes, List.map_cons, List.sum_cons] at h1 ⊢; omega
    · subst h1; simp [sumSizes]; omega

end Feox.Fsm
