import Feox.Fsm.Lemmas
/-! Step lemmas: `takeRun`, `insertFree`, `updateFrag` preserve the core invariant. -/
namespace Feox.Fsm

/-- `Inv` without the (derived) fragmentation field -/
structure Core (s : State) : Prop where
  sep   : s.runs.Pairwise Gap
  pos   : ∀ r ∈ s.runs, 0 < r.size ∧ DS ≤ r.start
  bnd   : 0 < s.deviceSize → ∀ r ∈ s.runs, r.start + r.size ≤ s.deviceSize / BS
  total : s.totalFree = sumSizes s.runs * BS

theorem Inv.core {s : State} (h : Inv s) : Core s := ⟨h.sep, h.pos, h.bnd, h.total⟩

@[simp] theorem updateFrag_runs (s : State) : (updateFrag s).runs = s.runs := by
  unfold updateFrag; split <;> (try split) <;> rfl
@[simp] theorem updateFrag_total (s : State) : (updateFrag s).totalFree = s.totalFree := by
  unfold updateFrag; split <;> (try split) <;> rfl
@[simp] theorem updateFrag_dev (s : State) : (updateFrag s).deviceSize = s.deviceSize := by
  unfold updateFrag; split <;> (try split) <;> rfl

theorem fragOf_updateFrag (s : State) : fragOf (updateFrag s) = (updateFrag s).frag := by
  unfold fragOf
  generalize hs' : updateFrag s = s'
  have h1 : s'.runs = s.runs := by rw [← hs']; simp
  have h2 : s'.totalFree = s.totalFree := by rw [← hs']; simp
  rw [← hs']
  unfold updateFrag
  simp only [h1, h2, updateFrag_runs, updateFrag_total]
  split
  · rfl
  · split
    · rfl
    · rfl

theorem inv_updateFrag {s : State} (h : Core s) : Inv (updateFrag s) where
  sep := by simpa using h.sep
  pos := by simpa using h.pos
  bnd := by simpa using h.bnd
  total := by simpa using h.total
  frag := (fragOf_updateFrag s).symm

theorem isValidFree_of {dev : Nat} {r : Run} (h0 : 0 < r.size) (h1 : DS ≤ r.start)
    (h2 : 0 < dev → r.start + r.size ≤ dev / BS) : isValidFree dev r = true := by
  unfold isValidFree
  split
  · omega
  · split
    · rename_i hd
      have := h2 hd
      simp only
      split
      · omega
      · split
        · omega
        · rfl
    · rfl

theorem isValidFree_elim {dev : Nat} {r : Run} (h : isValidFree dev r = true) :
    DS ≤ r.start ∧ (0 < dev → r.start + r.size ≤ dev / BS) := by
  unfold isValidFree at h
  split at h
  · cases h
  · split at h
    · simp only at h
      split at h
      · cases h
      · split at h
        · cases h
        · constructor <;> omega
    · constructor <;> omega

theorem takeRun_core {s : State} {r : Run} (h : Core s) (hr : r ∈ s.runs) :
    Core (takeRun s r) ∧ (∀ x, x ∈ (takeRun s r).runs ↔ x ∈ s.runs ∧ x ≠ r) ∧
      (takeRun s r).deviceSize = s.deviceSize := by
  have hmem : ∀ x, x ∈ (takeRun s r).runs ↔ x ∈ s.runs ∧ x ≠ r := by
    intro x
    simp only [takeRun, mem_removeStart]
    constructor
    · rintro ⟨h1, h2⟩; exact ⟨h1, fun e => h2 (by rw [e])⟩
    · rintro ⟨h1, h2⟩; exact ⟨h1, fun e => h2 (starts_unique h.sep h1 hr e)⟩
  refine ⟨⟨?_, ?_, ?_, ?_⟩, hmem, rfl⟩
  · exact pairwise_removeStart h.sep
  · intro x hx; exact h.pos x ((hmem x).mp hx).1
  · intro hd x hx; exact h.bnd hd x ((hmem x).mp hx).1
  · have := sumSizes_removeStart h.sep hr
    have ht := h.total
    simp only [takeRun]
    rw [ht, ← this, Nat.add_mul]; omega

theorem insertFree_ok {s : State} {r : Run} (h : Core s) (h0 : 0 < r.size) (h1 : DS ≤ r.start)
    (h2 : 0 < s.deviceSize → r.start + r.size ≤ s.deviceSize / BS)
    (hsep : ∀ x ∈ s.runs, Gap x r ∨ Gap r x) :
    ∃ s', insertFree s r = .ok s' ∧ Core s' ∧ (∀ x, x ∈ s'.runs ↔ x = r ∨ x ∈ s.runs) ∧
      s'.deviceSize = s.deviceSize ∧ s'.runs.length = s.runs.length + 1 := by
  have hv := isValidFree_of h0 h1 h2
  have hns : hasStart r.start s.runs = false := by
    cases hh : hasStart r.start s.runs with
    | false => rfl
    | true =>
      obtain ⟨x, hx, hxs⟩ := hasStart_iff.mp hh
      rcases hsep x hx with h3 | h3 <;> unfold Gap at h3 <;> omega
  refine ⟨{ s with totalFree := s.totalFree + r.size * BS, runs := insertRun r s.runs }, ?_, ?_, ?_, rfl, ?_⟩
  · unfold insertFree
    have : (r.size == 0) = false := by simp; omega
    simp [this, hv, hns]
  · refine ⟨pairwise_insertRun h.sep hsep, ?_, ?_, ?_⟩
    · intro x hx
      rcases mem_insertRun.mp hx with rfl | hx'
      · exact ⟨h0, h1⟩
      · exact h.pos x hx'
    · intro hd x hx
      rcases mem_insertRun.mp hx with rfl | hx'
      · exact h2 hd
      · exact h.bnd hd x hx'
    · simp only [sumSizes_insertRun, h.total, Nat.add_mul]; omega
  · intro x; exact mem_insertRun
  · simp [length_insertRun]

/-- every error of `insertFree` leaves the argument state alone (it returns no state) and an
`ok` result has exactly the shape used above -/
theorem insertFree_ok_shape {s s' : State} {r : Run} (h : insertFree s r = .ok s') :
    s' = { s with totalFree := s.totalFree + r.size * BS, runs := insertRun r s.runs } := by
  unfold insertFree at h
  split at h
  · cases h
  · split at h
    · cases h
    · split at h
      · cases h
      · cases h; rfl

end Feox.Fsm
