import Feox.Proto.Disk
/-!
# Proto.Txn — the journal discipline of the device trace, and what it buys at a crash

`Proto.Disk` proves what recovery returns from a disk in which whatever an interrupted
transaction touched lies inside a journalled run.  This file is about the *trace*: the sequence
of device writes and fsyncs the store issues.  The discipline:

* a write into the data area (record extents, retirement markers) is issued only while the
  **durable** journal is active and lists a run that contains the whole write;
* the journal is rewritten (activated or cleared) only when no data-area write is un-synced,
  and never while an earlier journal write is itself un-synced;
* an fsync makes everything issued before it durable.

`step?` accepts exactly the traces that follow it (it is run on every recorded device trace of
the proto engine), and `crash_view` is what the discipline buys: at **every** point of an accepted
trace, for **every** crash image — the un-synced data-area writes lost, reordered or torn in any
way, the un-synced journal write landed or not — the view recovery scans (the disk with the
journal's runs masked) is the view of the last synced disk under the old or the new journal.
No crash image can show recovery anything else.
-/
namespace Feox.Proto.Txn
open Feox.Proto

abbrev Runs := List (Nat × Nat)   -- journalled runs `[s, e)`; `[]` = the journal is clear

def covers (r : Nat × Nat) (b : Nat) : Bool := decide (r.1 ≤ b) && decide (b < r.2)

/-- the view recovery scans: journalled runs replayed as markers counting down to the run's end -/
def view (d : Disk) (j : Runs) : Disk := fun b =>
  match j.find? (fun r => covers r b) with
  | some r => .mark (r.2 - b)
  | none => d b

/-- one un-synced data-area write: blocks `[s, e)` with their contents -/
structure PWrite where
  s : Nat
  e : Nat
  blocks : Nat → Blk

structure St where
  /-- the data area as of the last fsync -/
  disk : Disk
  /-- the journal as of the last fsync -/
  jdur : Runs := []
  /-- a journal write issued since -/
  jpend : Option Runs := none
  /-- data-area writes issued since -/
  pend : List PWrite := []

inductive Ev
  | journal (j : Runs)          -- write of a journal slot: active with these runs, or clear (`[]`)
  | write (w : PWrite)          -- write into the data area
  | other                       -- metadata copies: outside the data area and the journal
  | fsync

/-- every block of `[s, e)` lies in some journalled run (adjacent runs may be covered by one write:
the replay coalesces them) -/
def inRun (j : Runs) (s e : Nat) : Bool := (List.range (e - s)).all fun i => j.any fun r => covers r (s + i)

def applyW (d : Disk) (w : PWrite) : Disk := fun b => if w.s ≤ b ∧ b < w.e then w.blocks b else d b

/-- the acceptor: `none` = the trace breaks the discipline here -/
def step? (st : St) : Ev → Option St
  | .journal j =>
    if st.pend.isEmpty && st.jpend.isNone then some { st with jpend := some j } else none
  | .write w =>
    if st.jpend.isNone && decide (w.s < w.e) && inRun st.jdur w.s w.e then some { st with pend := st.pend ++ [w] } else none
  | .other => some st
  | .fsync => some { st with disk := st.pend.foldl applyW st.disk, jdur := st.jpend.getD st.jdur, jpend := none, pend := [] }

/-- what a crash can leave: outside the un-synced writes the data area is the synced one (inside
them: anything — lost, landed, reordered, torn); the journal is the synced one or the one whose
write was in flight -/
def CrashImage (st : St) (c : Disk) (j : Runs) : Prop :=
  (∀ b, (∀ w ∈ st.pend, ¬ (w.s ≤ b ∧ b < w.e)) → c b = st.disk b) ∧ (j = st.jdur ∨ st.jpend = some j)

/-- un-synced data-area writes lie inside runs of the durable journal, and none is outstanding
while a journal write is in flight -/
structure Inv (st : St) : Prop where
  covered : ∀ w ∈ st.pend, inRun st.jdur w.s w.e = true
  quiet : st.jpend.isSome = true → st.pend = []

theorem inv_init (d : Disk) : Inv { disk := d } := ⟨by simp, by simp⟩

theorem step_inv {st st' : St} {e : Ev} (hi : Inv st) (h : step? st e = some st') : Inv st' := by
  cases e with
  | journal j =>
    simp only [step?] at h
    split at h
    · rename_i hc
      cases h
      simp only [Bool.and_eq_true, List.isEmpty_iff] at hc
      exact ⟨by simp [hc.1], fun _ => hc.1⟩
    · cases h
  | write w =>
    simp only [step?] at h
    split at h
    · rename_i hc
      cases h
      simp only [Bool.and_eq_true, decide_eq_true_eq] at hc
      refine ⟨?_, ?_⟩
      · intro w' hw'
        rcases List.mem_append.mp hw' with h1 | h1
        · exact hi.covered w' h1
        · simp at h1; subst h1; exact hc.2
      · intro hs
        simp only at hs
        rw [Option.isNone_iff_eq_none.mp hc.1.1] at hs
        cases hs
    · cases h
  | other => simp only [step?, Option.some.injEq] at h; subst h; exact hi
  | fsync =>
    simp only [step?, Option.some.injEq] at h
    subst h
    exact ⟨by simp, by simp⟩

theorem run_inv : ∀ (evs : List Ev) (st st' : St), Inv st → evs.foldlM step? st = some st' → Inv st' := by
  intro evs
  induction evs with
  | nil => intro st st' hi h; simp [List.foldlM] at h; subst h; exact hi
  | cons e rest ih =>
    intro st st' hi h
    simp only [List.foldlM, bind, Option.bind] at h
    cases hs : step? st e with
    | none => rw [hs] at h; cases h
    | some st1 => rw [hs] at h; exact ih st1 st' (step_inv hi hs) h

theorem view_congr {c d : Disk} {j : Runs} (h : ∀ b, (∀ r ∈ j, covers r b = false) → c b = d b) : view c j = view d j := by
  funext b
  unfold view
  cases hf : j.find? (fun r => covers r b) with
  | some r => rfl
  | none =>
    simp only
    apply h
    intro r hr
    have := List.find?_eq_none.mp hf r hr
    simpa using this

theorem inRun_covers {j : Runs} {s e b : Nat} (h : inRun j s e = true) (hb : s ≤ b ∧ b < e) : ∃ r ∈ j, covers r b = true := by
  unfold inRun at h
  rw [List.all_eq_true] at h
  have := h (b - s) (by simp; omega)
  rw [List.any_eq_true] at this
  obtain ⟨r, hr, hc⟩ := this
  have hbs : s + (b - s) = b := by omega
  rw [hbs] at hc
  exact ⟨r, hr, hc⟩

/-- **What the discipline buys.**  In every state an accepted trace reaches, every crash image
shows recovery the last synced disk under the old or the new journal — whatever happened to the
un-synced writes. -/
theorem crash_view {st : St} (hi : Inv st) (c : Disk) (j : Runs) (hc : CrashImage st c j) :
    view c j = view st.disk j := by
  obtain ⟨hout, hj⟩ := hc
  by_cases hp : st.pend = []
  · -- nothing un-synced in the data area: the image *is* the synced disk
    apply view_congr
    intro b _
    exact hout b (by rw [hp]; simp)
  · -- un-synced data-area writes: no journal write is in flight, so the journal is the durable
    -- one, and it covers every block a write may have touched
    have hq : st.jpend = none := by
      cases hjp : st.jpend with
      | none => rfl
      | some x => exact absurd (hi.quiet (by simp [hjp])) hp
    have hjd : j = st.jdur := by
      rcases hj with h | h
      · exact h
      · rw [hq] at h; cases h
    subst hjd
    apply view_congr
    intro b hb
    apply hout b
    intro w hw hin
    obtain ⟨r, hr, hcov⟩ := inRun_covers (hi.covered w hw) hin
    rw [hb r hr] at hcov
    cases hcov

/-- along a whole accepted trace -/
theorem crash_view_run (d : Disk) (evs : List Ev) (st : St) (h : evs.foldlM step? { disk := d } = some st)
    (c : Disk) (j : Runs) (hc : CrashImage st c j) : view c j = view st.disk j :=
  crash_view (run_inv evs _ st (inv_init d) h) c j hc

/-- the journal a recovery sees is one the trace wrote and — unless its write was the very last
thing before the crash — made durable; and a cleared journal means the data area is synced -/
theorem clear_journal_means_synced {st : St} (hi : Inv st) (c : Disk) (hc : CrashImage st c [])
    (hclear : st.jdur = []) : c = st.disk := by
  funext b
  apply hc.1 b
  intro w hw hin
  have := hi.covered w hw
  rw [hclear] at this
  obtain ⟨r, hr, _⟩ := inRun_covers this hin
  cases hr

/-! ### non-vacuity: a write transaction and a retirement, step by step -/
example :
    let d : Disk := fun b => if b = 20 then .data 7 0 1 else .zero
    let w : PWrite := ⟨16, 18, fun b => .data 9 (b - 16) 2⟩
    let m : PWrite := ⟨20, 21, fun _ => .mark 1⟩
    (([.journal [(16, 18)], .fsync, .write w, .fsync, .journal [], .fsync,
       .journal [(20, 21)], .fsync, .write m, .fsync, .journal [], .fsync] : List Ev).foldlM step? { disk := d }).isSome = true ∧
    -- a data write without a journal, a journal write over un-synced data, a write outside the run: all rejected
    (([.write w] : List Ev).foldlM step? { disk := d }).isSome = false ∧
    (([.journal [(16, 18)], .fsync, .write w, .journal []] : List Ev).foldlM step? { disk := d }).isSome = false ∧
    (([.journal [(16, 17)], .fsync, .write w] : List Ev).foldlM step? { disk := d }).isSome = false ∧
    (([.journal [(16, 18)], .write w] : List Ev).foldlM step? { disk := d }).isSome = false := by
  refine ⟨by decide, by decide, by decide, by decide, by decide⟩

end Feox.Proto.Txn
