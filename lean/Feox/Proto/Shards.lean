import Feox.Gen.Constants
/-!
# Proto.Shards — which worker owns which shard of the write-behind buffer

`WriteBuffer::new` creates `S = max(cpus/2, 1)` shards; `start_workers` starts
`W = clamp(num_workers, 1, S)` workers; worker `w` flushes shards `w, w+W, w+2W, … < S`
(`(worker_id..shards).step_by(worker_count)`); a full shard `s` wakes worker `s % W`
(`trigger_flush`); every tick the coordinator wakes each worker that owns a non-empty shard, and
worker 0 when retirements are pending.
-/
namespace Feox.Proto.Shards

/-- shards flushed by worker `w` of `W` over `S` shards -/
def shardsOf (W S w : Nat) : List Nat := (List.range S).filter (fun s => s % W == w)

/-- the worker `trigger_flush` wakes for shard `s` -/
def ownerOf (W s : Nat) : Nat := s % W

/-- one coordinator tick: the workers that get a flush request -/
def wakeSet (W S : Nat) (count : Nat → Nat) (retirementsPending : Bool) : List Nat :=
  (List.range W).filter fun w => (shardsOf W S w).any (fun s => count s > 0) || (w == 0 && retirementsPending)

/-- `WriteBuffer::new`: number of shards for a machine with `cpus` visible CPUs -/
def shardCount (cpus : Nat) : Nat := max (cpus / Gen.WRITE_BUFFER_WORKER_RATIO) 1

/-- `FeoxStore` start-up + `start_workers`: `clamp(max(cpus / 2, 1), 1, shards)` -/
def workerCount (cpus : Nat) : Nat := min (max (max (cpus / Gen.WRITE_BUFFER_WORKER_RATIO) 1) 1) (shardCount cpus)

end Feox.Proto.Shards
