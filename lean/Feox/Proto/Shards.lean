import Feox.Gen.Constants
/-!
# Proto.Shards — which worker owns which shard of the write-behind buffer

`WriteBuffer::new` creates `S = max(cpus/2, 1)` shards; `start_workers` starts
`W = clamp(num_workers, 1, S)` workers; worker `w` flushes shards `w, w+W, w+2W, … < S`
(`(worker_id..shards).step_by(worker_count)`); a full shard `s` wakes worker `s % W`
(`trigger_flush`); every tick the coordinator wakes each worker that owns a non-empty shard, and
worker 0 when retirements are pending.
-/
namespace Feox.Proto.Shards

/-- shards flushed by worker `w` of `W` over `S` shards -/
def shardsOf (W S w : Nat) : List Nat := (List.range S).filter (fun s => s % W == w)

/-- the worker `trigger_flush` wakes for shard `s` -/
def ownerOf (W s : Nat) : Nat := s % W

/-- one coordinator tick: the workers that get a flush request -/
def wakeSet (W S : Nat) (count : Nat → Nat) (retirementsPending : Bool) : List Nat :=
  (List.range W).filter fun w => (shardsOf W S w).any (fun s => count s > 0) || (w == 0 && retirementsPending)

/-- `WriteBuffer::new`: number of shards for a machine with `cpus` visible CPUs -/
def shardCount (cpus : Nat) : Nat := max (cpus / Gen.WRITE_BUFFER_WORKER_RATIO) 1

/-- `FeoxStore` start-up + `start_workers`: `clamp(max(cpus / 2, 1), 1, shards)` -/
def workerCount (cpus : Nat) : Nat := min (max (max (cpus / Gen.WRITE_BUFFER_WORKER_RATIO) 1) 1) (shardCount cpus)

end Feox.Proto.Shards

/-! ### wake-up bookkeeping: a dropped `try_send` is harmless

Each worker has a bounded request channel (`bounded(2)`).  The coordinator's tick and
`trigger_flush` use `try_send`: when the channel is full the request is dropped.  A worker that
takes a request off its channel drains *all* its shards.  `marked s` (ghost) = shard `s` was seen
non-empty by a tick (or filled up) and has not been drained since. -/
namespace Feox.Proto.Shards

structure WB where
  W : Nat
  S : Nat
  count : Nat → Nat          -- entries per shard
  pending : Nat → Nat        -- requests in each worker's channel (capacity 2)
  marked : Nat → Bool        -- ghost
  retire : Bool := false     -- retirements pending (worker 0's business)
  retireMarked : Bool := false

inductive WEv
  | enqueue (s : Nat)        -- an API call adds an entry to shard `s`
  | queueRetirement          -- a generation is queued for retirement
  | tick                     -- the periodic coordinator
  | full (s : Nat)           -- `trigger_flush`: shard `s` is full
  | process (w : Nat)        -- worker `w` takes one request and drains its shards (and, worker 0, the retirements)

def trySend (p : Nat → Nat) (w : Nat) : Nat → Nat := fun j => if j = w then min 2 (p j + 1) else p j

def wake (W : Nat) (p : Nat → Nat) (ws : List Nat) : Nat → Nat := ws.foldl trySend p

def wstep (b : WB) : WEv → WB
  | .enqueue s => { b with count := fun j => if j = s then b.count j + 1 else b.count j }
  | .queueRetirement => { b with retire := true }
  | .tick =>
    { b with pending := wake b.W b.pending (wakeSet b.W b.S b.count b.retire)
             marked := fun s => b.marked s || (decide (s < b.S) && decide (b.count s > 0))
             retireMarked := b.retireMarked || b.retire }
  | .full s =>
    { b with pending := trySend b.pending (ownerOf b.W s), marked := fun j => b.marked j || (decide (j < b.S) && j == s) }
  | .process w =>
    if b.pending w = 0 then b
    else { b with pending := fun j => if j = w then b.pending j - 1 else b.pending j
                  count := fun s => if s % b.W = w then 0 else b.count s
                  marked := fun s => if s % b.W = w then false else b.marked s
                  retire := if w = 0 then false else b.retire
                  retireMarked := if w = 0 then false else b.retireMarked }

end Feox.Proto.Shards
