/-!
# Proto.Generations — which retirements recovery may make durable, and in which order

A device holds, in scan order (ascending sector), the valid generations of all keys.  The scan
keeps per key the generation with the greatest timestamp, the later-scanned one on a tie
(`recovery.rs`: an existing entry stays only if `existing.timestamp > timestamp`); with TTL on, a
winner whose expiry has passed is then removed.  Recovery *retires* (overwrites with markers) the
stale generations and the expired winners.  `retire_extents` makes that durable in journal
transactions of at most `ALLOCATION_JOURNAL_MAX_ENTRIES` extents each, in sector order, so a crash
can leave any union of whole transactions applied (an interrupted transaction is completed by the
replay of its intent journal).  What a restarted recovery then sees is `G.filter keep` for the
set of generations not yet retired.

This file answers: for which `keep` does a restarted recovery expose exactly what the
uninterrupted one exposed?
-/
namespace Feox.Proto.Gens

structure Gen where
  key : Nat
  ts : Nat
  /-- 0 = no expiry -/
  expiry : Nat
  sector : Nat
  deriving DecidableEq, Repr

def expired (now : Nat) (g : Gen) : Bool := decide (0 < g.expiry) && decide (g.expiry < now)

/-- the generation the scan keeps out of the generations of ONE key, given in scan order: the
earlier one stays only if strictly newer than the best of everything scanned later -/
def best : List Gen → Option Gen
  | [] => none
  | g :: rest =>
    match best rest with
    | none => some g
    | some b => if b.ts < g.ts then some g else some b

def ofKey (k : Nat) (G : List Gen) : List Gen := G.filter (fun g => g.key == k)

def winner (k : Nat) (G : List Gen) : Option Gen := best (ofKey k G)

/-- what a completed recovery (TTL on, clock at `now`) exposes for key `k` -/
def exposed (now k : Nat) (G : List Gen) : Option Gen :=
  match winner k G with
  | none => none
  | some w => if expired now w then none else some w

/-- `w` is the last of the newest: everything before it is not newer, everything after it is
strictly older -/
def IsBest (w : Gen) (L : List Gen) : Prop :=
  ∃ pre post, L = pre ++ w :: post ∧ (∀ g ∈ pre, g.ts ≤ w.ts) ∧ (∀ g ∈ post, g.ts < w.ts)

theorem best_none {L : List Gen} : best L = none ↔ L = [] := by
  cases L with
  | nil => simp [best]
  | cons g rest =>
    simp only [best]
    constructor
    · intro h; split at h
      · cases h
      · split at h <;> cases h
    · intro h; cases h

theorem best_isBest {L : List Gen} {w : Gen} (h : best L = some w) : IsBest w L := by
  induction L generalizing w with
  | nil => simp [best] at h
  | cons g rest ih =>
    simp only [best] at h
    split at h
    · rename_i hn
      cases h
      have : rest = [] := best_none.mp hn
      subst this
      exact ⟨[], [], rfl, by simp, by simp⟩
    · rename_i b hb
      obtain ⟨pre, post, hL, hpre, hpost⟩ := ih hb
      split at h
      · rename_i hlt
        cases h
        refine ⟨[], rest, rfl, by simp, ?_⟩
        intro x hx
        rw [hL] at hx
        rcases List.mem_append.mp hx with hx | hx
        · exact Nat.lt_of_le_of_lt (hpre x hx) hlt
        · rcases List.mem_cons.mp hx with rfl | hx
          · exact hlt
          · exact Nat.lt_trans (hpost x hx) hlt
      · rename_i hge
        cases h
        refine ⟨g :: pre, post, by rw [hL]; rfl, ?_, hpost⟩
        intro x hx
        rcases List.mem_cons.mp hx with rfl | hx
        · omega
        · exact hpre x hx

theorem isBest_best {L : List Gen} {w : Gen} (h : IsBest w L) : best L = some w := by
  obtain ⟨pre, post, hL, hpre, hpost⟩ := h
  subst hL
  induction pre with
  | nil =>
    simp only [List.nil_append, best]
    split
    · rfl
    · rename_i b hb
      obtain ⟨p2, q2, hq, _, _⟩ := best_isBest hb
      have hbm : b ∈ post := by rw [hq]; simp
      have := hpost b hbm
      rw [if_pos this]
  | cons g pre ih =>
    have ih' := ih (fun x hx => hpre x (List.mem_cons_of_mem _ hx))
    simp only [List.cons_append, best, ih']
    have := hpre g (List.mem_cons_self ..)
    rw [if_neg (by omega)]

/-- dropping any generations other than the best one leaves the best one the best -/
theorem isBest_filter {L : List Gen} {w : Gen} (keep : Gen → Bool) (h : IsBest w L) (hw : keep w = true) :
    IsBest w (L.filter keep) := by
  obtain ⟨pre, post, hL, hpre, hpost⟩ := h
  refine ⟨pre.filter keep, post.filter keep, ?_, ?_, ?_⟩
  · rw [hL, List.filter_append, List.filter_cons, if_pos hw]
  · intro g hg; exact hpre g (List.mem_filter.mp hg).1
  · intro g hg; exact hpost g (List.mem_filter.mp hg).1

theorem ofKey_filter (k : Nat) (keep : Gen → Bool) (G : List Gen) :
    ofKey k (G.filter keep) = (ofKey k G).filter keep := by
  simp only [ofKey, List.filter_filter]
  congr 1
  funext g
  exact Bool.and_comm _ _

theorem winner_mem {k : Nat} {G : List Gen} {w : Gen} (h : winner k G = some w) : w ∈ G ∧ w.key = k := by
  obtain ⟨pre, post, hL, _, _⟩ := best_isBest h
  have : w ∈ ofKey k G := by rw [hL]; simp
  have := List.mem_filter.mp this
  exact ⟨this.1, by simpa using this.2⟩

/-- **Stale generations can go in any order, any subset at a time.**  If every key's winner is
kept, every key has the same winner afterwards -/
theorem winner_filter_of_winners_kept (G : List Gen) (keep : Gen → Bool)
    (hk : ∀ k w, winner k G = some w → keep w = true) (k : Nat) :
    winner k (G.filter keep) = winner k G := by
  unfold winner
  rw [ofKey_filter]
  cases hb : best (ofKey k G) with
  | none =>
    have := best_none.mp hb
    rw [this]; rfl
  | some w =>
    exact isBest_best (isBest_filter keep (best_isBest hb) (hk k w hb))

theorem exposed_filter_of_winners_kept (now : Nat) (G : List Gen) (keep : Gen → Bool)
    (hk : ∀ k w, winner k G = some w → keep w = true) (k : Nat) :
    exposed now k (G.filter keep) = exposed now k G := by
  unfold exposed
  rw [winner_filter_of_winners_kept G keep hk k]

/-- every key has at most one generation left (all stale generations are retired) -/
def Single (G : List Gen) : Prop := ∀ k, (ofKey k G).length ≤ 1

/-- **Once the stale generations are gone, expired winners can go in any order, any subset at
a time.** -/
theorem exposed_filter_of_single (now : Nat) (G : List Gen) (keep : Gen → Bool) (hs : Single G)
    (hk : ∀ g ∈ G, keep g = false → expired now g = true) (k : Nat) :
    exposed now k (G.filter keep) = exposed now k G := by
  unfold exposed winner
  rw [ofKey_filter]
  have h1 := hs k
  match hL : ofKey k G with
  | [] => simp [best]
  | [g] =>
    have hg : g ∈ G := by
      have : g ∈ ofKey k G := by rw [hL]; simp
      exact (List.mem_filter.mp this).1
    cases hkg : keep g with
    | true => simp [List.filter, hkg, best]
    | false =>
      have := hk g hg hkg
      simp [List.filter, hkg, best, this]
  | _ :: _ :: _ => rw [hL] at h1; simp at h1

/-- the generations recovery retires first: everything that is not its key's winner -/
def isWinner (G : List Gen) (g : Gen) : Bool := winner g.key G == some g

def winners (G : List Gen) : List Gen := G.filter (isWinner G)

theorem winner_winners (G : List Gen) (k : Nat) : winner k (winners G) = winner k G :=
  winner_filter_of_winners_kept G (isWinner G) (by
    intro k w h
    have := winner_mem h
    simp [isWinner, this.2, h]) k

/-- the winners, scanned alone, are one generation per key — provided no two valid extents carry
the very same generation (same key, timestamp, expiry *and* sector), which sectors rule out -/
theorem single_winners (G : List Gen) (hnd : G.Nodup) : Single (winners G) := by
  intro k
  have hsub : ∀ g ∈ ofKey k (winners G), winner k G = some g := by
    intro g hg
    have h1 := List.mem_filter.mp hg
    have hkey : g.key = k := by simpa using h1.2
    have h2 := (List.mem_filter.mp h1.1).2
    simp only [isWinner, beq_iff_eq] at h2
    rw [hkey] at h2
    exact h2
  have hnd' : (ofKey k (winners G)).Nodup := (hnd.filter _).filter _
  match hL : ofKey k (winners G) with
  | [] => simp
  | [_] => simp
  | a :: b :: rest =>
    exfalso
    have ha := hsub a (by rw [hL]; simp)
    have hb := hsub b (by rw [hL]; simp)
    rw [ha] at hb
    cases hb
    rw [hL] at hnd'
    simp at hnd'

/-- **Recovery's retirement order is restartable, whatever the chunking.**  Phase 1 retires
stale generations only (`keep1` keeps every winner); after it has completed, phase 2 retires
expired winners only (`keep2` drops expired generations only).  At every crash point of either
phase — any union of completed transactions — a restarted recovery exposes what the
uninterrupted one did. -/
theorem two_phase_restartable (now : Nat) (G : List Gen) (hnd : G.Nodup) (keep1 keep2 : Gen → Bool)
    (h1 : ∀ k w, winner k G = some w → keep1 w = true)
    (h2 : ∀ g ∈ winners G, keep2 g = false → expired now g = true) (k : Nat) :
    exposed now k (G.filter keep1) = exposed now k G ∧
    exposed now k ((winners G).filter keep2) = exposed now k G := by
  refine ⟨exposed_filter_of_winners_kept now G keep1 h1 k, ?_⟩
  rw [exposed_filter_of_single now (winners G) keep2 (single_winners G hnd) h2 k]
  unfold exposed
  rw [winner_winners]

/-- **Why the order matters** (the behaviour before the fix a78e7b4 when the retirements did not
fit one journal transaction, and of any variant that retires expired winners first): an expired
winner retired while an older generation of its key is still valid resurrects the older value -/
theorem expired_first_resurrects :
    let old : Gen := ⟨1, 5, 0, 40⟩
    let new : Gen := ⟨1, 9, 100, 16⟩
    let G := [new, old]
    let keep : Gen → Bool := fun g => g != new     -- the transaction that holds sector 16 only
    exposed 200 1 G = none ∧ exposed 200 1 (G.filter keep) = some old ∧
    (∀ g ∈ G, keep g = false → expired 200 g = true) := by
  decide


/-! ### restarting later: time only ever removes keys -/

theorem expired_mono {now now' : Nat} (h : now ≤ now') (g : Gen) (he : expired now g = true) : expired now' g = true := by
  simp only [expired, Bool.and_eq_true, decide_eq_true_eq] at *
  omega

/-- what a recovery at the later instant `now'` exposes is what the one at `now` exposed, minus
the keys whose winner has expired in between -/
theorem exposed_later {now now' : Nat} (h : now ≤ now') (k : Nat) (G : List Gen) :
    exposed now' k G = (exposed now k G).filter (fun w => !expired now' w) := by
  unfold exposed
  cases hw : winner k G with
  | none => rfl
  | some w =>
    simp only
    cases he : expired now w with
    | true => simp [expired_mono h w he]
    | false =>
      cases he' : expired now' w <;> simp [Option.filter, he']

/-- **Restartable across time.**  A recovery at `now` is interrupted anywhere in phase 1 (stale
generations, any subset) or — phase 1 complete — anywhere in phase 2 (winners expired at `now`,
any subset); the device is recovered again at `now' ≥ now`.  It exposes the first recovery's
contents minus the keys whose winner has expired by `now'`: nothing else disappears and nothing
older comes back. -/
theorem two_phase_restartable_later (now now' : Nat) (hle : now ≤ now') (G : List Gen) (hnd : G.Nodup)
    (keep1 keep2 : Gen → Bool)
    (h1 : ∀ k w, winner k G = some w → keep1 w = true)
    (h2 : ∀ g ∈ winners G, keep2 g = false → expired now g = true) (k : Nat) :
    exposed now' k (G.filter keep1) = (exposed now k G).filter (fun w => !expired now' w) ∧
    exposed now' k ((winners G).filter keep2) = (exposed now k G).filter (fun w => !expired now' w) := by
  have h2' : ∀ g ∈ winners G, keep2 g = false → expired now' g = true :=
    fun g hg hk => expired_mono hle g (h2 g hg hk)
  obtain ⟨a, b⟩ := two_phase_restartable now' G hnd keep1 keep2 h1 h2' k
  rw [a, b]
  exact ⟨exposed_later hle k G, exposed_later hle k G⟩

/-- a scan that drops a record already past its expiry *before* the newest-wins comparison
(seeded change C04-5: "an expired record that displaces nothing is retired straight away") -/
def exposedDropFirst (now k : Nat) (G : List Gen) : Option Gen :=
  best ((ofKey k G).filter (fun g => !expired now g))

/-- … makes the winner depend on the clock: once the newest generation has expired, the older
one — superseded long ago — is exposed -/
theorem drop_expired_before_selection_resurrects :
    let old : Gen := ⟨1, 5, 0, 40⟩
    let new : Gen := ⟨1, 9, 100, 16⟩
    let G := [new, old]
    exposed 50 1 G = some new ∧ exposed 200 1 G = none ∧
    exposedDropFirst 50 1 G = some new ∧ exposedDropFirst 200 1 G = some old := by
  decide

end Feox.Proto.Gens
