/-!
# Proto.Disk — the data area at block granularity: tiling, journal masking, the recovery scan

A data block is a zero block, a complete retirement marker (with its remaining count), block
`i` of the `n`-block extent of a record generation `g`, or junk (torn / arbitrary bytes).
The device lock serialises every write transaction and every `DiskIO::flush` is a whole-file
fsync, so at any instant the un-synced writes belong to one phase of one transaction; the
intent journal lists the extents that phase may touch.  Recovery first *replays* the journal —
every journalled run becomes markers counting down to the end of the run — and then scans.

The central notion is `TiledBy d hi L p`: from `p` to `hi` the disk is a sequence of
free-looking blocks (zero, or a marker whose span is in bounds and contains no record block)
and intact record extents, the latter exactly `L`.  Because the scan jumps over a record by its
verified extent length and over a marker by its span, it never looks *inside* a record extent:
value bytes are never interpreted (`scan_tiled`).
-/
namespace Feox.Proto

abbrev Gen := Nat

inductive Blk
  | zero
  | mark (rem : Nat)
  | data (g : Gen) (i n : Nat)
  | junk
  deriving Repr, DecidableEq, Inhabited

abbrev Disk := Nat → Blk

/-- zero block or marker: what a free block looks like -/
def FLs (d : Disk) (p : Nat) : Prop := d p = .zero ∨ ∃ r, d p = .mark r

/-- a marker's span is non-empty, inside the device, and holds only free-looking blocks -/
def MarkOK (d : Disk) (hi p : Nat) : Prop :=
  ∀ r, d p = .mark r → 0 < r ∧ p + r ≤ hi ∧ ∀ q, p < q → q < p + r → FLs d q

/-- the whole extent of generation `g` is on the disk at `p` -/
def Intact (d : Disk) (p : Nat) (g : Gen) (n : Nat) : Prop := 0 < n ∧ ∀ i, i < n → d (p + i) = .data g i n

/-- a record extent found by the scan: position, generation, length -/
abbrev Rec := Nat × Gen × Nat

inductive TiledBy (d : Disk) (hi : Nat) : List Rec → Nat → Prop
  | done {p} : hi ≤ p → TiledBy d hi [] p
  | free {L p} : p < hi → FLs d p → MarkOK d hi p → TiledBy d hi L (p + 1) → TiledBy d hi L p
  | recd {L p g n} : Intact d p g n → p + n ≤ hi → TiledBy d hi L (p + n) → TiledBy d hi ((p, g, n) :: L) p

/-- **Skip lemma**: a run of free-looking blocks can only be tiled block by block, so the
tiling resumes right after it -/
theorem TiledBy.skip {d : Disk} {hi : Nat} {L : List Rec} {p : Nat} (h : TiledBy d hi L p) :
    ∀ r, p + r ≤ hi → (∀ q, p ≤ q → q < p + r → FLs d q) → TiledBy d hi L (p + r) := by
  intro r
  induction r generalizing p with
  | zero => intro _ _; exact h
  | succ r ih =>
    intro hb hfl
    cases h with
    | done hp => omega
    | free hp _ _ ht =>
      have := ih ht (by omega) (fun q h1 h2 => hfl q (by omega) (by omega))
      have e : p + 1 + r = p + (r + 1) := by omega
      rw [e] at this; exact this
    | recd hint _ _ =>
      have h0 := hint.2 0 hint.1
      have hf := hfl p (Nat.le_refl _) (by omega)
      simp only [Nat.add_zero] at h0
      rcases hf with hz | ⟨r', hm⟩
      · rw [h0] at hz; cases hz
      · rw [h0] at hm; cases hm

def intactB (d : Disk) (p : Nat) (g : Gen) (n : Nat) : Bool :=
  decide (0 < n) && (List.range n).all fun i => d (p + i) == .data g i n

theorem intactB_iff {d : Disk} {p g n} : intactB d p g n = true ↔ Intact d p g n := by
  simp [intactB, Intact]

/-- the recovery scan on the abstract disk (after journal replay).  `none` = recovery would
fail or would interpret bytes that are not a record head (pessimistic: the real scan steps
over unrecognised blocks, the theorem shows it never meets one). -/
def scan (d : Disk) (hi : Nat) : Nat → Nat → Option (List Rec)
  | 0, p => if hi ≤ p then some [] else none
  | fuel + 1, p =>
    if hi ≤ p then some []
    else match d p with
      | .zero => scan d hi fuel (p + 1)
      | .mark r => if r = 0 ∨ p + r > hi then none else scan d hi fuel (p + r)
      | .data g i n =>
        if i ≠ 0 then none
        else if p + n > hi then none
        else if intactB d p g n then (scan d hi fuel (p + n)).map ((p, g, n) :: ·) else none
      | .junk => none

/-- **The scan of a tiled disk succeeds and finds exactly the intact extents of the tiling**
(it never sees a tail block, junk, or bytes embedded in values) -/
theorem scan_tiled {d : Disk} {hi : Nat} {L : List Rec} {p : Nat} (h : TiledBy d hi L p) :
    ∀ fuel, hi - p ≤ fuel → scan d hi fuel p = some L := by
  intro fuel
  induction fuel generalizing p L with
  | zero =>
    intro hf
    cases h with
    | done hp => simp [scan, hp]
    | free hp _ _ _ => omega
    | recd hint hb _ => have := hint.1; omega
  | succ fuel ih =>
    intro hf
    cases h with
    | done hp => simp [scan, hp]
    | free hp hfl hmk ht =>
      have hnot : ¬ hi ≤ p := by omega
      rcases hfl with hz | ⟨r, hm⟩
      · simp only [scan, hnot, ↓reduceIte, hz]
        exact ih ht (by omega)
      · obtain ⟨h0, hb, hspan⟩ := hmk r hm
        have hc : ¬ (r = 0 ∨ p + r > hi) := by omega
        simp only [scan, hnot, ↓reduceIte, hm, hc]
        have hsk := (TiledBy.free hp (Or.inr ⟨r, hm⟩) hmk ht).skip r hb (by
          intro q h1 h2
          by_cases hq : q = p
          · subst hq; exact Or.inr ⟨r, hm⟩
          · exact hspan q (by omega) h2)
        exact ih hsk (by omega)
    | recd hint hb ht =>
      rename_i L' g n
      have hnot : ¬ hi ≤ p := by have := hint.1; omega
      have h0 := hint.2 0 hint.1
      simp only [Nat.add_zero] at h0
      have hi' : intactB d p g n = true := intactB_iff.mpr hint
      have hb' : ¬ p + n > hi := by omega
      simp only [scan, hnot, ↓reduceIte, h0, ne_eq, not_true_eq_false, hb', hi']
      rw [ih ht (by have := hint.1; omega)]
      rfl

/-! ### journal masking -/

/-- replay of one journalled run `[s, e)`: every block becomes the marker counting down to `e` -/
def maskRun (d : Disk) (s e : Nat) : Disk := fun b => if s ≤ b ∧ b < e then .mark (e - b) else d b

/-- the masked view does not depend on what the region holds: whatever a crash leaves inside a
journalled run (lost, reordered or torn writes) is invisible to recovery -/
theorem maskRun_ignores {d d' : Disk} {s e : Nat} (h : ∀ b, ¬ (s ≤ b ∧ b < e) → d b = d' b) :
    maskRun d s e = maskRun d' s e := by
  funext b
  unfold maskRun
  split
  · rfl
  · rename_i hb; exact h b hb

/-- replaying twice is replaying once (restartable recovery) -/
theorem maskRun_idem (d : Disk) (s e : Nat) : maskRun (maskRun d s e) s e = maskRun d s e := by
  funext b
  unfold maskRun
  split <;> rfl

/-- a run of free-looking, span-correct blocks is tiled block by block -/
theorem TiledBy.flRun {d : Disk} {hi : Nat} {L : List Rec} (n : Nat) : ∀ p, p + n ≤ hi →
    (∀ q, p ≤ q → q < p + n → FLs d q ∧ MarkOK d hi q) → TiledBy d hi L (p + n) → TiledBy d hi L p := by
  induction n with
  | zero => intro p _ _ h; exact h
  | succ n ih =>
    intro p hb hq h
    have hp := hq p (Nat.le_refl _) (by omega)
    refine TiledBy.free (by omega) hp.1 hp.2 ?_
    apply ih (p + 1) (by omega) (fun q h1 h2 => hq q (by omega) (by omega))
    have e : p + 1 + n = p + (n + 1) := by omega
    rw [e]; exact h

/-- the records of `L` lie either wholly inside the region or wholly outside it -/
def Aligned (L : List Rec) (s e : Nat) : Prop :=
  ∀ r ∈ L, (s ≤ r.1 ∧ r.1 + r.2.2 ≤ e) ∨ r.1 + r.2.2 ≤ s ∨ e ≤ r.1

def outside (s e : Nat) (r : Rec) : Bool := decide (r.1 + r.2.2 ≤ s ∨ e ≤ r.1)

theorem fls_maskRun {d : Disk} {s e q : Nat} (h : FLs d q ∨ (s ≤ q ∧ q < e)) : FLs (maskRun d s e) q := by
  unfold FLs maskRun
  by_cases hq : s ≤ q ∧ q < e
  · simp only [hq, and_self, ↓reduceIte]; exact Or.inr ⟨_, rfl⟩
  · simp only [hq, ↓reduceIte]
    rcases h with h | h
    · exact h
    · exact absurd h hq

theorem markOK_maskRun {d : Disk} {hi s e q : Nat} (he : e ≤ hi) (h : MarkOK d hi q) :
    MarkOK (maskRun d s e) hi q := by
  intro r hr
  unfold maskRun at hr
  by_cases hq : s ≤ q ∧ q < e
  · simp only [hq, and_self, ↓reduceIte, Blk.mark.injEq] at hr
    subst hr
    refine ⟨by omega, by omega, ?_⟩
    intro q' h1 h2
    exact fls_maskRun (Or.inr ⟨by omega, by omega⟩)
  · simp only [hq, ↓reduceIte] at hr
    obtain ⟨h0, hb, hspan⟩ := h r hr
    exact ⟨h0, hb, fun q' h1 h2 => fls_maskRun (Or.inl (hspan q' h1 h2))⟩

/-- **Masking a region made of whole tiles keeps the disk tiled** and removes exactly the
records inside the region.  This is what a durable intent journal does to recovery's view:
for an allocation the region held free-looking blocks (nothing is removed); for a retirement it
held the retired extents (they disappear from the recoverable set the moment the intent is
durable). -/
theorem TiledBy.mask {d : Disk} {hi : Nat} {L : List Rec} {p : Nat} (h : TiledBy d hi L p)
    (s e : Nat) (he : e ≤ hi) (hal : Aligned L s e) :
    TiledBy (maskRun d s e) hi (L.filter (outside s e)) p := by
  induction h with
  | done hp => exact TiledBy.done hp
  | free hp hfl hmk _ ih =>
    exact TiledBy.free hp (fls_maskRun (Or.inl hfl)) (markOK_maskRun he hmk) (ih hal)
  | recd hint hb _ ih =>
    rename_i L' p' g n _
    have hal' : Aligned L' s e := fun r hr => hal r (List.mem_cons_of_mem _ hr)
    have hrec := hal (p', g, n) List.mem_cons_self
    simp only at hrec
    rcases hrec with ⟨h1, h2⟩ | hout
    · -- wholly inside: its blocks become markers
      have hf : List.filter (outside s e) ((p', g, n) :: L') = List.filter (outside s e) L' := by
        have : outside s e (p', g, n) = false := by
          simp only [outside, decide_eq_false_iff_not]
          have := hint.1; omega
        simp [List.filter_cons, this]
      rw [hf]
      apply TiledBy.flRun n p' hb _ (ih hal')
      intro q hq1 hq2
      have hin : s ≤ q ∧ q < e := ⟨by omega, by omega⟩
      refine ⟨fls_maskRun (Or.inr hin), ?_⟩
      intro r hr
      unfold maskRun at hr
      simp only [hin, and_self, ↓reduceIte, Blk.mark.injEq] at hr
      subst hr
      exact ⟨by omega, by omega, fun q' h1' h2' => fls_maskRun (Or.inr ⟨by omega, by omega⟩)⟩
    · -- wholly outside: untouched
      have hf : List.filter (outside s e) ((p', g, n) :: L') = (p', g, n) :: List.filter (outside s e) L' := by
        have : outside s e (p', g, n) = true := by simp only [outside, decide_eq_true_eq]; exact hout
        simp [List.filter_cons, this]
      rw [hf]
      refine TiledBy.recd ⟨hint.1, ?_⟩ hb (ih hal')
      intro i hi'
      unfold maskRun
      have : ¬ (s ≤ p' + i ∧ p' + i < e) := by omega
      simp only [this, ↓reduceIte]
      exact hint.2 i hi'

/-- **Completing a write transaction**: a region of free-looking blocks is replaced by one
intact record extent (the data is fsynced, the journal cleared).  Provided no marker that
survives outside the region spans into it — which is what allocating a *prefix of a maximal
free run* guarantees (`C06.alloc_prefix_of_run`) — the disk stays tiled and gains exactly that
record. -/
theorem TiledBy.fill {d d' : Disk} {hi : Nat} {L : List Rec} (s n : Nat) (g : Gen)
    (hn : 0 < n) (hb : s + n ≤ hi)
    (hsame : ∀ b, ¬ (s ≤ b ∧ b < s + n) → d' b = d b)
    (hnew : Intact d' s g n)
    (hnospan : ∀ p r, p < s → d p = .mark r → p + r ≤ s) :
    ∀ {p}, p ≤ s → TiledBy d hi L p → (∀ r ∈ L, r.1 + r.2.2 ≤ s ∨ s + n ≤ r.1) →
      (∀ q, s ≤ q → q < s + n → FLs d q) →
      ∃ L', TiledBy d' hi L' p ∧ (∀ r, r ∈ L' ↔ r ∈ L ∨ r = (s, g, n)) := by
  intro p hps h
  induction h with
  | done hp => intro _ _; omega
  | free hp hfl hmk ht ih =>
    rename_i L0 p0
    intro hdis hreg
    by_cases heq : p0 = s
    · -- the region starts here: skip it in the old tiling, place the record in the new one
      subst heq
      have hsk := (TiledBy.free hp hfl hmk ht).skip n hb hreg
      -- beyond the region the two disks agree
      have hrest : ∀ {L1 q}, p0 + n ≤ q → TiledBy d hi L1 q → TiledBy d' hi L1 q := by
        intro L1 q hq ht1
        induction ht1 with
        | done hp1 => exact TiledBy.done hp1
        | free hp1 hfl1 hmk1 _ ih1 =>
          rename_i q1 _
          have e1 : d' q1 = d q1 := hsame q1 (by omega)
          refine TiledBy.free hp1 (by unfold FLs; rw [e1]; exact hfl1) ?_ (ih1 (by omega))
          intro r hr
          rw [e1] at hr
          obtain ⟨a, b, c⟩ := hmk1 r hr
          refine ⟨a, b, fun q' h1 h2 => ?_⟩
          have e2 : d' q' = d q' := hsame q' (by omega)
          unfold FLs; rw [e2]; exact c q' h1 h2
        | recd hint1 hb1 _ ih1 =>
          rename_i q1 g1 n1 _
          refine TiledBy.recd ⟨hint1.1, fun i hi1 => ?_⟩ hb1 (ih1 (by omega))
          rw [hsame (q1 + i) (by omega)]
          exact hint1.2 i hi1
      exact ⟨(p0, g, n) :: L0, TiledBy.recd hnew hb (hrest (Nat.le_refl _) hsk), fun r => by
        simp only [List.mem_cons]; constructor
        · rintro (h | h)
          · right; exact h
          · left; exact h
        · rintro (h | h)
          · right; exact h
          · left; exact h⟩
    · have hlt : p0 < s := by omega
      obtain ⟨L', ht', hmem⟩ := ih (by omega) hdis hreg
      have e1 : d' p0 = d p0 := hsame p0 (by omega)
      refine ⟨L', TiledBy.free hp (by unfold FLs; rw [e1]; exact hfl) ?_ ht', hmem⟩
      intro r hr
      rw [e1] at hr
      obtain ⟨a, b, c⟩ := hmk r hr
      have hsp := hnospan p0 r hlt hr
      refine ⟨a, b, fun q' h1 h2 => ?_⟩
      have e2 : d' q' = d q' := hsame q' (by omega)
      unfold FLs; rw [e2]; exact c q' h1 h2
  | recd hint hb0 ht ih =>
    rename_i L0 p0 g0 n0
    intro hdis hreg
    have hr0 := hdis (p0, g0, n0) List.mem_cons_self
    simp only at hr0
    have hn0 := hint.1
    have hle : p0 + n0 ≤ s := by
      rcases hr0 with h | h
      · exact h
      · -- the record starts at or after the region's end, but the tiling position is ≤ s
        omega
    obtain ⟨L', ht', hmem⟩ := ih hle (fun r hr => hdis r (List.mem_cons_of_mem _ hr)) hreg
    refine ⟨(p0, g0, n0) :: L', TiledBy.recd ⟨hn0, fun i hi0 => ?_⟩ hb0 ht', fun r => ?_⟩
    · rw [hsame (p0 + i) (by omega)]; exact hint.2 i hi0
    · simp only [List.mem_cons, hmem]
      constructor
      · rintro (h | h | h)
        · left; left; exact h
        · left; right; exact h
        · right; exact h
      · rintro ((h | h) | h)
        · left; exact h
        · right; left; exact h
        · right; right; exact h


/-! ### consequences used by the property theorems -/

/-- every record of a tiling is intact, in bounds and at or after the tiling position; the
records are in ascending, non-overlapping order -/
theorem TiledBy.recs {d : Disk} {hi : Nat} {L : List Rec} {p : Nat} (h : TiledBy d hi L p) :
    (∀ r ∈ L, Intact d r.1 r.2.1 r.2.2 ∧ p ≤ r.1 ∧ r.1 + r.2.2 ≤ hi) ∧
    L.Pairwise (fun a b => a.1 + a.2.2 ≤ b.1) := by
  induction h with
  | done _ => simp
  | free _ _ _ _ ih =>
    refine ⟨fun r hr => ?_, ih.2⟩
    obtain ⟨a, b, c⟩ := ih.1 r hr
    exact ⟨a, by omega, c⟩
  | recd hint hb _ ih =>
    rename_i L' p' g n _
    refine ⟨?_, ?_⟩
    · intro r hr
      rcases List.mem_cons.mp hr with rfl | hr'
      · exact ⟨hint, Nat.le_refl _, hb⟩
      · obtain ⟨a, b, c⟩ := ih.1 r hr'
        exact ⟨a, by have := hint.1; omega, c⟩
    · rw [List.pairwise_cons]
      exact ⟨fun r hr => (ih.1 r hr).2.1, ih.2⟩

/-- **Ownership partition**: in a tiled data area every block is either free-looking or belongs
to exactly one record extent of the tiling -/
theorem TiledBy.partition {d : Disk} {hi : Nat} {L : List Rec} {p : Nat} (h : TiledBy d hi L p) :
    ∀ b, p ≤ b → b < hi → (FLs d b ∧ ∀ r ∈ L, ¬ (r.1 ≤ b ∧ b < r.1 + r.2.2)) ∨
      (∃ r ∈ L, r.1 ≤ b ∧ b < r.1 + r.2.2 ∧ ∀ r' ∈ L, (r'.1 ≤ b ∧ b < r'.1 + r'.2.2) → r' = r) := by
  induction h with
  | done hp => intro b h1 h2; omega
  | @free L' p' hp hfl _ ht ih =>
    intro b h1 h2
    by_cases hb : b = p'
    · subst hb
      left
      refine ⟨hfl, fun r hr hin => ?_⟩
      have := (ht.recs.1 r hr).2.1
      omega
    · exact ih b (by omega) h2
  | @recd L' p' g n hint hb ht ih =>
    intro b h1 h2
    have hrecs := ht.recs
    by_cases hin : b < p' + n
    · right
      refine ⟨(p', g, n), List.mem_cons_self, h1, hin, ?_⟩
      intro r' hr' hin'
      rcases List.mem_cons.mp hr' with rfl | hr''
      · rfl
      · have := (hrecs.1 r' hr'').2.1
        omega
    · rcases ih b (by omega) h2 with ⟨hf, hno⟩ | ⟨r, hr, h3, h4, huniq⟩
      · left
        refine ⟨hf, fun r hr hin' => ?_⟩
        rcases List.mem_cons.mp hr with rfl | hr'
        · simp only at hin'; omega
        · exact hno r hr' hin'
      · right
        refine ⟨r, List.mem_cons_of_mem _ hr, h3, h4, fun r' hr' hin' => ?_⟩
        rcases List.mem_cons.mp hr' with rfl | hr''
        · simp only at hin'; omega
        · exact huniq r' hr'' hin'

/-- a region of free-looking blocks contains no block of any record of the tiling -/
theorem TiledBy.aligned_of_fls {d : Disk} {hi : Nat} {L : List Rec} {p : Nat} (h : TiledBy d hi L p)
    (s e : Nat) (hse : s < e) (hreg : ∀ q, s ≤ q → q < e → FLs d q) :
    Aligned L s e ∧ L.filter (outside s e) = L := by
  have hrecs := h.recs.1
  have key : ∀ r ∈ L, r.1 + r.2.2 ≤ s ∨ e ≤ r.1 := by
    intro r hr
    obtain ⟨hint, _, _⟩ := hrecs r hr
    by_cases h1 : r.1 + r.2.2 ≤ s
    · exact Or.inl h1
    · by_cases h2 : e ≤ r.1
      · exact Or.inr h2
      · exfalso
        -- the block max(s, r.1) lies in both
        have hn := hint.1
        by_cases h3 : s ≤ r.1
        · have hf := hreg r.1 h3 (by omega)
          have hd := hint.2 0 hn
          simp only [Nat.add_zero] at hd
          rcases hf with hz | ⟨r', hm⟩
          · rw [hd] at hz; cases hz
          · rw [hd] at hm; cases hm
        · have hf := hreg s (Nat.le_refl _) (by omega)
          have hd := hint.2 (s - r.1) (by omega)
          have e1 : r.1 + (s - r.1) = s := by omega
          rw [e1] at hd
          rcases hf with hz | ⟨r', hm⟩
          · rw [hd] at hz; cases hz
          · rw [hd] at hm; cases hm
  refine ⟨fun r hr => Or.inr (key r hr), ?_⟩
  apply List.filter_eq_self.mpr
  intro r hr
  simp only [outside, decide_eq_true_eq]
  exact key r hr

end Feox.Proto
