import Feox.Proto.Disk
/-!
# Proto.Alloc — why a write batch must overwrite (or journal) its blocks before anybody else
publishes a record further down the same free run

`TiledBy` — the shape of the data area every recovery theorem starts from — requires `MarkOK` of
every marker: the span a marker claims holds only free-looking blocks.  Recovery relies on it:
from a marker it jumps to the end of the claimed span.  Retirement writes spans that are correct
when written (one coalesced run of just-retired extents).  This file is about what *allocation*
must respect so that they stay correct:

* `write_prefix_keeps_markOK`: writing records over a **prefix of a maximal free-looking run**
  (the block before the allocation is not free-looking, or the allocation starts the data area)
  keeps every marker's span free of records — whatever the markers in the run claimed;
* `write_inside_run_breaks_markOK`: writing a record **behind an unwritten block of the same run**
  does not: the stale head in front still claims the record's block, and the scan of that disk
  jumps over the record (`skipped_by_the_scan`).  This is what two interleaved write batches did
  before the fix 2dcc3ae (finding F7), and what an extent handed back unscrubbed makes possible
  (seeded change C09-3).
-/
namespace Feox.Proto.Alloc
open Feox.Proto

/-- every marker in `[lo, hi)` is span-correct -/
def MarkOKAll (d : Disk) (lo hi : Nat) : Prop := ∀ p, lo ≤ p → p < hi → MarkOK d hi p

/-- writing `n` record blocks of generation `g` at `[s, s + n)` -/
def writeRec (d : Disk) (s n : Nat) (g : Gen) : Disk := fun b => if s ≤ b ∧ b < s + n then .data g (b - s) n else d b

theorem writeRec_outside {d : Disk} {s n : Nat} {g : Gen} {b : Nat} (h : ¬ (s ≤ b ∧ b < s + n)) : writeRec d s n g b = d b := by
  simp [writeRec, h]

theorem fls_writeRec_outside {d : Disk} {s n : Nat} {g : Gen} {b : Nat} (h : ¬ (s ≤ b ∧ b < s + n)) (hf : FLs d b) :
    FLs (writeRec d s n g) b := by
  unfold FLs at *
  rw [writeRec_outside h]; exact hf

/-- **Allocation from the front of a run is safe.**  If the block before the allocation is not
free-looking (a record, or junk) or the allocation starts at `lo`, then after the extent has been
written every marker is still span-correct: no marker in front of the extent could have claimed
across that block, the markers inside the extent are gone, the ones behind it never looked back. -/
theorem write_prefix_keeps_markOK {d : Disk} {lo hi s n : Nat} {g : Gen} (hok : MarkOKAll d lo hi)
    (hprefix : s = lo ∨ ¬ FLs d (s - 1)) : MarkOKAll (writeRec d s n g) lo hi := by
  intro p hp1 hp2 r hr
  by_cases hin : s ≤ p ∧ p < s + n
  · -- inside the extent there is no marker any more
    simp [writeRec, hin] at hr
  · rw [writeRec_outside hin] at hr
    obtain ⟨h1, h2, h3⟩ := hok p hp1 hp2 r hr
    refine ⟨h1, h2, ?_⟩
    intro q hq1 hq2
    by_cases hqin : s ≤ q ∧ q < s + n
    · -- the span of a marker outside the extent cannot reach into it
      exfalso
      have hps : p < s := by omega
      rcases hprefix with hs | hs
      · omega
      · apply hs
        by_cases hp' : p = s - 1
        · subst hp'; exact Or.inr ⟨r, hr⟩
        · exact h3 (s - 1) (by omega) (by omega)
    · exact fls_writeRec_outside hqin (h3 q hq1 hq2)

/-- the record just written is intact -/
theorem writeRec_intact (d : Disk) (s n : Nat) (g : Gen) (hn : 0 < n) : Intact (writeRec d s n g) s g n := by
  refine ⟨hn, fun i hi => ?_⟩
  simp [writeRec, hi]

/-- **Allocation behind an unwritten block of the same run is not.**  The free run `[17, 19)`
carries the coalesced markers "2, 1".  One batch has been given block 17 and has not written it;
another one writes its record into block 18. -/
def staleHead : Disk := fun b => if b = 17 then .mark 2 else if b = 18 then .mark 1 else if b = 16 then .data 1 0 1 else .zero

theorem staleHead_ok : MarkOKAll staleHead 16 24 := by
  intro p hp1 hp2 r hr
  unfold staleHead at hr
  by_cases h17 : p = 17
  · subst h17; simp at hr; subst hr
    refine ⟨by decide, by decide, ?_⟩
    intro q hq1 hq2
    have : q = 18 := by omega
    subst this; exact Or.inr ⟨1, by simp [staleHead]⟩
  · by_cases h18 : p = 18
    · subst h18; simp at hr; subst hr
      exact ⟨by decide, by decide, fun q hq1 hq2 => by omega⟩
    · by_cases h16 : p = 16
      · subst h16; simp at hr
      · simp [h17, h18, h16] at hr

theorem write_inside_run_breaks_markOK : ¬ MarkOKAll (writeRec staleHead 18 1 9) 16 24 := by
  intro h
  have := (h 17 (by decide) (by decide) 2 (by simp [writeRec, staleHead])).2.2 18 (by decide) (by decide)
  rcases this with h0 | ⟨r, hr⟩
  · simp [writeRec] at h0
  · simp [writeRec] at hr

/-- … and the scan of that disk returns the old record at 16 only: the record at 18 — intact,
published — is jumped over -/
theorem skipped_by_the_scan :
    scan (writeRec staleHead 18 1 9) 24 8 16 = some [(16, 1, 1)] ∧ Intact (writeRec staleHead 18 1 9) 18 9 1 := by
  refine ⟨by decide, writeRec_intact _ _ _ _ (by decide)⟩

/-- had the first batch written its block first (serial batches), both records are found -/
theorem serial_is_found :
    scan (writeRec (writeRec staleHead 17 1 8) 18 1 9) 24 8 16 = some [(16, 1, 1), (17, 8, 1), (18, 9, 1)] := by
  decide

end Feox.Proto.Alloc
