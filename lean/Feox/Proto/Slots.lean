/-!
# Proto.Slots — why the journal has two slots, and what writing to the wrong one costs

`Proto.Txn.CrashImage` assumes that after a crash the journal recovery decodes is the durable record or
the record whose write was in flight.  That is a property of the *two-slot* scheme: a record is written
into the slot that does **not** hold the newest durable record, so a torn image of it (checksum fails,
the slot is void) leaves the newest durable record in force.  This file states the scheme, proves the
assumption from "every journal write goes to the other slot" (`alternating_crash`), and gives the
counter-witness (`same_slot_torn_goes_back`): a record written over the newest one and torn sends
recovery back to the record before — for a store, the intent of a transaction that completed long ago,
whose extents now hold live records.
-/
namespace Feox.Proto.Slots

/-- a journal record: its generation and what it says (an abstract payload: the runs) -/
structure JRec (α : Type) where
  gen : Nat
  val : α
  deriving DecidableEq, Repr

/-- the two slots as they are on the device; `none` = void (never written, or torn) -/
structure Dev (α : Type) where
  s0 : Option (JRec α)
  s1 : Option (JRec α)
  deriving Repr

/-- `decode`: the valid slot with the greatest generation, the later slot on ties -/
def newest {α : Type} (d : Dev α) : Option (JRec α) :=
  match d.s0, d.s1 with
  | some a, some b => if b.gen ≥ a.gen then some b else some a
  | some a, none => some a
  | none, some b => some b
  | none, none => none

def slotOfNewest {α : Type} (d : Dev α) : Option Nat :=
  match d.s0, d.s1 with
  | some a, some b => if b.gen ≥ a.gen then some 1 else some 0
  | some _, none => some 0
  | none, some _ => some 1
  | none, none => none

def put {α : Type} (d : Dev α) (slot : Nat) (r : Option (JRec α)) : Dev α :=
  if slot = 0 then { d with s0 := r } else { d with s1 := r }

/-- what a crash during the write of `r` into `slot` can leave: the write landed, did not start, or
is torn (the slot is void) -/
inductive Crash {α : Type} (d : Dev α) (slot : Nat) (r : JRec α) : Dev α → Prop
  | landed : Crash d slot r (put d slot (some r))
  | lost : Crash d slot r d
  | torn : Crash d slot r (put d slot none)

/-- **Alternation makes a torn journal write harmless**: if the new record (a greater generation) goes
into the slot that does not hold the newest record, every crash image decodes to the old newest record
or to the new one. -/
theorem alternating_crash {α : Type} (d d' : Dev α) (slot : Nat) (r old : JRec α)
    (hold : newest d = some old) (hgen : old.gen < r.gen) (hslot : slotOfNewest d ≠ some slot) (hs : slot = 0 ∨ slot = 1)
    (hc : Crash d slot r d') : newest d' = some old ∨ newest d' = some r := by
  cases hc with
  | lost => exact Or.inl hold
  | landed =>
    right
    rcases hs with rfl | rfl
    · unfold put newest at *
      simp only [↓reduceIte]
      cases h0 : d.s0 <;> cases h1 : d.s1 <;> simp_all [slotOfNewest]
      all_goals (try omega)
      all_goals (split at hold <;> simp_all <;> omega)
    · unfold put newest at *
      simp only [Nat.succ_ne_zero, ↓reduceIte]
      cases h0 : d.s0 <;> cases h1 : d.s1 <;> simp_all [slotOfNewest]
      all_goals (try omega)
      all_goals (split at hold <;> simp_all <;> omega)
  | torn =>
    left
    rcases hs with rfl | rfl
    · unfold put newest at *
      simp only [↓reduceIte]
      cases h0 : d.s0 <;> cases h1 : d.s1 <;> simp_all [slotOfNewest]
      all_goals (split at hold <;> simp_all <;> (try omega))
    · unfold put newest at *
      simp only [Nat.succ_ne_zero, ↓reduceIte]
      cases h0 : d.s0 <;> cases h1 : d.s1 <;> simp_all [slotOfNewest]
      all_goals (split at hold <;> simp_all <;> (try omega))

/-- **Writing over the newest record and tearing it goes back in time**: the decoded journal is the
record *before* the newest one. -/
theorem same_slot_torn_goes_back :
    let d : Dev String := { s0 := some ⟨7, "ACTIVE: extents of the last write batch"⟩, s1 := some ⟨8, "CLEAR"⟩ }
    newest d = some ⟨8, "CLEAR"⟩ ∧ slotOfNewest d = some 1 ∧
    newest (put d 1 none) = some ⟨7, "ACTIVE: extents of the last write batch"⟩ := by
  decide

end Feox.Proto.Slots
