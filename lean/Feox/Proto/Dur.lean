/-!
# Proto.Dur — durability bookkeeping of one key

The history of a key is the sequence of states the API accepted for it (index order =
timestamp order, last-writer-wins).  What a crash recovery returns is the newest state whose
generation is *durable* (its extent intact on the device and not covered by an active journal),
or "absent" when none is.  This file models the four events that move that set and proves the
invariant behind C02 / C09: what recovery returns is never older than the last acknowledged
state.

Events and where they come from in the code:
* `accept`   — an API call published a new state in the index (and queued it);
* `skip`     — a queued generation was superseded before it was written
               (`process_write_batch` drops entries with `refcount = 0` and no reservation);
* `durable`  — the write transaction of a queued generation completed: intent journal, data,
               fsync, journal clear, fsync (`process_write_batch` → publish);
* `retire`   — the retirement transaction of a durable generation committed (its intent journal
               is durable: from here on replay turns the extent into markers).  Enabled only by
               `successor_is_durable_or_deleted`;
* `ack`      — `flush()` returned `Ok` / the store was dropped cleanly: enabled only when nothing
               is queued and every superseded generation has been retired (`force_flush` loops
               until no shard and no retirement is pending).
-/
namespace Feox.Proto.Dur

/-- a state of the key: `none` = absent (deleted / never written), `some v` = value `v` -/
abbrev St := Option Nat

structure Key where
  hist : List St := [none]       -- accepted states, oldest first; index 0 = initially absent
  dur : List Nat := []           -- indices of durable generations
  pending : List Nat := []       -- indices accepted but not yet durable / skipped
  lastAck : Nat := 0             -- index of the state at the last acknowledgement
  deriving Repr, DecidableEq

inductive Ev
  | accept (s : St)
  | skip (i : Nat)
  | durable (i : Nat)
  | retire (i : Nat)
  | ack
  deriving Repr, DecidableEq

def latest (k : Key) : Nat := k.hist.length - 1

def isValue (k : Key) (i : Nat) : Bool := (k.hist.getD i none).isSome

/-- `successor_is_durable_or_deleted`: some later state is durable, or a later state is a delete -/
def successorSafe (k : Key) (i : Nat) : Bool :=
  k.dur.any (fun j => i < j) || (List.range k.hist.length).any (fun j => i < j && !isValue k j)

/-- the enabling conditions, as an executable acceptor (used to validate real traces) -/
def step? (k : Key) : Ev → Option Key
  | .accept s =>
    let i := k.hist.length
    some { k with hist := k.hist ++ [s], pending := if s.isSome then k.pending ++ [i] else k.pending }
  | .skip i =>
    -- only a superseded generation can be dropped unwritten
    if k.pending.contains i && i < latest k then some { k with pending := k.pending.filter (· != i) } else none
  | .durable i =>
    if k.pending.contains i && isValue k i then
      some { k with pending := k.pending.filter (· != i), dur := i :: k.dur }
    else none
  | .retire i =>
    if k.dur.contains i && successorSafe k i then some { k with dur := k.dur.filter (· != i) } else none
  | .ack =>
    -- nothing queued; the only durable generation is the latest state (if it is a value)
    if k.pending.isEmpty && k.dur.all (fun j => j == latest k) && (isValue k (latest k) → k.dur.contains (latest k)) then
      some { k with lastAck := latest k }
    else none

/-- what a crash recovery returns: the newest durable state, else absent -/
def recovered (k : Key) : Nat → Prop := fun j =>
  (j ∈ k.dur ∧ ∀ i ∈ k.dur, i ≤ j) ∨ (k.dur = [] ∧ j < k.hist.length ∧ isValue k j = false ∧ k.lastAck ≤ j)

/-- **Invariant**: every durable or queued generation is a value state of the history; every
durable one is at or after the last acknowledgement; everything queued was accepted after it;
and if nothing is durable then some state at or after the last acknowledgement is "absent". -/
structure Inv (k : Key) : Prop where
  nonempty : 0 < k.hist.length
  ackIn : k.lastAck < k.hist.length
  durIn : ∀ i ∈ k.dur, i < k.hist.length ∧ isValue k i = true ∧ k.lastAck ≤ i
  pendIn : ∀ i ∈ k.pending, i < k.hist.length ∧ k.lastAck < i
  absentOk : k.dur = [] → ∃ j, k.lastAck ≤ j ∧ j < k.hist.length ∧ isValue k j = false

theorem inv_init : Inv {} := by
  refine ⟨by decide, by decide, by simp, by simp, fun _ => ⟨0, by decide, by decide, by decide⟩⟩

theorem isValue_append_lt {k k' : Key} {s : St} {i : Nat} (hk : k'.hist = k.hist ++ [s]) (h : i < k.hist.length) :
    isValue k' i = isValue k i := by
  simp [isValue, hk, List.getD, List.getElem?_append_left h]

theorem step_inv {k k' : Key} {e : Ev} (hi : Inv k) (h : step? k e = some k') : Inv k' := by
  cases e with
  | accept s =>
    simp only [step?, Option.some.injEq] at h
    subst h
    refine ⟨by simp, by simp; have := hi.ackIn; omega, ?_, ?_, ?_⟩
    · intro i hi'
      obtain ⟨h1, h2, h3⟩ := hi.durIn i hi'
      exact ⟨by simp; omega, by rw [isValue_append_lt rfl h1]; exact h2, h3⟩
    · intro i hi'
      simp only at hi'
      split at hi'
      · rcases List.mem_append.mp hi' with h1 | h1
        · obtain ⟨h2, h3⟩ := hi.pendIn i h1
          exact ⟨by simp; omega, h3⟩
        · simp at h1; subst h1
          exact ⟨by simp, hi.ackIn⟩
      · obtain ⟨h2, h3⟩ := hi.pendIn i hi'
        exact ⟨by simp; omega, h3⟩
    · intro hd
      obtain ⟨j, h1, h2, h3⟩ := hi.absentOk hd
      exact ⟨j, h1, by simp; omega, by rw [isValue_append_lt rfl h2]; exact h3⟩
  | skip i =>
    simp only [step?] at h
    split at h
    · cases h
      refine ⟨hi.nonempty, hi.ackIn, hi.durIn, ?_, hi.absentOk⟩
      intro j hj
      exact hi.pendIn j (List.mem_filter.mp hj).1
    · cases h
  | durable i =>
    simp only [step?] at h
    split at h
    · rename_i hc
      cases h
      simp only [Bool.and_eq_true, List.contains_iff_mem] at hc
      obtain ⟨hp1, hp2⟩ := hi.pendIn i (by simpa using hc.1)
      refine ⟨hi.nonempty, hi.ackIn, ?_, ?_, by simp⟩
      · intro j hj
        rcases List.mem_cons.mp hj with rfl | hj'
        · exact ⟨hp1, hc.2, by show k.lastAck ≤ j; omega⟩
        · exact hi.durIn j hj'
      · intro j hj
        exact hi.pendIn j (List.mem_filter.mp hj).1
    · cases h
  | retire i =>
    simp only [step?] at h
    split at h
    · rename_i hc
      cases h
      simp only [Bool.and_eq_true] at hc
      have him : i ∈ k.dur := by simpa using hc.1
      obtain ⟨hi1, hi2, hi3⟩ := hi.durIn i him
      refine ⟨hi.nonempty, hi.ackIn, ?_, hi.pendIn, ?_⟩
      · intro j hj
        exact hi.durIn j (List.mem_filter.mp hj).1
      · intro hempty
        -- the retired generation had a durable successor (impossible: nothing durable is left)
        -- or a later delete: that delete is the witness
        have hs := hc.2
        unfold successorSafe at hs
        simp only [Bool.or_eq_true, List.any_eq_true, decide_eq_true_eq, List.mem_range, Bool.and_eq_true,
          Bool.not_eq_true'] at hs
        rcases hs with ⟨j, hj, hlt⟩ | ⟨j, hj, hlt, hdel⟩
        · exfalso
          have : j ∈ k.dur.filter (· != i) := List.mem_filter.mpr ⟨hj, by simp; omega⟩
          have hempty' : k.dur.filter (· != i) = [] := hempty
          rw [hempty'] at this; simp at this
        · exact ⟨j, by show k.lastAck ≤ j; omega, hj, hdel⟩
    · cases h
  | ack =>
    simp only [step?] at h
    split at h
    · rename_i hc
      cases h
      simp only [Bool.and_eq_true, List.isEmpty_iff, List.all_eq_true, beq_iff_eq, decide_eq_true_eq] at hc
      obtain ⟨⟨hp, hd⟩, hv⟩ := hc
      have hne := hi.nonempty
      refine ⟨hne, by simp [latest]; omega, ?_, by simp [hp], ?_⟩
      · intro j hj
        have := hd j hj
        obtain ⟨h1, h2, _⟩ := hi.durIn j hj
        exact ⟨h1, h2, by simp only; omega⟩
      · intro hempty
        refine ⟨latest k, Nat.le_refl _, by simp [latest]; omega, ?_⟩
        cases hval : isValue k (latest k) with
        | false => exact hval
        | true =>
          have := hv hval
          rw [hempty] at this; simp at this
    · cases h

/-- the invariant holds along every accepted trace -/
theorem run_inv (evs : List Ev) : ∀ (k k' : Key), Inv k → evs.foldlM step? k = some k' → Inv k' := by
  induction evs with
  | nil => intro k k' hi h; simp at h; subst h; exact hi
  | cons e es ih =>
    intro k k' hi h
    simp only [List.foldlM_cons, Option.bind_eq_bind] at h
    cases hs : step? k e with
    | none => simp [hs] at h
    | some k1 => rw [hs] at h; exact ih k1 k' (step_inv hi hs) h

/-- **What recovery returns is never older than the last acknowledgement** (and is a state of
the key's own history): the newest durable generation has index ≥ `lastAck`; if none is durable,
"absent" is a state the key had at or after `lastAck`. -/
theorem recovered_not_older {k : Key} (hi : Inv k) :
    (∀ j, j ∈ k.dur → k.lastAck ≤ j ∧ j < k.hist.length) ∧
    (k.dur = [] → ∃ j, k.lastAck ≤ j ∧ j < k.hist.length ∧ isValue k j = false) :=
  ⟨fun j hj => ⟨(hi.durIn j hj).2.2, (hi.durIn j hj).1⟩, hi.absentOk⟩

/-- an acknowledgement is possible only when everything accepted before it is durable (or was a
delete / superseded) and every older generation has been retired -/
theorem ack_enabled_only_when_drained {k k' : Key} (h : step? k .ack = some k') :
    k.pending = [] ∧ (∀ j ∈ k.dur, j = latest k) ∧ (isValue k (latest k) = true → latest k ∈ k.dur) := by
  simp only [step?] at h
  split at h
  · rename_i hc
    simp only [Bool.and_eq_true, List.isEmpty_iff, List.all_eq_true, beq_iff_eq, decide_eq_true_eq] at hc
    exact ⟨hc.1.1, hc.1.2, fun hv => by simpa using hc.2 hv⟩
  · cases h

/-- a generation can be retired only if a later state is durable or a later state is a delete:
the last durable generation of a key is never destroyed while its successors are only queued -/
theorem retire_needs_safe_successor {k k' : Key} {i : Nat} (h : step? k (.retire i) = some k') :
    i ∈ k.dur ∧ ((∃ j ∈ k.dur, i < j) ∨ ∃ j, j < k.hist.length ∧ i < j ∧ isValue k j = false) := by
  simp only [step?] at h
  split at h
  · rename_i hc
    simp only [Bool.and_eq_true] at hc
    refine ⟨by simpa using hc.1, ?_⟩
    have hs := hc.2
    unfold successorSafe at hs
    simp only [Bool.or_eq_true, List.any_eq_true, decide_eq_true_eq, List.mem_range, Bool.and_eq_true,
      Bool.not_eq_true'] at hs
    rcases hs with ⟨j, hj, hlt⟩ | ⟨j, hj, hlt, hdel⟩
    · exact Or.inl ⟨j, hj, hlt⟩
    · exact Or.inr ⟨j, hj, hlt, hdel⟩
  · cases h

/-! ### non-vacuity: a concrete accepted trace -/

example : ([.accept (some 1), .durable 1, .ack, .accept (some 2), .accept none, .skip 2, .retire 1, .ack] : List Ev).foldlM
    step? {} = some { hist := [none, some 1, some 2, none], dur := [], pending := [], lastAck := 3 } := by decide

-- retiring the acknowledged generation while its successor is only queued is rejected
example : ([.accept (some 1), .durable 1, .ack, .accept (some 2), .retire 1] : List Ev).foldlM step? {} = none := by decide

end Feox.Proto.Dur
