import Feox.Proto.Dur
/-!
# Proto.DurLive — the durability automaton has no dead ends

C09's last clause: "once the device works again a flush succeeds and makes the current state
durable".  At the level of the per-key automaton: from **every** reachable state there is a
finite sequence of worker events — no new API call needed — after which `ack` is enabled and
acknowledges the latest state: skip the superseded queued generations, make the latest one
durable, retire the stale durable ones, acknowledge.  No state reachable by any sequence of
accepted events (with or without failures in between: a failure is the absence of an event) is
stuck.
-/
namespace Feox.Proto.Dur

structure Inv2 (k : Key) : Prop where
  base : Inv k
  pendNodup : k.pending.Nodup
  durNodup : k.dur.Nodup
  pendVal : ∀ i ∈ k.pending, isValue k i = true
  disjoint : ∀ i ∈ k.pending, i ∉ k.dur
  latestTracked : isValue k (latest k) = true → latest k ∈ k.pending ∨ latest k ∈ k.dur

theorem inv2_init : Inv2 {} := by
  refine ⟨inv_init, by simp, by simp, by simp, by simp, ?_⟩
  intro h; revert h; decide

theorem isValue_of_hist {k k' : Key} (h : k'.hist = k.hist) (i : Nat) : isValue k' i = isValue k i := by
  simp [isValue, h]

theorem latest_of_hist {k k' : Key} (h : k'.hist = k.hist) : latest k' = latest k := by
  simp [latest, h]

theorem step_inv2 {k k' : Key} {e : Ev} (hi : Inv2 k) (h : step? k e = some k') : Inv2 k' := by
  have hb := step_inv hi.base h
  cases e with
  | accept s =>
    simp only [step?, Option.some.injEq] at h
    subst h
    have hfresh_p : k.hist.length ∉ k.pending := fun hm => by have := (hi.base.pendIn _ hm).1; omega
    have hfresh_d : k.hist.length ∉ k.dur := fun hm => by have := (hi.base.durIn _ hm).1; omega
    refine ⟨hb, ?_, hi.durNodup, ?_, ?_, ?_⟩
    · simp only
      split
      · exact List.nodup_append.mpr ⟨hi.pendNodup, by simp, by intro a ha b hb'; simp at hb'; subst hb'; intro e; subst e; exact hfresh_p ha⟩
      · exact hi.pendNodup
    · intro i hm
      simp only at hm
      split at hm
      · rename_i hs
        rcases List.mem_append.mp hm with h1 | h1
        · rw [isValue_append_lt rfl (hi.base.pendIn i h1).1]; exact hi.pendVal i h1
        · simp at h1; subst h1
          simp [isValue, List.getD, hs]
      · rw [isValue_append_lt rfl (hi.base.pendIn i hm).1]; exact hi.pendVal i hm
    · intro i hm
      simp only at hm ⊢
      split at hm
      · rcases List.mem_append.mp hm with h1 | h1
        · exact hi.disjoint i h1
        · simp at h1; subst h1; exact hfresh_d
      · exact hi.disjoint i hm
    · intro hv
      left
      have hl : latest { k with hist := k.hist ++ [s], pending := if s.isSome then k.pending ++ [k.hist.length] else k.pending } = k.hist.length := by
        simp [latest]
      rw [hl] at hv ⊢
      have hs : s.isSome = true := by
        simpa [isValue, List.getD] using hv
      simp [hs]
  | skip i =>
    simp only [step?] at h
    split at h
    · rename_i hc
      cases h
      simp only [Bool.and_eq_true, decide_eq_true_eq] at hc
      refine ⟨hb, hi.pendNodup.filter _, hi.durNodup, ?_, ?_, ?_⟩
      · intro j hj; exact hi.pendVal j (List.mem_filter.mp hj).1
      · intro j hj; exact hi.disjoint j (List.mem_filter.mp hj).1
      · intro hv
        show latest k ∈ _ ∨ latest k ∈ _
        rcases hi.latestTracked hv with h1 | h1
        · left
          refine List.mem_filter.mpr ⟨h1, ?_⟩
          have : latest k ≠ i := by have := hc.2; omega
          simpa using this
        · right; exact h1
    · cases h
  | durable i =>
    simp only [step?] at h
    split at h
    · rename_i hc
      cases h
      simp only [Bool.and_eq_true, List.contains_iff_mem] at hc
      have hip : i ∈ k.pending := by simpa using hc.1
      refine ⟨hb, hi.pendNodup.filter _, List.nodup_cons.mpr ⟨hi.disjoint i hip, hi.durNodup⟩, ?_, ?_, ?_⟩
      · intro j hj; exact hi.pendVal j (List.mem_filter.mp hj).1
      · intro j hj
        obtain ⟨h1, h2⟩ := List.mem_filter.mp hj
        have hne : j ≠ i := by simpa using h2
        intro hm
        rcases List.mem_cons.mp hm with rfl | hm'
        · exact hne rfl
        · exact hi.disjoint j h1 hm'
      · intro hv
        show latest k ∈ _ ∨ latest k ∈ _
        rcases hi.latestTracked hv with h1 | h1
        · by_cases he : latest k = i
          · right; show latest k ∈ i :: k.dur; rw [he]; exact List.mem_cons_self ..
          · left; exact List.mem_filter.mpr ⟨h1, by simpa using he⟩
        · right; exact List.mem_cons_of_mem _ h1
    · cases h
  | retire i =>
    have hsafe := retire_needs_safe_successor h
    simp only [step?] at h
    split at h
    · cases h
      refine ⟨hb, hi.pendNodup, hi.durNodup.filter _, hi.pendVal, ?_, ?_⟩
      · intro j hj hm; exact hi.disjoint j hj (List.mem_filter.mp hm).1
      · intro hv
        show latest k ∈ _ ∨ latest k ∈ _
        rcases hi.latestTracked hv with h1 | h1
        · left; exact h1
        · right
          refine List.mem_filter.mpr ⟨h1, ?_⟩
          have hlt : i < latest k := by
            rcases hsafe.2 with ⟨j, hj, hij⟩ | ⟨j, hj, hij, _⟩
            · have := (hi.base.durIn j hj).1; simp [latest]; omega
            · simp [latest]; omega
          have : latest k ≠ i := by omega
          simpa using this
    · cases h
  | ack =>
    simp only [step?] at h
    split at h
    · cases h
      exact ⟨hb, hi.pendNodup, hi.durNodup, hi.pendVal, hi.disjoint, hi.latestTracked⟩
    · cases h

theorem run_inv2 (evs : List Ev) : ∀ (k k' : Key), Inv2 k → evs.foldlM step? k = some k' → Inv2 k' := by
  induction evs with
  | nil => intro k k' hi h; simp at h; subst h; exact hi
  | cons e es ih =>
    intro k k' hi h
    simp only [List.foldlM_cons, Option.bind_eq_bind] at h
    cases hs : step? k e with
    | none => simp [hs] at h
    | some k1 => rw [hs] at h; exact ih k1 k' (step_inv2 hi hs) h

/-- what the worker does with a queued generation: a superseded one is dropped, the latest one written -/
def drainEv (k : Key) (i : Nat) : Ev := if i < latest k then .skip i else .durable i

theorem drainEv_congr {k k' : Key} (h : k'.hist = k.hist) : drainEv k' = drainEv k := by
  funext i; simp [drainEv, latest_of_hist h]

theorem filter_ne_head {p : Nat} {ps : List Nat} (h : (p :: ps).Nodup) : (p :: ps).filter (· != p) = ps := by
  have hp : p ∉ ps := (List.nodup_cons.mp h).1
  simp only [List.filter_cons, bne_self_eq_false, Bool.false_eq_true, if_false]
  apply List.filter_eq_self.mpr
  intro a ha
  have : a ≠ p := fun e => hp (e ▸ ha)
  simpa using this

/-- phase A: every queued generation is skipped or written; nothing stays queued -/
theorem drain_pending : ∀ (ps : List Nat) (k : Key), Inv2 k → k.pending = ps →
    ∃ k', (ps.map (drainEv k)).foldlM step? k = some k' ∧ k'.pending = [] ∧ k'.hist = k.hist ∧ Inv2 k' := by
  intro ps
  induction ps with
  | nil => intro k hi hp; exact ⟨k, by simp, hp, rfl, hi⟩
  | cons p ps ih =>
    intro k hi hp
    have hpm : p ∈ k.pending := by rw [hp]; exact List.mem_cons_self ..
    have hnd : (p :: ps).Nodup := hp ▸ hi.pendNodup
    have hstep : ∃ k1, step? k (drainEv k p) = some k1 ∧ k1.pending = ps ∧ k1.hist = k.hist := by
      unfold drainEv
      by_cases hlt : p < latest k
      · rw [if_pos hlt]
        refine ⟨{ k with pending := k.pending.filter (· != p) }, ?_, ?_, rfl⟩
        · simp [step?, hpm, hlt]
        · show k.pending.filter (· != p) = ps
          rw [hp]; exact filter_ne_head hnd
      · rw [if_neg hlt]
        refine ⟨{ k with pending := k.pending.filter (· != p), dur := p :: k.dur }, ?_, ?_, rfl⟩
        · simp [step?, hpm, hi.pendVal p hpm]
        · show k.pending.filter (· != p) = ps
          rw [hp]; exact filter_ne_head hnd
    obtain ⟨k1, hs, hp1, hh1⟩ := hstep
    obtain ⟨k', hrun, hpe, hh, hi'⟩ := ih k1 (step_inv2 hi hs) hp1
    refine ⟨k', ?_, hpe, by rw [hh, hh1], hi'⟩
    simp only [List.map_cons, List.foldlM_cons, Option.bind_eq_bind, hs, Option.bind_some]
    rw [← drainEv_congr hh1]; exact hrun

/-- phase B: every durable generation other than the latest state's is retired -/
theorem retire_stale : ∀ (js : List Nat) (k : Key), Inv2 k → k.pending = [] → k.dur.filter (· != latest k) = js →
    ∃ k', (js.map Ev.retire).foldlM step? k = some k' ∧ k'.pending = [] ∧ (∀ j ∈ k'.dur, j = latest k) ∧
      k'.hist = k.hist ∧ k'.lastAck = k.lastAck ∧ Inv2 k' := by
  intro js
  induction js with
  | nil =>
    intro k hi hp hf
    refine ⟨k, by simp, hp, ?_, rfl, rfl, hi⟩
    intro j hj
    by_cases he : j = latest k
    · exact he
    · have : j ∈ k.dur.filter (· != latest k) := List.mem_filter.mpr ⟨hj, by simpa using he⟩
      rw [hf] at this; cases this
  | cons j js ih =>
    intro k hi hp hf
    have hjm : j ∈ k.dur.filter (· != latest k) := by rw [hf]; exact List.mem_cons_self ..
    obtain ⟨hjd, hjne⟩ := List.mem_filter.mp hjm
    have hjne' : j ≠ latest k := by simpa using hjne
    have hjlt : j < latest k := by
      have := (hi.base.durIn j hjd).1
      simp only [latest] at hjne' ⊢; omega
    have hsafe : successorSafe k j = true := by
      unfold successorSafe
      cases hv : isValue k (latest k) with
      | true =>
        have hl : latest k ∈ k.dur := by
          rcases hi.latestTracked hv with h1 | h1
          · rw [hp] at h1; cases h1
          · exact h1
        simp only [Bool.or_eq_true, List.any_eq_true, decide_eq_true_eq]
        exact Or.inl ⟨latest k, hl, hjlt⟩
      | false =>
        simp only [Bool.or_eq_true, List.any_eq_true, decide_eq_true_eq, List.mem_range, Bool.and_eq_true, Bool.not_eq_true']
        refine Or.inr ⟨latest k, ?_, hjlt, hv⟩
        have := hi.base.nonempty
        simp only [latest]; omega
    have hs : step? k (.retire j) = some { k with dur := k.dur.filter (· != j) } := by
      simp [step?, hjd, hsafe]
    have hnd : (j :: js).Nodup := hf ▸ hi.durNodup.filter _
    have hf1 : (k.dur.filter (· != j)).filter (· != latest k) = js := by
      rw [List.filter_filter]
      have : (k.dur.filter (fun a => (a != latest k) && (a != j))) = (k.dur.filter (· != latest k)).filter (· != j) := by
        rw [List.filter_filter]; congr 1; funext a; exact Bool.and_comm _ _
      rw [this, hf]; exact filter_ne_head hnd
    obtain ⟨k', hrun, hpe, hall, hh, hl, hi'⟩ := ih _ (step_inv2 hi hs) hp hf1
    refine ⟨k', ?_, hpe, hall, hh, hl, hi'⟩
    simp only [List.map_cons, List.foldlM_cons, Option.bind_eq_bind, hs, Option.bind_some]
    exact hrun

/-- **No dead ends.**  From every reachable state of a key, worker events alone (no further API
call) lead to a state in which `flush()` acknowledges the latest accepted state -/
theorem flush_can_complete (k : Key) (hi : Inv2 k) :
    ∃ (evs : List Ev) (k' : Key), (∀ e ∈ evs, ∀ s, e ≠ .accept s) ∧ (evs ++ [Ev.ack]).foldlM step? k = some k' ∧
      k'.lastAck = latest k ∧ k'.hist = k.hist ∧ k'.pending = [] := by
  obtain ⟨k1, hr1, hp1, hh1, hi1⟩ := drain_pending k.pending k hi rfl
  obtain ⟨k2, hr2, hp2, hall, hh2, _, hi2⟩ := retire_stale _ k1 hi1 hp1 rfl
  have hl : latest k2 = latest k := by rw [latest_of_hist hh2, latest_of_hist hh1]
  have hl1 : latest k1 = latest k := latest_of_hist hh1
  have hack : step? k2 .ack = some { k2 with lastAck := latest k2 } := by
    have hd : (k2.dur.all fun j => j == latest k2) = true := by
      rw [List.all_eq_true]; intro j hj; rw [hl, ← hl1]; simpa using hall j hj
    have hv : (decide (isValue k2 (latest k2) = true → k2.dur.contains (latest k2) = true)) = true := by
      simp only [decide_eq_true_eq]
      intro hv
      rcases hi2.latestTracked hv with h1 | h1
      · rw [hp2] at h1; cases h1
      · simpa using h1
    simp only [step?]
    rw [if_pos]
    simp only [Bool.and_eq_true, List.isEmpty_iff]
    exact ⟨⟨hp2, hd⟩, hv⟩
  refine ⟨k.pending.map (drainEv k) ++ (k1.dur.filter (· != latest k1)).map Ev.retire, { k2 with lastAck := latest k2 }, ?_, ?_, hl, by rw [hh2, hh1], hp2⟩
  · intro e he s
    rcases List.mem_append.mp he with h1 | h1
    · obtain ⟨i, _, rfl⟩ := List.mem_map.mp h1
      unfold drainEv; split <;> simp
    · obtain ⟨i, _, rfl⟩ := List.mem_map.mp h1; simp
  · rw [List.foldlM_append, List.foldlM_append]
    simp only [Option.bind_eq_bind, hr1, Option.bind_some, hr2, List.foldlM_cons, hack, List.foldlM_nil]
    rfl

/-- … in particular from every state any accepted trace reaches -/
theorem reachable_can_flush (evs : List Ev) (k : Key) (h : evs.foldlM step? {} = some k) :
    ∃ (more : List Ev) (k' : Key), (∀ e ∈ more, ∀ s, e ≠ .accept s) ∧ (more ++ [Ev.ack]).foldlM step? k = some k' ∧
      k'.lastAck = latest k ∧ k'.hist = k.hist ∧ k'.pending = [] :=
  flush_can_complete k (run_inv2 evs {} k inv2_init h)

end Feox.Proto.Dur
