import Feox.Conc.Model
/-!
# Conc.Sim — every step of every thread is a step of the sequential specification, a silent
step, a permitted refusal, or a read-only answer about the generation it read
-/
namespace Feox.Conc

/-- the index points at a published generation -/
def genRet (sh : Shared) (i : Nat) : Nat := (sh.gens[i]?.map (·.retiredAt)).getD 0

/-- the index points at a published generation, and that generation is not retired -/
def WF (sh : Shared) : Prop := ∀ c, sh.cur = some c → c < sh.gens.length ∧ genRet sh c = 0

theorem abs_some {sh : Shared} {c : Nat} (h : sh.cur = some c) (hwf : WF sh) :
    abs sh = some ⟨genTs sh c, genV sh c⟩ := by
  have hc := (hwf c h).1
  simp [abs, h, genTs, genV, List.getElem?_eq_getElem hc]

theorem abs_none {sh : Shared} (h : sh.cur = none) : abs sh = none := by simp [abs, h]

@[simp] theorem abs_clockNext (sh : Shared) (w : Nat) : abs (clockNext sh w).1 = abs sh := rfl
@[simp] theorem cur_clockNext (sh : Shared) (w : Nat) : (clockNext sh w).1.cur = sh.cur := rfl
@[simp] theorem gens_clockNext (sh : Shared) (w : Nat) : (clockNext sh w).1.gens = sh.gens := rfl

@[simp] theorem abs_create (sh : Shared) (ts : Nat) (v : V) (e : Bool) : abs (create sh ts v e) = some ⟨ts, v⟩ := by
  simp [abs, create]

@[simp] theorem abs_replace (sh : Shared) (c ts : Nat) (v : V) (e : Bool) : abs (replace sh c ts v e) = some ⟨ts, v⟩ := by
  simp [abs, replace]

@[simp] theorem abs_remove (sh : Shared) (c ts : Nat) (e : Bool) : abs (remove sh c ts e) = none := by
  simp [abs, remove]

theorem wf_clockNext {sh : Shared} (w : Nat) (h : WF sh) : WF (clockNext sh w).1 := h

theorem wf_create (sh : Shared) (ts : Nat) (v : V) (e : Bool) : WF (create sh ts v e) := by
  intro c hc; simp [create] at hc; subst hc; simp [create, genRet]

theorem wf_replace (sh : Shared) (c ts : Nat) (v : V) (e : Bool) : WF (replace sh c ts v e) := by
  intro c' hc; simp [replace] at hc; subst hc; simp [replace, genRet]

theorem wf_remove (sh : Shared) (c ts : Nat) (e : Bool) : WF (remove sh c ts e) := by
  intro c' hc; simp [remove] at hc

/-- a positive `retirement_timestamp()` comes from a delete that was accepted -/
theorem retTsAux_witness (gens : List Gen) (t : Nat) : ∀ fuel i, t ≤ retTsAux gens fuel i →
    t = 0 ∨ ∃ j : Nat, j < gens.length ∧ t ≤ (gens[j]?.map (·.retiredAt)).getD 0 := by
  intro fuel
  induction fuel with
  | zero => intro i h; simp [retTsAux] at h; exact Or.inl h
  | succ f ih =>
    intro i h
    simp only [retTsAux] at h
    cases hg : gens[i]? with
    | none => simp [hg] at h; exact Or.inl h
    | some g =>
      simp only [hg] at h
      by_cases h1 : t ≤ g.retiredAt
      · exact Or.inr ⟨i, (List.getElem?_eq_some_iff.mp hg).1, by simp [hg, h1]⟩
      · cases hs : g.succ with
        | none => simp [hs] at h; omega
        | some j =>
          simp only [hs] at h
          exact ih j (by omega)

theorem retTs_witness {sh : Shared} {t i : Nat} (h : t ≤ retTs sh i) :
    t = 0 ∨ ∃ j : Nat, j < sh.gens.length ∧ t ≤ genRet sh j :=
  retTsAux_witness sh.gens t _ i h

def opTs : Op → Nat
  | .get => 0
  | .insert _ ts => ts
  | .delete ts => ts
  | .cas _ _ ts => ts
  | .incr _ ts _ => ts
  | .ifAbsent _ ts => ts
  | .patch _ ts => ts

/-- the generation a thread read at its last index read, for the calls that answer from it -/
def staleSrc : Pc → Option Nat
  | .patchChk1 _ _ _ _ src => some src
  | .patchChk2 _ _ _ _ src => some src
  | _ => none

/-- the generation a compare-and-swap expects to find -/
def casObs : Pc → Option Nat
  | .casGuard _ _ _ _ obs => some obs
  | _ => none

/-- **Permitted refusals**, as the state shows them: `OlderTimestamp` because a delete with an
equal or newer timestamp was accepted; a CAS that finds the key modified since it read it. -/
def Refusal (sh : Shared) (pc : Pc) (op : Op) (resp : Resp) : Prop :=
  (resp = .older ∧ (opTs op = 0 ∨ ∃ j : Nat, j < sh.gens.length ∧ opTs op ≤ genRet sh j)) ∨
  (resp = .notSwapped ∧ ∃ obs c, casObs pc = some obs ∧ sh.cur = some c ∧ c ≠ obs)

/-- what one step means for a sequential observer -/
def StepOk (sh : Shared) (pc : Pc) (r : StepRes) : Prop :=
  match r.ret with
  | none => abs r.sh = abs sh
  | some (op, resp) =>
    match r.how with
    | .exact => Spec.apply (abs sh) op = (abs r.sh, resp)
    | .refused => abs r.sh = abs sh ∧ Refusal sh pc op resp
    | .stale => abs r.sh = abs sh ∧ ∃ src, staleSrc pc = some src ∧
        Spec.apply (some ⟨genTs sh src, genV sh src⟩) op = (some ⟨genTs sh src, genV sh src⟩, resp)

theorem step_wf {sh : Shared} (wall : Nat) (pc : Pc) (hwf : WF sh) : WF (step sh wall pc).sh := by
  cases pc <;> simp only [step] <;> (repeat' split) <;> (try dsimp only) <;>
    first | exact hwf | apply wf_create | apply wf_replace | apply wf_remove | exact wf_clockNext _ hwf

end Feox.Conc

namespace Feox.Conc

/-- published generations never change their timestamp or value, and are never unpublished -/
def Ext (a b : Shared) : Prop :=
  a.gens.length ≤ b.gens.length ∧
  ∀ i, i < a.gens.length → genV b i = genV a i ∧ genTs b i = genTs a i ∧ genRet a i ≤ genRet b i

theorem Ext.refl (a : Shared) : Ext a a := ⟨Nat.le_refl _, fun _ _ => ⟨rfl, rfl, Nat.le_refl _⟩⟩

theorem Ext.trans {a b c : Shared} (h1 : Ext a b) (h2 : Ext b c) : Ext a c :=
  ⟨Nat.le_trans h1.1 h2.1, fun i hi => by
    have x := h1.2 i hi; have y := h2.2 i (Nat.lt_of_lt_of_le hi h1.1)
    exact ⟨by rw [y.1, x.1], by rw [y.2.1, x.2.1], Nat.le_trans x.2.2 y.2.2⟩⟩

theorem ext_clockNext (sh : Shared) (w : Nat) : Ext sh (clockNext sh w).1 := Ext.refl _

theorem ext_create (sh : Shared) (ts : Nat) (v : V) (e : Bool) : Ext sh (create sh ts v e) := by
  refine ⟨by simp [create], fun i hi => ?_⟩
  simp [genV, genTs, genRet, create, List.getElem?_append_left hi]

theorem ext_replace (sh : Shared) (c ts : Nat) (v : V) (e : Bool) : Ext sh (replace sh c ts v e) := by
  refine ⟨by simp [replace], fun i hi => ?_⟩
  have hi' : i < (sh.gens.modify c fun g => { g with succ := some sh.gens.length }).length := by simpa using hi
  simp only [genV, genTs, genRet, replace, List.getElem?_append_left hi', List.getElem?_modify]
  by_cases h : c = i <;> simp [h, List.getElem?_eq_getElem hi]

theorem ext_remove {sh : Shared} {c : Nat} (ts : Nat) (e : Bool) (hc : genRet sh c = 0) : Ext sh (remove sh c ts e) := by
  refine ⟨by simp [remove], fun i hi => ?_⟩
  simp only [genV, genTs, genRet, remove, List.getElem?_modify]
  by_cases h : c = i
  · subst h
    have : (sh.gens[c]?.map (·.retiredAt)).getD 0 = 0 := hc
    simp [List.getElem?_eq_getElem hi] at this ⊢
    omega
  · simp [h, List.getElem?_eq_getElem hi]

theorem step_ext {sh : Shared} (wall : Nat) (pc : Pc) (hwf : WF sh) : Ext sh (step sh wall pc).sh := by
  cases pc <;> simp only [step] <;> (repeat' split) <;> (try dsimp only) <;>
    first
      | exact Ext.refl _
      | exact Ext.trans (ext_clockNext _ _) (ext_create _ _ _ _)
      | apply ext_create
      | apply ext_replace
      | (apply ext_remove; exact (hwf _ ‹_›).2)
      | exact ext_clockNext _ _

/-- what a thread knows about the generations it read (thread-local facts, stable because
published generations are immutable) -/
def PcInv (sh : Shared) : Pc → Prop
  | .casTs exp _ _ obs => obs < sh.gens.length ∧ genV sh obs = exp
  | .casGuard exp _ _ _ obs => obs < sh.gens.length ∧ genV sh obs = exp
  | .incrTs d _ _ src new => src < sh.gens.length ∧ (genV sh src).kind = .num ∧ new = satAdd (genV sh src).n d
  | .incrGuard d _ _ src new _ => src < sh.gens.length ∧ (genV sh src).kind = .num ∧ new = satAdd (genV sh src).n d
  | .patchChk1 _ _ _ _ src => src < sh.gens.length
  | .patchChk2 _ ts _ _ src => src < sh.gens.length ∧ ¬ ts ≤ genTs sh src
  | .incrVacTs _ _ _ retired => ∀ t, t ≤ retired → t = 0 ∨ ∃ j, j < sh.gens.length ∧ t ≤ genRet sh j
  | .patchGuard _ _ _ _ src => src < sh.gens.length ∧ (genV sh src).kind = .json
  | _ => True

theorem PcInv.ext {a b : Shared} (h : Ext a b) {pc : Pc} (hp : PcInv a pc) : PcInv b pc := by
  cases pc <;> simp only [PcInv] at hp ⊢ <;> first
    | trivial
    | (have := h.2 _ hp.1; have := h.1; refine ⟨by omega, ?_⟩; simp_all)
    | (have := h.1; omega)
    | (intro t ht
       rcases hp t ht with h0 | ⟨j, hj, hle⟩
       · exact Or.inl h0
       · exact Or.inr ⟨j, Nat.lt_of_lt_of_le hj h.1, Nat.le_trans hle (h.2 j hj).2.2⟩)

end Feox.Conc

namespace Feox.Conc
set_option maxHeartbeats 400000 in
theorem step_sim {sh : Shared} (wall : Nat) (pc : Pc) (hwf : WF sh) (hpc : PcInv sh pc) :
    StepOk sh pc (step sh wall pc) := by
  cases pc with
  | idle => simp [step, StepOk]
  | insTs v arg => simp only [step]; split <;> simp [StepOk]
  | insRead v ts expl =>
    simp only [step]
    split
    · rename_i g hg
      split
      · simp [StepOk, abs_some hg hwf, Spec.apply, *]
      · simp [StepOk]
    · simp [StepOk]
  | insUpd v ts expl obs =>
    simp only [step]
    split
    · rename_i c hc
      split
      · rename_i h
        refine ⟨rfl, Or.inl ⟨rfl, ?_⟩⟩
        exact retTs_witness h.2
      · split
        · simp [StepOk, abs_some hc hwf, Spec.apply, *]
        · rename_i h2
          simp [StepOk, abs_some hc hwf, Spec.apply, h2]
    · rename_i hc
      split
      · rename_i h
        exact ⟨rfl, Or.inl ⟨rfl, retTs_witness h⟩⟩
      · simp [StepOk]
  | insVac v ts expl =>
    simp only [step]
    split
    · rename_i hc; simp [StepOk, abs_none hc, Spec.apply]
    · simp [StepOk]
  | delTs arg => simp only [step]; split <;> simp [StepOk]
  | delGuard ts expl =>
    simp only [step]
    split
    · rename_i c hc
      split
      · simp [StepOk, abs_some hc hwf, Spec.apply, *]
      · rename_i h2; simp [StepOk, abs_some hc hwf, Spec.apply, h2]
    · rename_i hc; simp [StepOk, abs_none hc, Spec.apply]
  | get =>
    simp only [step]
    split
    · rename_i c hc; simp [StepOk, abs_some hc hwf, Spec.apply]
    · rename_i hc; simp [StepOk, abs_none hc, Spec.apply]
  | casRead exp new arg =>
    simp only [step]
    split
    · rename_i hc; simp [StepOk, abs_none hc, Spec.apply]
    · rename_i c hc
      split
      · rename_i h; simp [StepOk, abs_some hc hwf, Spec.apply, h]
      · simp [StepOk]
  | casTs exp new arg obs => simp only [step]; split <;> simp [StepOk]
  | casGuard exp new ts expl obs =>
    simp only [step]
    split
    · rename_i c hc
      split
      · rename_i h
        exact ⟨rfl, Or.inr ⟨rfl, obs, c, rfl, hc, h⟩⟩
      · rename_i h
        have hco : c = obs := by simpa using h
        subst hco
        have hv : genV sh c = exp := hpc.2
        split
        · rename_i h2; simp [StepOk, abs_some hc hwf, Spec.apply, hv, h2]
        · rename_i h2; simp [StepOk, abs_some hc hwf, Spec.apply, hv, h2]
    · rename_i hc; simp [StepOk, abs_none hc, Spec.apply]
  | incrRead d arg root =>
    simp only [step]
    split
    · simp [StepOk]
    · rename_i g hg
      split
      · rename_i t ht
        split
        · rename_i h; simp [StepOk, abs_some hg hwf, Spec.apply, h]
        · rename_i h
          split
          · rename_i h2; simp [StepOk, abs_some hg hwf, Spec.apply, h, h2]
          · simp [StepOk]
      · split
        · rename_i h2; simp [StepOk, abs_some hg hwf, Spec.apply, h2]
        · simp [StepOk]
  | incrVacRet d arg root => simp [step, StepOk]
  | incrVacTs d arg root retired =>
    simp only [step]
    split
    · rename_i t ht
      split
      · rename_i h
        exact ⟨rfl, Or.inl ⟨rfl, hpc t h⟩⟩
      · simp [StepOk]
    · simp [StepOk]
  | incrVacGuard d arg root ts =>
    simp only [step]
    split
    · simp [StepOk]
    · rename_i hc; simp [StepOk, abs_none hc, Spec.apply]
  | incrTs d arg root src new => simp only [step]; split <;> simp [StepOk]
  | incrGuard d arg root src new ts =>
    simp only [step]
    split
    · rename_i c hc
      split
      · split
        · rename_i h
          simp only [Bool.and_eq_true, decide_eq_true_eq] at h
          exact ⟨rfl, Or.inl ⟨rfl, retTs_witness h.2⟩⟩
        · simp [StepOk]
      · rename_i h
        have hco : c = src := by simpa using h
        subst hco
        obtain ⟨_, hk, hn⟩ := hpc
        split
        · rename_i h2
          cases he : (explicitTs arg).isSome <;> simp [StepOk, abs_some hc hwf, Spec.apply, hk, h2]
        · rename_i h2
          cases he : (explicitTs arg).isSome <;> simp [StepOk, abs_some hc hwf, Spec.apply, hk, h2, hn]
    · rename_i hc
      split
      · rename_i h
        simp only [Bool.and_eq_true, decide_eq_true_eq] at h
        exact ⟨rfl, Or.inl ⟨rfl, retTs_witness h.2⟩⟩
      · simp [StepOk]
  | ifAbsent v =>
    simp only [step]
    split
    · rename_i c hc; simp [StepOk, abs_some hc hwf, Spec.apply]
    · rename_i hc; simp [StepOk, abs_none hc, Spec.apply]
  | patchTs c arg => simp only [step]; split <;> simp [StepOk]
  | patchRead c ts expl observed =>
    simp only [step]
    split
    · rename_i hc; simp [StepOk, abs_none hc, Spec.apply]
    · simp [StepOk]
  | patchChk1 c ts expl observed src =>
    simp only [step]
    split
    · rename_i h; exact ⟨rfl, Or.inl ⟨rfl, retTs_witness h.2⟩⟩
    · split
      · rename_i h2
        refine ⟨rfl, src, rfl, ?_⟩
        simp [Spec.apply, h2]
      · simp [StepOk]
  | patchChk2 c ts expl observed src =>
    simp only [step]
    split
    · rename_i h; exact ⟨rfl, Or.inl ⟨rfl, retTs_witness h.2⟩⟩
    · split
      · rename_i h2
        refine ⟨rfl, src, rfl, ?_⟩
        simp [Spec.apply, h2, hpc.2]
      · simp [StepOk]
  | patchGuard c ts expl observed src =>
    simp only [step]
    split
    · rename_i cur hc
      split
      · simp [StepOk]
      · rename_i h
        have hco : cur = src := by simpa using h
        subst hco
        have hk := hpc.2
        split
        · rename_i h2; simp [StepOk, abs_some hc hwf, Spec.apply, h2]
        · rename_i h2; simp [StepOk, abs_some hc hwf, Spec.apply, h2, hk]
    · simp [StepOk]
end Feox.Conc

namespace Feox.Conc

@[simp] theorem genV_clockNext (sh : Shared) (w i : Nat) : genV (clockNext sh w).1 i = genV sh i := rfl
@[simp] theorem genTs_clockNext (sh : Shared) (w i : Nat) : genTs (clockNext sh w).1 i = genTs sh i := rfl

/-- a thread's own step establishes what its next program point relies on -/
theorem step_pcInv {sh : Shared} (wall : Nat) (pc : Pc) (hwf : WF sh) (hpc : PcInv sh pc) :
    PcInv (step sh wall pc).sh (step sh wall pc).pc := by
  cases pc with
  | casRead exp new arg =>
    simp only [step]
    split
    · trivial
    · rename_i g hg
      split
      · trivial
      · rename_i h
        exact ⟨(hwf g hg).1, by simpa using h⟩
  | casTs exp new arg obs => simp only [step]; split <;> exact hpc
  | incrRead d arg root =>
    simp only [step]
    split
    · trivial
    · rename_i g hg
      split
      · split
        · trivial
        · split
          · trivial
          · rename_i h; exact ⟨(hwf g hg).1, by simpa using h, rfl⟩
      · split
        · trivial
        · rename_i h; exact ⟨(hwf g hg).1, by simpa using h, rfl⟩
  | incrVacRet d arg root =>
    simp only [step, PcInv]
    intro t ht
    cases root with
    | none => simp at ht; exact Or.inl ht
    | some r => exact retTs_witness ht
  | incrTs d arg root src new => simp only [step]; split <;> exact hpc
  | patchRead c ts expl observed =>
    simp only [step]
    split
    · trivial
    · rename_i g hg; exact (hwf g hg).1
  | patchChk1 c ts expl observed src =>
    simp only [step]
    split
    · trivial
    · split
      · trivial
      · rename_i h; exact ⟨hpc, h⟩
  | patchChk2 c ts expl observed src =>
    simp only [step]
    split
    · trivial
    · split
      · trivial
      · rename_i h; exact ⟨hpc.1, by simpa using h⟩
  | _ => simp only [step] <;> (repeat' split) <;> trivial

end Feox.Conc
