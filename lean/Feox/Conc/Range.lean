/-!
# Conc.Range — a range scan racing with writers

`src/core/store/range.rs`: the scan takes `lower_bound(start)` of the ordered index, then per
iteration checks the limit and the upper bound, reads the entry's current record, and moves to
`entry.next()`.  Other threads insert into and remove from the ordered index between any two
iterations.  Keys are abstract (`Nat` in index order); the index at an instant is the list of the
keys it holds.
-/
namespace Feox.Conc.Range

/-- smallest key of the index that is `≥ lo` (`lower_bound` / `Entry::next` on a live skip list) -/
def nextKey : List Nat → Nat → Option Nat
  | [], _ => none
  | x :: xs, lo =>
    match nextKey xs lo with
    | none => if lo ≤ x then some x else none
    | some m => if lo ≤ x ∧ x < m then some x else some m

theorem nextKey_some {ix : List Nat} {lo k : Nat} (h : nextKey ix lo = some k) : k ∈ ix ∧ lo ≤ k := by
  induction ix generalizing k with
  | nil => simp [nextKey] at h
  | cons x xs ih =>
    simp only [nextKey] at h
    cases hr : nextKey xs lo with
    | none =>
      rw [hr] at h
      simp only at h
      split at h
      · cases h; exact ⟨List.mem_cons_self, by assumption⟩
      · cases h
    | some m =>
      rw [hr] at h
      simp only at h
      split at h
      · rename_i hx; cases h; exact ⟨List.mem_cons_self, hx.1⟩
      · cases h; have := ih hr; exact ⟨List.mem_cons_of_mem _ this.1, this.2⟩

/-- a key of the index at or above `lo` is never jumped over -/
theorem nextKey_le {ix : List Nat} {lo x : Nat} (hx : x ∈ ix) (hlo : lo ≤ x) : ∃ k, nextKey ix lo = some k ∧ k ≤ x := by
  induction ix with
  | nil => cases hx
  | cons y ys ih =>
    simp only [nextKey]
    rcases List.mem_cons.mp hx with rfl | hx'
    · cases hr : nextKey ys lo with
      | none => simp [hlo]
      | some m =>
        simp only
        split
        · exact ⟨_, rfl, Nat.le_refl _⟩
        · rename_i hn; exact ⟨m, rfl, by omega⟩
    · obtain ⟨k, hk, hle⟩ := ih hx'
      rw [hk]
      simp only
      split
      · rename_i hy; exact ⟨_, rfl, by omega⟩
      · exact ⟨k, rfl, hle⟩

structure Scan where
  cur : Option Nat          -- the entry the scan stands on (determined at the previous instant)
  out : List Nat := []
  done : Bool := false
  deriving Repr, DecidableEq

/-- `lower_bound(start)` on the index as it is when the call starts -/
def start (ix : List Nat) (lo : Nat) : Scan := { cur := nextKey ix lo, done := (nextKey ix lo).isNone }

/-- one loop iteration at an instant where the index is `ix`; `readable k` = the entry's record
resolves to a value (a `StaleExtent` / expired entry is skipped) -/
def step (hi limit : Nat) (s : Scan) (ix : List Nat) (readable : Nat → Bool) : Scan :=
  if s.done then s else
  match s.cur with
  | none => { s with done := true }
  | some k =>
    if s.out.length ≥ limit ∨ k > hi then { s with done := true }
    else { cur := nextKey ix (k + 1), out := if readable k then s.out ++ [k] else s.out,
           done := (nextKey ix (k + 1)).isNone }   -- `while let Some(entry) = cursor`

/-- the scan over a whole history of instants -/
def run (hi limit : Nat) (s : Scan) : List (List Nat × (Nat → Bool)) → Scan
  | [] => s
  | (ix, rd) :: rest => run hi limit (step hi limit s ix rd) rest

/-- the scan has moved beyond key `k` -/
def passed (s : Scan) (k : Nat) : Prop := ∀ c, s.cur = some c → k < c

/-- what holds at every instant of every scan; `present` = "was in the index at some instant
of the scan", `stable` = "in the index and readable at every instant of the scan" -/
structure Inv (lo hi limit : Nat) (present stable : Nat → Prop) (s : Scan) : Prop where
  sorted : s.out.Pairwise (· < ·)
  behind : ∀ k ∈ s.out, passed s k
  bounds : ∀ k ∈ s.out, lo ≤ k ∧ k ≤ hi
  short : s.out.length ≤ limit
  genuine : (∀ k ∈ s.out, present k) ∧ (∀ c, s.cur = some c → present c)
  curLo : ∀ c, s.cur = some c → lo ≤ c
  complete : ∀ k, stable k → lo ≤ k → passed s k → k ∈ s.out

theorem inv_start {lo hi limit : Nat} {present stable : Nat → Prop} (ix : List Nat)
    (hp : ∀ k ∈ ix, present k) (hs : ∀ k, stable k → k ∈ ix) :
    Inv lo hi limit present stable (start ix lo) := by
  refine ⟨List.Pairwise.nil, by simp [start], by simp [start], by simp [start], ⟨by simp [start], ?_⟩, ?_, ?_⟩
  · intro c hc; exact hp c (nextKey_some hc).1
  · intro c hc; exact (nextKey_some hc).2
  · intro k hst hlo hpass
    obtain ⟨c, hc, hle⟩ := nextKey_le (hs k hst) hlo
    have := hpass c hc
    omega

theorem inv_congr {lo hi limit : Nat} {present stable : Nat → Prop} {s s' : Scan}
    (hc : s'.cur = s.cur) (ho : s'.out = s.out) (h : Inv lo hi limit present stable s) :
    Inv lo hi limit present stable s' := by
  obtain ⟨h1, h2, h3, h4, h5, h6, h7⟩ := h
  refine ⟨by rw [ho]; exact h1, ?_, by rw [ho]; exact h3, by rw [ho]; exact h4, ⟨by rw [ho]; exact h5.1, by rw [hc]; exact h5.2⟩,
    by rw [hc]; exact h6, ?_⟩
  · intro k hk c hcur; rw [ho] at hk; rw [hc] at hcur; exact h2 k hk c hcur
  · intro k hst hlo hp; rw [ho]; exact h7 k hst hlo (fun c hcur => hp c (by rw [hc]; exact hcur))

theorem inv_step {lo hi limit : Nat} {present stable : Nat → Prop} {s : Scan} (ix : List Nat) (rd : Nat → Bool)
    (h : Inv lo hi limit present stable s) (hp : ∀ k ∈ ix, present k) (hs : ∀ k, stable k → k ∈ ix ∧ rd k = true) :
    Inv lo hi limit present stable (step hi limit s ix rd) := by
  unfold step
  by_cases hd : s.done = true
  · simp only [hd, if_true]; exact h
  · simp only [hd, Bool.false_eq_true, if_false]
    cases hk : s.cur with
    | none => exact inv_congr (s := s) (by simp [hk]) rfl h
    | some k =>
      simp only
      by_cases hgo' : s.out.length ≥ limit ∨ k > hi
      · simp only [hgo', if_true]; exact inv_congr (s := s) (by simp [hk]) rfl h
      · simp only [hgo', if_false]
        obtain ⟨h1, h2, h3, h4, h5, h6, h7⟩ := h
        have hgo := hgo'
        have hlim : s.out.length < limit := by omega
        have hkhi : k ≤ hi := by omega
        have hnext : ∀ c, nextKey ix (k + 1) = some c → k < c := fun c hc => by have := (nextKey_some hc).2; omega
        refine ⟨?_, ?_, ?_, ?_, ⟨?_, ?_⟩, ?_, ?_⟩
        · split
          · rw [List.pairwise_append]
            exact ⟨h1, by simp, fun a ha b hb => by simp at hb; rw [hb]; exact h2 a ha k hk⟩
          · exact h1
        · intro x hx c hc
          have hkc := hnext c hc
          split at hx
          · rcases List.mem_append.mp hx with hx | hx
            · have := h2 x hx k hk; omega
            · simp at hx; rw [hx]; exact hkc
          · have := h2 x hx k hk; omega
        · intro x hx
          split at hx
          · rcases List.mem_append.mp hx with hx | hx
            · exact h3 x hx
            · simp at hx; rw [hx]; exact ⟨h6 k hk, hkhi⟩
          · exact h3 x hx
        · split
          · simp; omega
          · omega
        · intro x hx
          split at hx
          · rcases List.mem_append.mp hx with hx | hx
            · exact h5.1 x hx
            · simp at hx; rw [hx]; exact h5.2 k hk
          · exact h5.1 x hx
        · intro c hc; exact hp c (nextKey_some hc).1
        · intro c hc; have := hnext c hc; have := h6 k hk; omega
        · intro x hst hlo hpass
          -- x is stable; the scan stood on k and moved to the next key of `ix` above k
          by_cases hxk : x < k
          · have := h7 x hst hlo (fun c hc => by rw [hk] at hc; cases hc; exact hxk)
            split
            · exact List.mem_append_left _ this
            · exact this
          · by_cases hxe : x = k
            · have := (hs x hst).2
              rw [hxe] at this
              simp [this, hxe]
            · -- x > k: it is in ix, so the next key is at most x — the scan has not passed it
              have hx1 : k + 1 ≤ x := by omega
              obtain ⟨c, hc, hle⟩ := nextKey_le (hs x hst).1 hx1
              have := hpass c hc
              omega

/-- instants of a history: every index is inside `present`, every stable key is in every index and readable -/
def Fits (present stable : Nat → Prop) (hist : List (List Nat × (Nat → Bool))) : Prop :=
  ∀ st ∈ hist, (∀ k ∈ st.1, present k) ∧ (∀ k, stable k → k ∈ st.1 ∧ st.2 k = true)

theorem inv_run {lo hi limit : Nat} {present stable : Nat → Prop} (hist : List (List Nat × (Nat → Bool))) :
    ∀ (s : Scan), Inv lo hi limit present stable s → Fits present stable hist →
      Inv lo hi limit present stable (run hi limit s hist) := by
  induction hist with
  | nil => intro s h _; exact h
  | cons st rest ih =>
    intro s h hf
    obtain ⟨ix, rd⟩ := st
    simp only [run]
    have := hf (ix, rd) List.mem_cons_self
    exact ih _ (inv_step ix rd h this.1 this.2) (fun x hx => hf x (List.mem_cons_of_mem _ hx))

end Feox.Conc.Range
