/-!
# Conc.Epoch — the reclamation protocol behind `TreeSlot`

One slot of the ordered index holds a pointer to a heap object (`Box<Arc<Record>>`).  Readers
(`range_query`, recovery's expiry walk) pin the epoch, load the pointer and dereference it while
pinned; a writer swaps the pointer and hands the old object to the collector, which destroys it
once every reader that was pinned at the swap has unpinned (crossbeam-epoch's guarantee, taken as
the semantics of `defer_destroy`; with the `unprotected` guard the destruction is immediate).
The borrow checker ties the loaded reference to the guard (`load<'g>(&'g self, &'g Guard) -> &'g _`):
unpinning or repinning ends every reference obtained under the pin — `unpin` clears `holding`.

`Mode` is what `tools/gen_epoch.py` reads off `TreeSlot::store` (`Feox/Gen/Epoch.lean`).
-/
namespace Feox.Conc.Epoch

inductive Mode
  | deferred     -- `let guard = &epoch::pin(); … guard.defer_destroy(previous)`
  | immediate    -- destroyed at once (`unprotected()` guard, or a plain drop)
  deriving DecidableEq, Repr

structure Reader where
  pinned : Bool := false
  holding : Option Nat := none     -- the object a loaded reference points to
  deriving DecidableEq, Repr

structure St where
  /-- number of reader threads -/
  n : Nat
  cur : Nat := 0                           -- object the slot points to
  next : Nat := 1                          -- fresh object ids
  readers : Nat → Reader := fun _ => {}
  /-- retired objects with the readers that were pinned when they were retired -/
  limbo : List (Nat × List Nat) := []
  freed : List Nat := []
  /-- a dereference of a freed object happened -/
  uaf : Bool := false

inductive Ev
  | pin (r : Nat)
  | load (r : Nat)
  | deref (r : Nat)
  | unpin (r : Nat)          -- guard dropped or repinned: every reference obtained under it is gone
  | store                     -- a writer publishes a new object
  | collect                   -- the collector destroys what nobody can still see
  deriving Repr

def upd (f : Nat → Reader) (i : Nat) (x : Reader) : Nat → Reader := fun j => if j = i then x else f j

def step (m : Mode) (s : St) : Ev → St
  | .pin r => if r < s.n then { s with readers := upd s.readers r { s.readers r with pinned := true } } else s
  | .load r => if (s.readers r).pinned then { s with readers := upd s.readers r { s.readers r with holding := some s.cur } } else s
  | .deref r =>
    match (s.readers r).holding with
    | some o => if s.freed.contains o then { s with uaf := true } else s
    | none => s
  | .unpin r =>
    { s with readers := upd s.readers r {}, limbo := s.limbo.map fun e => (e.1, e.2.filter (· != r)) }
  | .store =>
    match m with
    | .deferred => { s with cur := s.next, next := s.next + 1,
                            limbo := (s.cur, (List.range s.n).filter fun r => (s.readers r).pinned) :: s.limbo }
    | .immediate => { s with cur := s.next, next := s.next + 1, freed := s.cur :: s.freed }
  | .collect =>
    { s with freed := (s.limbo.filter (·.2.isEmpty)).map (·.1) ++ s.freed,
             limbo := s.limbo.filter (fun e => !e.2.isEmpty) }

def run (m : Mode) (s : St) (evs : List Ev) : St := evs.foldl (step m) s

/-- whatever a reader holds is the current object or sits in limbo waiting for that reader -/
structure Inv (s : St) : Prop where
  pinnedLt : ∀ r, (s.readers r).pinned = true → r < s.n
  held : ∀ r o, (s.readers r).holding = some o →
    (s.readers r).pinned = true ∧ (o = s.cur ∨ ∃ w, (o, w) ∈ s.limbo ∧ r ∈ w)
  curLive : s.cur ∉ s.freed
  limboLive : ∀ e ∈ s.limbo, e.1 ∉ s.freed
  fresh : s.cur < s.next ∧ (∀ o ∈ s.freed, o < s.next) ∧ (∀ e ∈ s.limbo, e.1 < s.next)
  limboNe : ∀ e ∈ s.limbo, e.1 ≠ s.cur
  limboNodup : (s.limbo.map (·.1)).Nodup
  noUaf : s.uaf = false

theorem inv_init (n : Nat) : Inv { n := n } := by
  refine ⟨by simp, by simp, by simp, by simp, by simp, by simp, by simp, rfl⟩

theorem nodup_map_inj {α β : Type} {f : α → β} : ∀ {l : List α}, (l.map f).Nodup → ∀ {a b : α}, a ∈ l → b ∈ l → f a = f b → a = b := by
  intro l
  induction l with
  | nil => intro _ a b ha; cases ha
  | cons x xs ih =>
    intro hnd a b ha hb hab
    simp only [List.map_cons, List.nodup_cons] at hnd
    rcases List.mem_cons.mp ha with rfl | ha'
    · rcases List.mem_cons.mp hb with rfl | hb'
      · rfl
      · exact absurd (List.mem_map.mpr ⟨b, hb', hab.symm⟩) hnd.1
    · rcases List.mem_cons.mp hb with rfl | hb'
      · exact absurd (List.mem_map.mpr ⟨a, ha', hab⟩) hnd.1
      · exact ih hnd.2 ha' hb' hab

theorem upd_same (f : Nat → Reader) (i : Nat) (x : Reader) : upd f i x i = x := by simp [upd]
theorem upd_other (f : Nat → Reader) (i j : Nat) (x : Reader) (h : j ≠ i) : upd f i x j = f j := by simp [upd, h]

/-- **With deferred destruction no reader ever dereferences a destroyed object**, in any
interleaving of readers, writers and the collector -/
theorem step_inv {s : St} (e : Ev) (hi : Inv s) : Inv (step .deferred s e) := by
  cases e with
  | pin r =>
    simp only [step]
    split
    · rename_i hlt
      refine ⟨?_, ?_, hi.curLive, hi.limboLive, hi.fresh, hi.limboNe, hi.limboNodup, hi.noUaf⟩
      · intro r' hp
        by_cases h : r' = r
        · subst h; exact hlt
        · simp only [upd_other _ _ _ _ h] at hp; exact hi.pinnedLt r' hp
      · intro r' o ho
        by_cases h : r' = r
        · subst h
          simp only [upd_same] at ho ⊢
          exact ⟨trivial, (hi.held r' o ho).2⟩
        · simp only [upd_other _ _ _ _ h] at ho ⊢; exact hi.held r' o ho
    · exact hi
  | load r =>
    simp only [step]
    split
    · rename_i hp
      refine ⟨?_, ?_, hi.curLive, hi.limboLive, hi.fresh, hi.limboNe, hi.limboNodup, hi.noUaf⟩
      · intro r' hp'
        by_cases h : r' = r
        · subst h; exact hi.pinnedLt r' hp
        · simp only [upd_other _ _ _ _ h] at hp'; exact hi.pinnedLt r' hp'
      · intro r' o ho
        by_cases h : r' = r
        · subst h
          simp only [upd_same] at ho ⊢
          cases ho
          exact ⟨hp, Or.inl rfl⟩
        · simp only [upd_other _ _ _ _ h] at ho ⊢; exact hi.held r' o ho
    · exact hi
  | deref r =>
    simp only [step]
    cases hh : (s.readers r).holding with
    | none => exact hi
    | some o =>
      simp only
      have hnot : o ∉ s.freed := by
        rcases (hi.held r o hh).2 with rfl | ⟨w, hw, _⟩
        · exact hi.curLive
        · exact hi.limboLive _ hw
      have hc : s.freed.contains o = false := by simpa using hnot
      rw [hc]; exact hi
  | unpin r =>
    simp only [step]
    refine ⟨?_, ?_, hi.curLive, ?_, ⟨hi.fresh.1, hi.fresh.2.1, ?_⟩, ?_, ?_, hi.noUaf⟩
    · intro r' hp
      by_cases h : r' = r
      · subst h; simp [upd_same] at hp
      · simp only [upd_other _ _ _ _ h] at hp; exact hi.pinnedLt r' hp
    · intro r' o ho
      by_cases h : r' = r
      · subst h; simp [upd_same] at ho
      · simp only [upd_other _ _ _ _ h] at ho ⊢
        obtain ⟨h1, h2⟩ := hi.held r' o ho
        refine ⟨h1, ?_⟩
        rcases h2 with h2 | ⟨w, hw, hr⟩
        · exact Or.inl h2
        · exact Or.inr ⟨w.filter (· != r), List.mem_map.mpr ⟨(o, w), hw, rfl⟩, List.mem_filter.mpr ⟨hr, by simpa using h⟩⟩
    · intro e he
      obtain ⟨e0, he0, rfl⟩ := List.mem_map.mp he
      exact hi.limboLive e0 he0
    · intro e he
      obtain ⟨e0, he0, rfl⟩ := List.mem_map.mp he
      exact hi.fresh.2.2 e0 he0
    · intro e he
      obtain ⟨e0, he0, rfl⟩ := List.mem_map.mp he
      exact hi.limboNe e0 he0
    · simp only [List.map_map]
      exact hi.limboNodup
  | store =>
    simp only [step]
    refine ⟨hi.pinnedLt, ?_, ?_, ?_, ⟨by simp, ?_, ?_⟩, ?_, ?_, hi.noUaf⟩
    · intro r o ho
      obtain ⟨h1, h2⟩ := hi.held r o ho
      refine ⟨h1, Or.inr ?_⟩
      rcases h2 with rfl | ⟨w, hw, hr⟩
      · exact ⟨_, List.mem_cons_self .., List.mem_filter.mpr ⟨List.mem_range.mpr (hi.pinnedLt r h1), h1⟩⟩
      · exact ⟨w, List.mem_cons_of_mem _ hw, hr⟩
    · intro hm; have := hi.fresh.2.1 _ hm; simp at this
    · intro e he
      rcases List.mem_cons.mp he with rfl | he'
      · exact hi.curLive
      · exact hi.limboLive e he'
    · intro o ho; have := hi.fresh.2.1 o ho; simp; omega
    · intro e he
      rcases List.mem_cons.mp he with rfl | he'
      · have := hi.fresh.1; simp; omega
      · have := hi.fresh.2.2 e he'; simp; omega
    · intro e he
      rcases List.mem_cons.mp he with rfl | he'
      · have := hi.fresh.1; simp; omega
      · have := hi.fresh.2.2 e he'; simp; omega
    · simp only [List.map_cons]
      refine List.nodup_cons.mpr ⟨?_, hi.limboNodup⟩
      intro hm
      obtain ⟨e, he, hec⟩ := List.mem_map.mp hm
      exact hi.limboNe e he hec
  | collect =>
    simp only [step]
    refine ⟨hi.pinnedLt, ?_, ?_, ?_, ⟨hi.fresh.1, ?_, ?_⟩, ?_, ?_, hi.noUaf⟩
    · intro r o ho
      obtain ⟨h1, h2⟩ := hi.held r o ho
      refine ⟨h1, ?_⟩
      rcases h2 with h2 | ⟨w, hw, hr⟩
      · exact Or.inl h2
      · refine Or.inr ⟨w, List.mem_filter.mpr ⟨hw, ?_⟩, hr⟩
        cases w with
        | nil => cases hr
        | cons _ _ => simp
    · intro hm
      rcases List.mem_append.mp hm with h1 | h1
      · obtain ⟨e, he, hec⟩ := List.mem_map.mp h1
        exact hi.limboNe e (List.mem_filter.mp he).1 hec
      · exact hi.curLive h1
    · intro e he hm
      obtain ⟨he1, he2⟩ := List.mem_filter.mp he
      rcases List.mem_append.mp hm with h1 | h1
      · -- a different limbo entry with the same object id: impossible, ids are distinct
        obtain ⟨e', he', hec⟩ := List.mem_map.mp h1
        obtain ⟨he'1, he'2⟩ := List.mem_filter.mp he'
        have : e' = e := nodup_map_inj hi.limboNodup he'1 he1 hec
        subst this
        simp [he'2] at he2
      · exact hi.limboLive e he1 h1
    · intro o ho
      rcases List.mem_append.mp ho with h1 | h1
      · obtain ⟨e, he, rfl⟩ := List.mem_map.mp h1
        exact hi.fresh.2.2 e (List.mem_filter.mp he).1
      · exact hi.fresh.2.1 o h1
    · intro e he; exact hi.fresh.2.2 e (List.mem_filter.mp he).1
    · intro e he; exact hi.limboNe e (List.mem_filter.mp he).1
    · exact (hi.limboNodup.sublist ((List.filter_sublist).map _))

theorem run_inv (evs : List Ev) : ∀ s, Inv s → Inv (run .deferred s evs) := by
  induction evs with
  | nil => intro s hi; exact hi
  | cons e es ih => intro s hi; exact ih _ (step_inv e hi)

/-- **No use after free**, for any number of readers and any schedule -/
theorem deferred_is_safe (n : Nat) (evs : List Ev) : (run .deferred { n := n } evs).uaf = false :=
  (run_inv evs _ (inv_init n)).noUaf

/-- destroying the old object at the swap is not: a reader that loaded it before the swap
dereferences freed memory -/
theorem immediate_is_not : (run .immediate { n := 1 } [.pin 0, .load 0, .store, .deref 0]).uaf = true := by
  decide

end Feox.Conc.Epoch
