import Feox.Conc.Lin
/-!
# Conc.Seq — from linearisation points to a sequential execution

Ordering the returned calls by their linearisation points (read-only and refused ones before
the call that takes effect at the same position) gives a permutation of the log that the
sequential specification replays call by call, ending in the state the concurrent system is in.
-/
namespace Feox.Conc

/-- sequential replay: a refusal is a no-op, every other call must get the specification's answer -/
def replay : Option Entry → List Event → Option (Option Entry)
  | s, [] => some s
  | s, e :: es =>
    if e.how = .refused then replay s es
    else if (Spec.apply s e.op).2 = e.resp then replay (Spec.apply s e.op).1 es else none

def isExact (e : Event) : Bool := e.how == .exact

/-- the calls linearised at position `k` -/
def bucket (log : List Event) (k : Nat) : List Event :=
  log.filter (fun e => e.linAt == k && !isExact e) ++ log.filter (fun e => e.linAt == k && isExact e)

def linUpTo (log : List Event) : Nat → List Event
  | 0 => []
  | k + 1 => linUpTo log k ++ bucket log k

theorem replay_append (s : Option Entry) (a b : List Event) :
    replay s (a ++ b) = (replay s a).bind (fun s' => replay s' b) := by
  induction a generalizing s with
  | nil => simp [replay]
  | cons e es ih =>
    simp only [List.cons_append, replay]
    split
    · exact ih s
    · split
      · exact ih _
      · simp

/-- calls that are refused or read-only at state `st` leave it where it is -/
theorem replay_noop (st : Option Entry) : ∀ (l : List Event),
    (∀ e ∈ l, e.how = .refused ∨ Spec.apply st e.op = (st, e.resp)) → replay st l = some st := by
  intro l
  induction l with
  | nil => intro _; rfl
  | cons e es ih =>
    intro h
    simp only [replay]
    rcases h e (List.mem_cons_self) with hr | hs
    · simp only [hr, if_true]
      exact ih (fun x hx => h x (List.mem_cons_of_mem _ hx))
    · split
      · exact ih (fun x hx => h x (List.mem_cons_of_mem _ hx))
      · simp only [hs, if_true]
        exact ih (fun x hx => h x (List.mem_cons_of_mem _ hx))

theorem pairwise_of_forall {α} {R : α → α → Prop} : ∀ (l : List α), (∀ a ∈ l, ∀ b ∈ l, R a b) → l.Pairwise R := by
  intro l
  induction l with
  | nil => intro _; exact List.Pairwise.nil
  | cons x xs ih =>
    intro h
    refine List.Pairwise.cons (fun b hb => h x List.mem_cons_self b (List.mem_cons_of_mem _ hb)) ?_
    exact ih (fun a ha b hb => h a (List.mem_cons_of_mem _ ha) b (List.mem_cons_of_mem _ hb))

/-- at most one call takes effect at a position -/
theorem exact_unique {log : List Event} (hm : log.Pairwise (fun a b => a.retAt < b.retAt)) (k : Nat)
    (p : Event → Bool) (hp : ∀ e ∈ log, p e = true → e.retAt = k) :
    log.filter p = [] ∨ ∃ e, log.filter p = [e] := by
  have hf : (log.filter p).Pairwise (fun a b => a.retAt < b.retAt) := hm.filter p
  cases hl : log.filter p with
  | nil => exact Or.inl rfl
  | cons a rest =>
    cases rest with
    | nil => exact Or.inr ⟨a, rfl⟩
    | cons b rest' =>
      rw [hl] at hf
      have hab := (List.pairwise_cons.mp hf).1 b (List.mem_cons_self)
      have ha := List.mem_filter.mp (show a ∈ log.filter p by rw [hl]; exact List.mem_cons_self)
      have hb := List.mem_filter.mp (show b ∈ log.filter p by rw [hl]; exact List.mem_cons_of_mem _ List.mem_cons_self)
      have := hp a ha.1 ha.2; have := hp b hb.1 hb.2; omega

end Feox.Conc

namespace Feox.Conc

theorem how_not_exact {e : Event} (h : isExact e = false) : e.how = .refused ∨ e.how = .stale := by
  cases hh : e.how <;> simp_all [isExact]

theorem how_exact {e : Event} (h : isExact e = true) : e.how = .exact := by
  cases hh : e.how <;> simp_all [isExact]

/-- replaying the calls linearised before position `k` brings the specification to the observer's
`k`-th state -/
theorem replay_linUpTo {s : Sys} (h : Inv s) : ∀ k, k ≤ s.pos →
    ∃ st, s.states[k]? = some st ∧ replay none (linUpTo s.log k) = some st := by
  intro k
  induction k with
  | zero =>
    intro _
    -- the first state is the empty store: positions start there (`Sys.init` / append-only states)
    exact ⟨none, h.first, rfl⟩
  | succ k ih =>
    intro hk
    obtain ⟨st, hst, hrep⟩ := ih (Nat.le_of_succ_le hk)
    have hklt : k < s.pos := hk
    have hlen : s.pos + 1 = s.states.length := by have := h.ne; simp [Sys.pos]; omega
    have hk1 : ∃ st1, s.states[k + 1]? = some st1 :=
      ⟨s.states[k + 1]'(by omega), List.getElem?_eq_getElem (by omega)⟩
    obtain ⟨st1, hst1⟩ := hk1
    refine ⟨st1, hst1, ?_⟩
    simp only [linUpTo, bucket, replay_append, hrep, Option.bind_some]
    -- the read-only and refused calls of position k
    have hno : replay st (s.log.filter (fun e => e.linAt == k && !isExact e)) = some st := by
      apply replay_noop
      intro e he
      obtain ⟨hmem, hp⟩ := List.mem_filter.mp he
      simp only [Bool.and_eq_true, beq_iff_eq, Bool.not_eq_true'] at hp
      obtain ⟨hlin, hne⟩ := hp
      have hok := (h.ev e hmem).1
      obtain ⟨_, _, s0, s1, a, b, c⟩ := hok
      rcases how_not_exact hne with hr | hs
      · exact Or.inl hr
      · right
        simp only [hs] at c
        obtain ⟨_, sl, c2, c3⟩ := c
        rw [hlin, hst] at c2
        cases c2
        exact c3
    rw [hno, Option.bind_some]
    -- the call that takes effect at position k, if any
    have hretk : ∀ e ∈ s.log, (e.linAt == k && isExact e) = true → e.retAt = k := by
      intro e hmem he
      simp only [Bool.and_eq_true, beq_iff_eq] at he
      obtain ⟨_, _, s0, s1, a, b, c⟩ := (h.ev e hmem).1
      simp only [how_exact he.2] at c
      rw [← c.1]; exact he.1
    rcases exact_unique h.mono k (fun e => e.linAt == k && isExact e) hretk with hnil | ⟨e, hone⟩
    · -- nothing takes effect at k: the observer's state does not move
      rw [hnil]
      simp only [replay]
      rcases h.silent k hklt with heq | ⟨e, hmem, hret, hex⟩
      · rw [hst1, hst] at heq; cases heq; rfl
      · exfalso
        have : e ∈ s.log.filter (fun e => e.linAt == k && isExact e) := by
          apply List.mem_filter.mpr
          refine ⟨hmem, ?_⟩
          obtain ⟨_, _, s0, s1, a, b, c⟩ := (h.ev e hmem).1
          simp only [hex] at c
          simp [isExact, hex, c.1, hret]
        rw [hnil] at this
        cases this
    · rw [hone]
      have hmem : e ∈ s.log.filter (fun e => e.linAt == k && isExact e) := by rw [hone]; exact List.mem_cons_self
      obtain ⟨hlog, hp⟩ := List.mem_filter.mp hmem
      simp only [Bool.and_eq_true, beq_iff_eq] at hp
      have hex := how_exact hp.2
      have hret := hretk e hlog (by simp [hp.1, hp.2])
      obtain ⟨_, _, s0, s1, a, b, c⟩ := (h.ev e hlog).1
      simp only [hex] at c
      rw [hret, hst] at a
      rw [hret, hst1] at b
      cases a; cases b
      simp only [replay, hex]
      simp [c.2]

end Feox.Conc

namespace Feox.Conc

/-- a filter split into three mutually exclusive parts -/
theorem filter_three {α} (p q r t : α → Bool) (l : List α)
    (h : ∀ x, (t x = true ∧ p x = true ∧ q x = false ∧ r x = false) ∨ (t x = true ∧ p x = false ∧ q x = true ∧ r x = false) ∨
              (t x = true ∧ p x = false ∧ q x = false ∧ r x = true) ∨ (t x = false ∧ p x = false ∧ q x = false ∧ r x = false)) :
    (l.filter p ++ (l.filter q ++ l.filter r)).Perm (l.filter t) := by
  induction l with
  | nil => simp
  | cons x xs ih =>
    rcases h x with ⟨ht, hp, hq, hr⟩ | ⟨ht, hp, hq, hr⟩ | ⟨ht, hp, hq, hr⟩ | ⟨ht, hp, hq, hr⟩
    · simp only [List.filter_cons, ht, hp, hq, hr, if_true, Bool.false_eq_true, if_false, List.cons_append]
      exact List.Perm.cons x ih
    · simp only [List.filter_cons, ht, hp, hq, hr, if_true, Bool.false_eq_true, if_false, List.cons_append]
      exact (List.perm_middle).trans (List.Perm.cons x ih)
    · simp only [List.filter_cons, ht, hp, hq, hr, if_true, Bool.false_eq_true, if_false]
      rw [← List.append_assoc]
      refine (List.perm_middle).trans (List.Perm.cons x ?_)
      rw [List.append_assoc]
      exact ih
    · simp only [List.filter_cons, ht, hp, hq, hr, Bool.false_eq_true, if_false]
      exact ih

/-- splitting a filter by position: below `K`, then the two halves of position `K` -/
theorem filter_split (log : List Event) (K : Nat) :
    (log.filter (fun e => decide (e.linAt < K)) ++ bucket log K).Perm (log.filter (fun e => decide (e.linAt < K + 1))) := by
  apply filter_three
  intro e
  by_cases h1 : e.linAt < K
  · left
    have : ¬ e.linAt = K := by omega
    simp [h1, this, Nat.lt_succ_of_lt h1]
  · by_cases h3 : e.linAt = K
    · cases hx : isExact e
      · right; left; simp [h3, hx]
      · right; right; left; simp [h3, hx]
    · right; right; right
      have : ¬ e.linAt < K + 1 := by omega
      simp [h1, h3, this]

theorem linUpTo_perm (log : List Event) : ∀ K, (linUpTo log K).Perm (log.filter (fun e => decide (e.linAt < K))) := by
  intro K
  induction K with
  | zero => simp [linUpTo]
  | succ K ih =>
    simp only [linUpTo]
    exact (List.Perm.append_right _ ih).trans (filter_split log K)

theorem mem_linUpTo {log : List Event} {K : Nat} {e : Event} (h : e ∈ linUpTo log K) : e.linAt < K := by
  have := (linUpTo_perm log K).mem_iff.mp h
  simpa using (List.mem_filter.mp this).2

theorem mem_bucket {log : List Event} {K : Nat} {e : Event} (h : e ∈ bucket log K) : e.linAt = K := by
  simp only [bucket, List.mem_append, List.mem_filter, Bool.and_eq_true, beq_iff_eq] at h
  rcases h with h | h <;> exact h.2.1

/-- the constructed order is sorted by linearisation point -/
theorem linUpTo_sorted (log : List Event) : ∀ K, (linUpTo log K).Pairwise (fun a b => a.linAt ≤ b.linAt) := by
  intro K
  induction K with
  | zero => exact List.Pairwise.nil
  | succ K ih =>
    simp only [linUpTo]
    rw [List.pairwise_append]
    refine ⟨ih, pairwise_of_forall _ (fun a ha b hb => by rw [mem_bucket ha, mem_bucket hb]; exact Nat.le_refl _), ?_⟩
    intro a ha b hb
    rw [mem_bucket hb]
    exact Nat.le_of_lt (mem_linUpTo ha)

end Feox.Conc
