/-!
# Conc.Reserve — `reserve_memory` under contention

`operations.rs reserve_memory`: with a limit, a thread loads the usage counter, computes
`next = current + amount`, refuses if `next > limit`, else `compare_exchange_weak(current, next)`
and retries with the observed value on failure; without a limit it `fetch_add`s.  Releases
(`release_memory`, a dropped reservation, deletes, expiry) `fetch_sub`.  Any number of threads,
any interleaving of their loads, compare-exchanges and releases.
-/
namespace Feox.Conc.Reserve

inductive Pc
  | idle
  | loaded (amount cur : Nat)      -- has read `cur`, about to compare-exchange
  deriving DecidableEq, Repr

structure State where
  usage : Nat := 0
  limit : Option Nat := none
  granted : Nat := 0          -- ghost: total amount granted so far
  released : Nat := 0         -- ghost: total amount released so far
  base : Nat := 0             -- ghost: usage at the start
  deriving DecidableEq, Repr

inductive Ev
  | load (t amount : Nat)          -- thread `t` starts a reservation: reads the counter (or fetch_adds without a limit)
  | cas (t : Nat) (spurious : Bool) -- thread `t` compare-exchanges (a weak CAS may fail spuriously)
  | release (amount : Nat)         -- somebody gives `amount` back (only what was granted before)
  deriving DecidableEq, Repr

inductive Out | none | granted | refused | retry
  deriving DecidableEq, Repr

/-- thread-local program points, indexed by thread id -/
abbrev Pcs := Nat → Pc

def setPc (p : Pcs) (t : Nat) (x : Pc) : Pcs := fun j => if j = t then x else p j

def step (s : State) (p : Pcs) : Ev → State × Pcs × Out
  | .load t amount =>
    match p t with
    | .idle =>
      if amount = 0 then (s, p, .granted)
      else match s.limit with
        | none => ({ s with usage := s.usage + amount, granted := s.granted + amount }, p, .granted)
        | some _ => (s, setPc p t (.loaded amount s.usage), .none)
    | _ => (s, p, .none)
  | .cas t spurious =>
    match p t with
    | .loaded amount cur =>
      match s.limit with
      | some l =>
        if cur + amount > l then (s, setPc p t .idle, .refused)
        else if s.usage = cur ∧ !spurious then
          ({ s with usage := cur + amount, granted := s.granted + amount }, setPc p t .idle, .granted)
        else (s, setPc p t (.loaded amount s.usage), .retry)
      | none => (s, p, .none)
    | .idle => (s, p, .none)
  | .release amount =>
    if amount ≤ s.granted - s.released then
      ({ s with usage := s.usage - amount, released := s.released + amount }, p, .none)
    else (s, p, .none)

def run (s : State) (p : Pcs) : List Ev → State × Pcs
  | [] => (s, p)
  | e :: es => let r := step s p e; run r.1 r.2.1 es

/-- exact bookkeeping and the limit -/
structure Inv (s : State) : Prop where
  exact : s.usage + s.released = s.base + s.granted
  rel : s.released ≤ s.granted
  bound : ∀ l, s.limit = some l → s.usage ≤ l

theorem step_inv {s : State} {p : Pcs} (e : Ev) (h : Inv s) : Inv (step s p e).1 := by
  obtain ⟨h1, h2, h3⟩ := h
  cases e with
  | load t amount =>
    simp only [step]
    split
    · split
      · exact ⟨h1, h2, h3⟩
      · split
        · rename_i hl
          exact ⟨by simp; omega, by simp; omega, by intro l hl'; simp [hl] at hl'⟩
        · exact ⟨h1, h2, h3⟩
    · exact ⟨h1, h2, h3⟩
  | cas t spurious =>
    simp only [step]
    split
    · split
      · rename_i l hl
        split
        · exact ⟨h1, h2, h3⟩
        · rename_i hle
          split
          · rename_i heq
            refine ⟨by simp; omega, by simp; omega, ?_⟩
            intro l' hl'
            simp only [hl, Option.some.injEq] at hl'
            subst hl'
            simp; omega
          · exact ⟨h1, h2, h3⟩
      · exact ⟨h1, h2, h3⟩
    · exact ⟨h1, h2, h3⟩
  | release amount =>
    simp only [step]
    split
    · rename_i ha
      refine ⟨by simp; omega, by simp; omega, ?_⟩
      intro l hl
      have := h3 l hl
      simp; omega
    · exact ⟨h1, h2, h3⟩

theorem run_inv (es : List Ev) : ∀ (s : State) (p : Pcs), Inv s → Inv (run s p es).1 := by
  induction es with
  | nil => intro s p h; exact h
  | cons e es ih => intro s p h; exact ih _ _ (step_inv e h)

end Feox.Conc.Reserve
