/-!
# Conc.Reserve — `reserve_memory` under contention

`operations.rs reserve_memory`: with a limit, a thread loads the usage counter, computes
`next = current + amount`, refuses if `next > limit`, else `compare_exchange_weak(current, next)`
and retries with the observed value on failure; without a limit it `fetch_add`s.  Releases
(`release_memory`, a dropped reservation, deletes, expiry) `fetch_sub`.  Any number of threads,
any interleaving of their loads, compare-exchanges and releases.
-/
namespace Feox.Conc.Reserve

inductive Pc
  | idle
  | loaded (amount cur : Nat)      -- has read `cur`, about to compare-exchange
  deriving DecidableEq, Repr

structure State where
  usage : Nat := 0
  limit : Option Nat := none
  granted : Nat := 0          -- ghost: total amount granted so far
  released : Nat := 0         -- ghost: total amount released so far
  base : Nat := 0             -- ghost: usage at the start
  deriving DecidableEq, Repr

inductive Ev
  | load (t amount : Nat)          -- thread `t` starts a reservation: reads the counter (or fetch_adds without a limit)
  | cas (t : Nat) (spurious : Bool) -- thread `t` compare-exchanges (a weak CAS may fail spuriously)
  | release (amount : Nat)         -- somebody gives `amount` back (only what was granted before)
  deriving DecidableEq, Repr

inductive Out | none | granted | refused | retry
  deriving DecidableEq, Repr

/-- thread-local program points, indexed by thread id -/
abbrev Pcs := Nat → Pc

def setPc (p : Pcs) (t : Nat) (x : Pc) : Pcs := fun j => if j = t then x else p j

def step (s : State) (p : Pcs) : Ev → State × Pcs × Out
  | .load t amount =>
    match p t with
    | .idle =>
      if amount = 0 then (s, p, .granted)
      else match s.limit with
        | none => ({ s with usage := s.usage + amount, granted := s.granted + amount }, p, .granted)
        | some _ => (s, setPc p t (.loaded amount s.usage), .none)
    | _ => (s, p, .none)
  | .cas t spurious =>
    match p t with
    | .loaded amount cur =>
      match s.limit with
      | some l =>
        if cur + amount > l then (s, setPc p t .idle, .refused)
        else if s.usage = cur ∧ !spurious then
          ({ s with usage := cur + amount, granted := s.granted + amount }, setPc p t .idle, .granted)
        else (s, setPc p t (.loaded amount s.usage), .retry)
      | none => (s, p, .none)
    | .idle => (s, p, .none)
  | .release amount =>
    if amount ≤ s.granted - s.released then
      ({ s with usage := s.usage - amount, released := s.released + amount }, p, .none)
    else (s, p, .none)

def run (s : State) (p : Pcs) : List Ev → State × Pcs
  | [] => (s, p)
  | e :: es => let r := step s p e; run r.1 r.2.1 es

/-- exact bookkeeping and the limit -/
structure Inv (s : State) : Prop where
  exact : s.usage + s.released = s.base + s.granted
  rel : s.released ≤ s.granted
  bound : ∀ l, s.limit = some l → s.usage ≤ l

theorem step_inv {s : State} {p : Pcs} (e : Ev) (h : Inv s) : Inv (step s p e).1 := by
  obtain ⟨h1, h2, h3⟩ := h
  cases e with
  | load t amount =>
    simp only [step]
    split
    · split
      · exact ⟨h1, h2, h3⟩
      · split
        · rename_i hl
          exact ⟨by simp; omega, by simp; omega, by intro l hl'; simp [hl] at hl'⟩
        · exact ⟨h1, h2, h3⟩
    · exact ⟨h1, h2, h3⟩
  | cas t spurious =>
    simp only [step]
    split
    · split
      · rename_i l hl
        split
        · exact ⟨h1, h2, h3⟩
        · rename_i hle
          split
          · rename_i heq
            refine ⟨by simp; omega, by simp; omega, ?_⟩
            intro l' hl'
            simp only [hl, Option.some.injEq] at hl'
            subst hl'
            simp; omega
          · exact ⟨h1, h2, h3⟩
      · exact ⟨h1, h2, h3⟩
    · exact ⟨h1, h2, h3⟩
  | release amount =>
    simp only [step]
    split
    · rename_i ha
      refine ⟨by simp; omega, by simp; omega, ?_⟩
      intro l hl
      have := h3 l hl
      simp; omega
    · exact ⟨h1, h2, h3⟩

theorem run_inv (es : List Ev) : ∀ (s : State) (p : Pcs), Inv s → Inv (run s p es).1 := by
  induction es with
  | nil => intro s p h; exact h
  | cons e es ih => intro s p h; exact ih _ _ (step_inv e h)

end Feox.Conc.Reserve

/-! ### two ways to get the reservation loop wrong (witnesses)

`Feox.Conc.Reserve` proves that the loop as written — load, check `cur + amount ≤ limit`,
compare-exchange against the value just checked, on failure start again from the observed value
*and check again* — never lets usage exceed the limit.  Both ingredients are needed: -/
namespace Feox.Conc.Reserve.Broken

inductive BPc
  | idle
  | first (amount cur : Nat)       -- loaded, limit not yet checked against `cur`
  | rebased (amount cur : Nat)     -- lost a compare-exchange and took the observed value over
  deriving DecidableEq, Repr

structure B where
  usage : Nat
  limit : Nat
  pcs : List BPc                   -- one program point per thread
  deriving DecidableEq, Repr

inductive BEv
  | load (t amount : Nat)
  | cas (t : Nat)
  deriving DecidableEq, Repr

/-- **check, then add**: the limit is checked against the loaded value, the amount is then
*added* to whatever the counter holds by now (seeded change C13-s1) -/
def stepCheckThenAdd (b : B) : BEv → B
  | .load t a => { b with pcs := b.pcs.set t (.first a b.usage) }
  | .cas t =>
    match b.pcs.getD t .idle with
    | .first a cur => if cur + a > b.limit then { b with pcs := b.pcs.set t .idle }
                      else { b with usage := b.usage + a, pcs := b.pcs.set t .idle }
    | _ => b

/-- **re-base without re-checking**: a thread that loses the compare-exchange gives up only if the
observed usage is already at the limit; otherwise it takes the observed value over and its next
compare-exchange adds the amount unchecked (seeded change C13-5) -/
def stepRebase (b : B) : BEv → B
  | .load t a => { b with pcs := b.pcs.set t (.first a b.usage) }
  | .cas t =>
    match b.pcs.getD t .idle with
    | .first a cur =>
      if cur + a > b.limit then { b with pcs := b.pcs.set t .idle }
      else if b.usage = cur then { b with usage := cur + a, pcs := b.pcs.set t .idle }
      else if b.usage ≥ b.limit then { b with pcs := b.pcs.set t .idle }
      else { b with pcs := b.pcs.set t (.rebased a b.usage) }
    | .rebased a cur =>
      if b.usage = cur then { b with usage := cur + a, pcs := b.pcs.set t .idle }
      else if b.usage ≥ b.limit then { b with pcs := b.pcs.set t .idle }
      else { b with pcs := b.pcs.set t (.rebased a b.usage) }
    | .idle => b

def start : B := { usage := 0, limit := 10, pcs := [.idle, .idle, .idle] }

/-- two writers of 6 under a limit of 10: both pass the check against 0, both add -/
theorem check_then_add_exceeds :
    ([.load 0 6, .load 1 6, .cas 0, .cas 1].foldl stepCheckThenAdd start).usage = 12 := by decide

/-- three writers of 4 under a limit of 10: the third loses twice, sees 8 < 10, and adds -/
theorem rebase_without_recheck_exceeds :
    ([.load 0 4, .load 1 4, .load 2 4, .cas 0, .cas 1, .cas 1, .cas 2, .cas 2].foldl stepRebase start).usage = 12 := by decide

/-- the loop as written refuses the third writer on the same schedule -/
theorem same_schedule_is_refused :
    let s0 : State := { limit := some 10 }
    let evs : List Ev := [.load 0 4, .load 1 4, .load 2 4, .cas 0 false, .cas 1 false, .cas 1 false, .cas 2 false, .cas 2 false]
    (run s0 (fun _ => .idle) evs).1.usage = 8 := by decide

end Feox.Conc.Reserve.Broken
