/-!
# Conc — one key of the store under concurrent callers

`src/core/store/{operations,internal,atomic,json_patch}.rs` at the granularity of their shared
accesses: a version-clock read-modify-write (`VersionClock::next`), an optimistic index read
(`hash_table.read`), a read of a retired generation's `retirement_timestamp()`, and a *guarded
step* (`hash_table.entry(key)`: everything done while the bucket entry is held is one atomic step
— the atomicity of that guard is the one concurrency assumption of this model).  Every other
action of a call is thread-local.  A scheduler picks which thread performs its next step.

Generations are immutable once published except for `retired_at` (set once by the delete that
removes the key) and the successor link (set once by the write that replaces the generation);
they are kept in an append-only list and named by their index (pointer identity in the code).

Memory-only view: a value is read from the generation itself (the persistent read path is C08's
subject), TTLs are off.
-/
namespace Feox.Conc

inductive Kind | raw | num | json
  deriving DecidableEq, Repr, Inhabited

/-- a value: 8-byte values are counters (`num`), JSON documents `{"n": n}` are `json` -/
structure V where
  kind : Kind
  n : Int
  deriving DecidableEq, Repr, Inhabited

def i64Max : Int := 9223372036854775807
def i64Min : Int := -9223372036854775808

/-- `i64::saturating_add` -/
def satAdd (a d : Int) : Int :=
  let s := a + d
  if s > i64Max then i64Max else if s < i64Min then i64Min else s

/-! ### the sequential specification of one key (last writer wins) -/

structure Entry where
  ts : Nat
  v : V
  deriving DecidableEq, Repr

/-- an operation with the timestamp it ended up using -/
inductive Op
  | get
  | insert (v : V) (ts : Nat)
  | delete (ts : Nat)
  | cas (exp new : V) (ts : Nat)
  | incr (d : Int) (ts : Nat) (expl : Bool)
  | ifAbsent (v : V) (ts : Nat)
  | patch (c : Int) (ts : Nat)
  deriving DecidableEq, Repr

inductive Resp
  | value (v : V)
  | notFound
  | created          -- insert: `Ok(true)`
  | updated          -- insert: `Ok(false)`
  | older            -- `Err(OlderTimestamp)`
  | deleted          -- delete: `Ok(())`
  | swapped          -- CAS / insert_if_absent: `Ok(true)`
  | notSwapped       -- CAS / insert_if_absent: `Ok(false)`
  | counter (n : Int)
  | invalidOp        -- increment of a non-counter
  | patched
  | patchErr         -- patch of a non-JSON value
  deriving DecidableEq, Repr

/-- the sequential store, one key -/
def Spec.apply (s : Option Entry) : Op → Option Entry × Resp
  | .get => (s, match s with | none => .notFound | some e => .value e.v)
  | .insert v ts =>
    match s with
    | none => (some ⟨ts, v⟩, .created)
    | some e => if ts ≤ e.ts then (s, .older) else (some ⟨ts, v⟩, .updated)
  | .delete ts =>
    match s with
    | none => (s, .notFound)
    | some e => if ts ≤ e.ts then (s, .older) else (none, .deleted)
  | .cas exp new ts =>
    match s with
    | none => (s, .notSwapped)
    | some e =>
      if e.v ≠ exp then (s, .notSwapped)
      else if ts ≤ e.ts then (s, .older) else (some ⟨ts, new⟩, .swapped)
  | .incr d ts expl =>
    match s with
    | none => (some ⟨ts, ⟨.num, d⟩⟩, .counter d)
    | some e =>
      if expl && decide (ts ≤ e.ts) then (s, .older)
      else if e.v.kind ≠ .num then (s, .invalidOp)
      else if ts ≤ e.ts then (s, .older)
      else (some ⟨ts, ⟨.num, satAdd e.v.n d⟩⟩, .counter (satAdd e.v.n d))
  | .ifAbsent v ts =>
    match s with
    | none => (some ⟨ts, v⟩, .swapped)
    | some _ => (s, .notSwapped)
  | .patch c ts =>
    match s with
    | none => (s, .notFound)
    | some e =>
      if ts ≤ e.ts then (s, .older)
      else if e.v.kind ≠ .json then (s, .patchErr)
      else (some ⟨ts, ⟨.json, c⟩⟩, .patched)

/-! ### the concurrent system -/

structure Gen where
  ts : Nat
  v : V
  retiredAt : Nat := 0          -- `retired_at`: timestamp of the delete that removed it (0 = none)
  succ : Option Nat := none     -- `successor`
  deriving DecidableEq, Repr

structure Shared where
  gens : List Gen := []
  cur : Option Nat := none      -- the generation the index holds for the key
  clock : Nat := 0              -- the key's version-clock shard
  deriving DecidableEq, Repr

/-- `Record::retirement_timestamp`: the largest `retired_at` along the successor chain -/
def retTsAux (gens : List Gen) : Nat → Nat → Nat
  | 0, _ => 0
  | fuel + 1, i =>
    match gens[i]? with
    | none => 0
    | some g => max g.retiredAt (match g.succ with | none => 0 | some j => retTsAux gens fuel j)

def retTs (sh : Shared) (i : Nat) : Nat := retTsAux sh.gens sh.gens.length i

def genTs (sh : Shared) (i : Nat) : Nat := (sh.gens[i]?.map (·.ts)).getD 0
def genV (sh : Shared) (i : Nat) : V := (sh.gens[i]?.map (·.v)).getD default

/-- `VersionClock::next` with wall-clock reading `wall` -/
def clockNext (sh : Shared) (wall : Nat) : Shared × Nat :=
  let t := if wall > sh.clock then wall else sh.clock + 1
  ({ sh with clock := t }, t)

/-- `observe_published_timestamp` -/
def observe (clock ts : Nat) (expl : Bool) : Nat := if expl then max clock ts else clock

/-- publish a first generation for the key (`Entry::Vacant` → `insert_entry`) -/
def create (sh : Shared) (ts : Nat) (v : V) (expl : Bool) : Shared :=
  { gens := sh.gens ++ [{ ts := ts, v := v }], cur := some sh.gens.length, clock := observe sh.clock ts expl }

/-- replace generation `c` by a new one (`link_successor`, `entry.insert`) -/
def replace (sh : Shared) (c : Nat) (ts : Nat) (v : V) (expl : Bool) : Shared :=
  { gens := (sh.gens.modify c fun g => { g with succ := some sh.gens.length }) ++ [{ ts := ts, v := v }],
    cur := some sh.gens.length, clock := observe sh.clock ts expl }

/-- delete generation `c` (`retired_at.store`, `entry.remove`) -/
def remove (sh : Shared) (c : Nat) (ts : Nat) (expl : Bool) : Shared :=
  { gens := sh.gens.modify c fun g => { g with retiredAt := ts }, cur := none, clock := observe sh.clock ts expl }

/-- where a call is.  `obs`, `root`, `src` are generation indices read earlier. -/
inductive Pc
  | idle
  | insTs (v : V) (arg : Option Nat)
  | insRead (v : V) (ts : Nat) (expl : Bool)
  | insUpd (v : V) (ts : Nat) (expl : Bool) (obs : Nat)
  | insVac (v : V) (ts : Nat) (expl : Bool)
  | delTs (arg : Option Nat)
  | delGuard (ts : Nat) (expl : Bool)
  | get
  | casRead (exp new : V) (arg : Option Nat)
  | casTs (exp new : V) (arg : Option Nat) (obs : Nat)
  | casGuard (exp new : V) (ts : Nat) (expl : Bool) (obs : Nat)
  | incrRead (d : Int) (arg : Option Nat) (root : Option Nat)
  | incrVacRet (d : Int) (arg : Option Nat) (root : Option Nat)
  | incrVacTs (d : Int) (arg : Option Nat) (root : Option Nat) (retired : Nat)
  | incrVacGuard (d : Int) (arg : Option Nat) (root : Option Nat) (ts : Nat)
  | incrTs (d : Int) (arg : Option Nat) (root src : Nat) (new : Int)
  | incrGuard (d : Int) (arg : Option Nat) (root src : Nat) (new : Int) (ts : Nat)
  | ifAbsent (v : V)
  | patchTs (c : Int) (arg : Option Nat)
  | patchRead (c : Int) (ts : Nat) (expl : Bool) (observed : Option Nat)
  | patchChk1 (c : Int) (ts : Nat) (expl : Bool) (observed src : Nat)
  | patchChk2 (c : Int) (ts : Nat) (expl : Bool) (observed src : Nat)
  | patchGuard (c : Int) (ts : Nat) (expl : Bool) (observed src : Nat)
  deriving DecidableEq, Repr

/-- how a returned response relates to the sequential specification -/
inductive How
  | exact     -- the response and the effect are the specification's, applied at this very step
  | refused   -- a permitted conservative refusal: nothing changes
  | stale     -- a read-only response computed from the generation read at the call's last index read
  deriving DecidableEq, Repr

structure StepRes where
  sh : Shared
  pc : Pc
  ret : Option (Op × Resp) := none
  how : How := .exact

/-- an explicit timestamp argument: `Some(t)` with `t ≠ 0` -/
def explicitTs (arg : Option Nat) : Option Nat := arg.bind fun t => if t = 0 then none else some t

/-- one step of a thread at `pc`; `wall` is the wall clock it would read -/
def step (sh : Shared) (wall : Nat) : Pc → StepRes
  | .idle => { sh := sh, pc := .idle }
  /- insert / insert_with_timestamp -/
  | .insTs v arg =>
    match explicitTs arg with
    | some t => { sh := sh, pc := .insRead v t true }
    | none => let r := clockNext sh wall; { sh := r.1, pc := .insRead v r.2 false }
  | .insRead v ts expl =>
    match sh.cur with
    | some g =>
      if ts ≤ genTs sh g then { sh := sh, pc := .idle, ret := some (.insert v ts, .older) }
      else { sh := sh, pc := .insUpd v ts expl g }
    | none => { sh := sh, pc := .insVac v ts expl }
  | .insUpd v ts expl obs =>
    match sh.cur with
    | some c =>
      if c ≠ obs ∧ ts ≤ retTs sh obs then { sh := sh, pc := .idle, ret := some (.insert v ts, .older), how := .refused }
      else if ts ≤ genTs sh c then { sh := sh, pc := .idle, ret := some (.insert v ts, .older) }
      else { sh := replace sh c ts v expl, pc := .idle, ret := some (.insert v ts, .updated) }
    | none =>
      if ts ≤ retTs sh obs then { sh := sh, pc := .idle, ret := some (.insert v ts, .older), how := .refused }
      else { sh := sh, pc := .insRead v ts expl }
  | .insVac v ts expl =>
    match sh.cur with
    | none => { sh := create sh ts v expl, pc := .idle, ret := some (.insert v ts, .created) }
    | some _ => { sh := sh, pc := .insRead v ts expl }
  /- delete / delete_with_timestamp -/
  | .delTs arg =>
    match explicitTs arg with
    | some t => { sh := sh, pc := .delGuard t true }
    | none => let r := clockNext sh wall; { sh := r.1, pc := .delGuard r.2 false }
  | .delGuard ts expl =>
    match sh.cur with
    | some c =>
      if ts ≤ genTs sh c then { sh := sh, pc := .idle, ret := some (.delete ts, .older) }
      else { sh := remove sh c ts expl, pc := .idle, ret := some (.delete ts, .deleted) }
    | none => { sh := sh, pc := .idle, ret := some (.delete ts, .notFound) }
  /- get -/
  | .get =>
    match sh.cur with
    | some g => { sh := sh, pc := .idle, ret := some (.get, .value (genV sh g)) }
    | none => { sh := sh, pc := .idle, ret := some (.get, .notFound) }
  /- compare_and_swap -/
  | .casRead exp new arg =>
    match sh.cur with
    | none => { sh := sh, pc := .idle, ret := some (.cas exp new 0, .notSwapped) }
    | some g =>
      if genV sh g ≠ exp then { sh := sh, pc := .idle, ret := some (.cas exp new 0, .notSwapped) }
      else { sh := sh, pc := .casTs exp new arg g }
  | .casTs exp new arg obs =>
    match explicitTs arg with
    | some t => { sh := sh, pc := .casGuard exp new t true obs }
    | none => let r := clockNext sh wall; { sh := r.1, pc := .casGuard exp new r.2 false obs }
  | .casGuard exp new ts expl obs =>
    match sh.cur with
    | some c =>
      if c ≠ obs then { sh := sh, pc := .idle, ret := some (.cas exp new ts, .notSwapped), how := .refused }
      else if ts ≤ genTs sh c then { sh := sh, pc := .idle, ret := some (.cas exp new ts, .older) }
      else { sh := replace sh c ts new expl, pc := .idle, ret := some (.cas exp new ts, .swapped) }
    | none => { sh := sh, pc := .idle, ret := some (.cas exp new ts, .notSwapped) }
  /- atomic_increment -/
  | .incrRead d arg root =>
    match sh.cur with
    | none => { sh := sh, pc := .incrVacRet d arg root }
    | some g =>
      let root' := root.getD g
      match explicitTs arg with
      | some t =>
        if t ≤ genTs sh g then { sh := sh, pc := .idle, ret := some (.incr d t true, .older) }
        else if (genV sh g).kind ≠ .num then { sh := sh, pc := .idle, ret := some (.incr d t true, .invalidOp) }
        else { sh := sh, pc := .incrTs d arg root' g (satAdd (genV sh g).n d) }
      | none =>
        if (genV sh g).kind ≠ .num then { sh := sh, pc := .idle, ret := some (.incr d 0 false, .invalidOp) }
        else { sh := sh, pc := .incrTs d arg root' g (satAdd (genV sh g).n d) }
  | .incrVacRet d arg root =>
    { sh := sh, pc := .incrVacTs d arg root (match root with | none => 0 | some r => retTs sh r) }
  | .incrVacTs d arg root retired =>
    match explicitTs arg with
    | some t =>
      if t ≤ retired then { sh := sh, pc := .idle, ret := some (.incr d t true, .older), how := .refused }
      else { sh := sh, pc := .incrVacGuard d arg root t }
    | none =>
      let r := clockNext sh wall
      { sh := r.1, pc := .incrVacGuard d arg root (max r.2 (retired + 1)) }
  | .incrVacGuard d arg root ts =>
    match sh.cur with
    | some _ => { sh := sh, pc := .incrRead d arg root }
    | none =>
      let expl := (explicitTs arg).isSome
      { sh := create sh ts ⟨.num, d⟩ expl, pc := .idle, ret := some (.incr d ts expl, .counter d) }
  | .incrTs d arg root src new =>
    match explicitTs arg with
    | some t => { sh := sh, pc := .incrGuard d arg root src new t }
    | none => let r := clockNext sh wall; { sh := r.1, pc := .incrGuard d arg root src new r.2 }
  | .incrGuard d arg root src new ts =>
    let expl := (explicitTs arg).isSome
    match sh.cur with
    | some c =>
      if c ≠ src then
        if expl && decide (ts ≤ retTs sh root) then
          { sh := sh, pc := .idle, ret := some (.incr d ts expl, .older), how := .refused }
        else { sh := sh, pc := .incrRead d arg (some root) }
      else if ts ≤ genTs sh c then { sh := sh, pc := .idle, ret := some (.incr d ts expl, .older) }
      else { sh := replace sh c ts ⟨.num, new⟩ expl, pc := .idle, ret := some (.incr d ts expl, .counter new) }
    | none =>
      if expl && decide (ts ≤ retTs sh root) then
        { sh := sh, pc := .idle, ret := some (.incr d ts expl, .older), how := .refused }
      else { sh := sh, pc := .incrRead d arg (some root) }
  /- insert_if_absent -/
  | .ifAbsent v =>
    match sh.cur with
    | some _ => { sh := sh, pc := .idle, ret := some (.ifAbsent v 0, .notSwapped) }
    | none =>
      let r := clockNext sh wall
      { sh := create r.1 r.2 v false, pc := .idle, ret := some (.ifAbsent v r.2, .swapped) }
  /- json_patch -/
  | .patchTs c arg =>
    match explicitTs arg with
    | some t => { sh := sh, pc := .patchRead c t true none }
    | none => let r := clockNext sh wall; { sh := r.1, pc := .patchRead c r.2 false none }
  | .patchRead c ts expl observed =>
    match sh.cur with
    | none => { sh := sh, pc := .idle, ret := some (.patch c ts, .notFound) }
    | some g => { sh := sh, pc := .patchChk1 c ts expl (observed.getD g) g }
  | .patchChk1 c ts expl observed src =>
    if observed ≠ src ∧ ts ≤ retTs sh observed then
      { sh := sh, pc := .idle, ret := some (.patch c ts, .older), how := .refused }
    else if ts ≤ genTs sh src then
      -- `src` may have been replaced since the read: the comparison is with the generation read
      { sh := sh, pc := .idle, ret := some (.patch c ts, .older), how := .stale }
    else { sh := sh, pc := .patchChk2 c ts expl observed src }
  | .patchChk2 c ts expl observed src =>
    if observed ≠ src ∧ ts ≤ retTs sh observed then
      { sh := sh, pc := .idle, ret := some (.patch c ts, .older), how := .refused }
    else if (genV sh src).kind ≠ .json then
      { sh := sh, pc := .idle, ret := some (.patch c ts, .patchErr), how := .stale }
    else { sh := sh, pc := .patchGuard c ts expl observed src }
  | .patchGuard c ts expl observed src =>
    match sh.cur with
    | some cur =>
      if cur ≠ src then { sh := sh, pc := .patchRead c ts expl (some observed) }
      else if ts ≤ genTs sh cur then { sh := sh, pc := .idle, ret := some (.patch c ts, .older) }
      else { sh := replace sh cur ts ⟨.json, c⟩ expl, pc := .idle, ret := some (.patch c ts, .patched) }
    | none => { sh := sh, pc := .patchRead c ts expl (some observed) }

/-- the state a sequential observer sees -/
def abs (sh : Shared) : Option Entry :=
  sh.cur.bind fun i => sh.gens[i]?.map fun g => ⟨g.ts, g.v⟩

end Feox.Conc
