/-!
# Conc.Loops — retry loops bounded by counters

A `loop { match outcome { arm₁ … armₙ } }` in which every arm either leaves the loop or bumps a
counter and leaves once that counter equals the limit.  Which arm a round takes is up to the
environment (device errors, pending retirements …): the theorem quantifies over every sequence of
arm choices.  The arms of the real loops are extracted from the source by `tools/gen_loops.py`
(`Feox/Gen/Loops.lean`).
-/
namespace Feox.Conc.Loops

structure Arm where
  /-- the match pattern (and the side of a conditional exit) as written in the source -/
  name : String
  /-- leaves the loop unconditionally -/
  exits : Bool
  /-- counters incremented (index into the loop's counter list), in order -/
  bumps : List Nat
  /-- `if counter == LIMIT { break }` after the increments -/
  guard : Option Nat
  deriving Repr, DecidableEq

def bump (cs : List Nat) (c : Nat) : List Nat := cs.set c (cs.getD c 0 + 1)

/-- one round through arm `a`; `none` = the loop is left -/
def round (limit : Nat) (a : Arm) (cs : List Nat) : Option (List Nat) :=
  if a.exits then none
  else
    let cs' := a.bumps.foldl bump cs
    match a.guard with
    | some c => if cs'.getD c 0 = limit then none else some cs'
    | none => some cs'

/-- the loop is still running after the rounds `ch` (arm indices), with these counters -/
def survive (limit : Nat) (arms : List Arm) : List Nat → List Nat → Option (List Nat)
  | [], cs => some cs
  | i :: rest, cs =>
    match arms[i]? with
    | none => none
    | some a =>
      match round limit a cs with
      | none => none
      | some cs' => survive limit arms rest cs'

/-- an arm is bounded if it leaves, or bumps exactly the counter it compares (one of the `K`
counters of the loop) -/
def Arm.ok (K : Nat) (a : Arm) : Bool :=
  a.exits || (match a.guard with
    | some c => decide (c < K) && a.bumps == [c]
    | none => false)

theorem sum_set (l : List Nat) (i v : Nat) (h : i < l.length) : (l.set i v).sum + l.getD i 0 = l.sum + v := by
  induction l generalizing i with
  | nil => simp at h
  | cons x xs ih =>
    cases i with
    | zero => simp [List.set, List.getD]; omega
    | succ j =>
      have := ih j (by simpa using h)
      simp only [List.set, List.sum_cons, List.getD_cons_succ] at this ⊢
      omega

theorem sum_le_of_all_le (l : List Nat) (b : Nat) (h : ∀ i, i < l.length → l.getD i 0 ≤ b) : l.sum ≤ l.length * b := by
  induction l with
  | nil => simp
  | cons x xs ih =>
    have hx := h 0 (by simp)
    have hxs := ih (fun i hi => by have := h (i + 1) (by simpa using hi); simpa using this)
    simp only [List.sum_cons, List.length_cons, List.getD_cons_zero] at hx ⊢
    rw [Nat.succ_mul]; omega

/-- counters: one per index below `K`, each below the limit -/
def Inv (limit K : Nat) (cs : List Nat) : Prop := cs.length = K ∧ ∀ i, i < K → cs.getD i 0 < limit

theorem getD_set (l : List Nat) (i j v : Nat) (h : i < l.length) :
    (l.set i v).getD j 0 = if j = i then v else l.getD j 0 := by
  simp only [List.getD_eq_getElem?_getD, List.getElem?_set]
  by_cases hji : j = i
  · subst hji; simp [h]
  · have : ¬ i = j := fun e => hji e.symm
    simp [hji, this]

theorem round_inv {limit K : Nat} {a : Arm} {cs cs' : List Nat} (hok : a.ok K = true) (hi : Inv limit K cs)
    (hr : round limit a cs = some cs') : Inv limit K cs' ∧ cs'.sum = cs.sum + 1 := by
  unfold round at hr
  unfold Arm.ok at hok
  cases hex : a.exits with
  | true => simp [hex] at hr
  | false =>
    simp only [hex, Bool.false_or, Bool.false_eq_true, if_false] at hr hok
    cases hg : a.guard with
    | none => simp [hg] at hok
    | some c =>
      simp only [hg, Bool.and_eq_true, decide_eq_true_eq, beq_iff_eq] at hok
      obtain ⟨hcK, hb⟩ := hok
      rw [hg] at hr
      generalize hcs : a.bumps.foldl bump cs = cs1 at hr
      have hcs1 : cs1 = bump cs c := by rw [← hcs, hb]; rfl
      simp only at hr
      by_cases hne : cs1.getD c 0 = limit
      · rw [if_pos hne] at hr; cases hr
      · rw [if_neg hne] at hr
        cases hr
        subst hcs1
        have hlen : c < cs.length := by rw [hi.1]; exact hcK
        refine ⟨⟨by simp [bump, hi.1], ?_⟩, ?_⟩
        · intro i hiK
          unfold bump at hne ⊢
          rw [getD_set _ _ _ _ hlen] at hne ⊢
          by_cases hic : i = c
          · simp only [hic, if_true] at hne ⊢
            have := hi.2 c hcK
            omega
          · simp only [hic, if_false]
            exact hi.2 i hiK
        · unfold bump
          have := sum_set cs c (cs.getD c 0 + 1) hlen
          omega

theorem survive_inv {limit K : Nat} {arms : List Arm} (hok : ∀ a ∈ arms, a.ok K = true) :
    ∀ (ch cs cs' : List Nat), Inv limit K cs → survive limit arms ch cs = some cs' →
      Inv limit K cs' ∧ cs'.sum = cs.sum + ch.length := by
  intro ch
  induction ch with
  | nil => intro cs cs' hi h; simp [survive] at h; subst h; exact ⟨hi, by simp⟩
  | cons i rest ih =>
    intro cs cs' hi h
    simp only [survive] at h
    split at h
    · cases h
    · rename_i a ha
      split at h
      · cases h
      · rename_i cs1 hr
        have hmem : a ∈ arms := List.mem_of_getElem? ha
        obtain ⟨hi1, hs1⟩ := round_inv (hok a hmem) hi hr
        obtain ⟨hi2, hs2⟩ := ih cs1 cs' hi1 h
        refine ⟨hi2, ?_⟩
        simp only [List.length_cons]
        omega

/-- **A loop whose arms are all bounded leaves within `K · (limit − 1)` rounds**, whatever
outcome each round meets -/
theorem bounded (limit K : Nat) (arms : List Arm) (hok : arms.all (Arm.ok K) = true) (hl : 0 < limit)
    (ch cs : List Nat) (h : survive limit arms ch (List.replicate K 0) = some cs) :
    ch.length ≤ K * (limit - 1) := by
  have hok' : ∀ a ∈ arms, a.ok K = true := by simpa [List.all_eq_true] using hok
  have h0 : Inv limit K (List.replicate K 0) := by
    refine ⟨by simp, fun i hi => ?_⟩
    simp [List.getD_eq_getElem?_getD, hi, hl]
  obtain ⟨hinv, hsum⟩ := survive_inv hok' ch _ cs h0 h
  have hz : (List.replicate K 0).sum = 0 := by simp
  have hle := sum_le_of_all_le cs (limit - 1) (fun i hi => by
    have := hinv.2 i (by rw [← hinv.1]; exact hi)
    omega)
  rw [hinv.1] at hle
  omega

/-- and the bound matters: an arm that compares a counter it does not bump can be taken for ever -/
theorem unguarded_arm_runs_forever (limit : Nat) (n : Nat) :
    let arms : List Arm := [⟨"Err(retryable)", false, [1], some 0⟩]
    (survive (limit + 1) arms (List.replicate n 0) [0, 0]).isSome = true := by
  intro arms
  suffices h : ∀ n c, (survive (limit + 1) arms (List.replicate n 0) [0, c]).isSome = true from h n 0
  intro n
  induction n with
  | zero => intro c; simp [survive]
  | succ k ih =>
    intro c
    simp only [List.replicate_succ, survive]
    have : arms[0]? = some ⟨"Err(retryable)", false, [1], some 0⟩ := rfl
    simp only [this, round, Bool.false_eq_true, if_false, List.foldl_cons, List.foldl_nil, bump]
    simp only [List.getD_cons_succ, List.getD_cons_zero, List.set_cons_succ, List.set_cons_zero]
    exact ih (c + 1)

end Feox.Conc.Loops
