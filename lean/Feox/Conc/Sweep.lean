/-!
# Conc.Sweep — the TTL sweeper against concurrent writers

The sweeper samples entries without any lock (`sample_ttl_entries`), decides from the sampled
record's expiry and the time it read at the start of the batch, and only then takes the bucket
guard to remove the entry — if the entry still holds the very record it sampled
(`Arc::ptr_eq`) and that record is expired against the same time.  Writers may replace, delete or
re-create the key at any point in between, and the wall clock moves on.

`removed_was_current_and_expired`: whatever the interleaving, everything the sweeper ever removed
was, at the moment of the removal, the key's current generation and expired — so a key whose
latest generation is unexpired (or has no expiry) is never hidden or removed by the sweeper.
`unguarded_sweeper_removes_live_key` shows what the identity check is for.
-/
namespace Feox.Conc.Sweep

structure Gen where
  id : Nat
  /-- absolute expiry instant, 0 = none -/
  expiry : Nat
  deriving DecidableEq, Repr

def expiredAt (g : Gen) (t : Nat) : Bool := decide (0 < g.expiry) && decide (g.expiry < t)

structure St where
  cur : Option Gen := none
  now : Nat := 0
  nextId : Nat := 0
  /-- sweeper: the record it sampled and the time its batch started with -/
  seen : Option (Gen × Nat) := none
  /-- log: (generation removed, time of removal, what the entry held just before) -/
  removed : List (Gen × Nat × Option Gen) := []
  deriving Repr

inductive Ev
  | put (expiry : Nat)     -- a writer publishes a new generation (insert, update, TTL change, re-creation)
  | del                    -- a writer deletes the key
  | tick (d : Nat)         -- the wall clock advances
  | sample                 -- the sweeper reads the batch time and samples the entry
  | remove (guarded : Bool) -- the sweeper's removal step (`guarded` = with the identity check, as in the code)
  deriving Repr

def step (s : St) : Ev → St
  | .put e => { s with cur := some ⟨s.nextId, e⟩, nextId := s.nextId + 1 }
  | .del => { s with cur := none }
  | .tick d => { s with now := s.now + d }
  | .sample => { s with seen := s.cur.map fun g => (g, s.now) }
  | .remove guarded =>
    match s.seen with
    | none => s
    | some (g, t) =>
      if expiredAt g t then
        match s.cur with
        | some c =>
          if !guarded || c.id = g.id then
            { s with cur := none, seen := none, removed := (g, s.now, some c) :: s.removed }
          else { s with seen := none }
        | none => { s with seen := none }
      else { s with seen := none }

def run (s : St) (evs : List Ev) : St := evs.foldl step s

def Guarded : Ev → Prop
  | .remove g => g = true
  | _ => True

structure Inv (s : St) : Prop where
  /-- the sampled record was sampled no later than now, and is an existing generation -/
  seenOk : ∀ g t, s.seen = some (g, t) → t ≤ s.now ∧ g.id < s.nextId
  curOk : ∀ c, s.cur = some c → c.id < s.nextId
  /-- same identity, same generation -/
  ident : ∀ g t c, s.seen = some (g, t) → s.cur = some c → c.id = g.id → c = g
  /-- every removal hit the then-current generation, and that generation was expired at that time -/
  log : ∀ r ∈ s.removed, r.2.2 = some r.1 ∧ expiredAt r.1 r.2.1 = true

theorem inv_init : Inv {} := ⟨by simp, by simp, by simp, by simp⟩

theorem expiredAt_mono {g : Gen} {t t' : Nat} (h : expiredAt g t = true) (ht : t ≤ t') : expiredAt g t' = true := by
  simp only [expiredAt, Bool.and_eq_true, decide_eq_true_eq] at h ⊢
  exact ⟨h.1, by omega⟩

theorem step_inv {s : St} {e : Ev} (hi : Inv s) (hg : Guarded e) : Inv (step s e) := by
  cases e with
  | put x =>
    simp only [step]
    refine ⟨?_, ?_, ?_, hi.log⟩
    · intro g t h; have := hi.seenOk g t h; exact ⟨this.1, by simp; omega⟩
    · intro c h; simp at h; subst h; simp
    · intro g t c hs hc hid
      simp at hc; subst hc
      have := (hi.seenOk g t hs).2
      simp at hid; omega
  | del =>
    simp only [step]
    exact ⟨hi.seenOk, by simp, by simp, hi.log⟩
  | tick d =>
    simp only [step]
    refine ⟨?_, hi.curOk, hi.ident, hi.log⟩
    intro g t h; have := hi.seenOk g t h; exact ⟨by simp; omega, this.2⟩
  | sample =>
    simp only [step]
    refine ⟨?_, hi.curOk, ?_, hi.log⟩
    · intro g t h
      cases hc : s.cur with
      | none => simp [hc] at h
      | some c => simp [hc] at h; obtain ⟨rfl, rfl⟩ := h; exact ⟨Nat.le_refl _, hi.curOk c hc⟩
    · intro g t c hs hc _
      rw [hc] at hs
      simp only [Option.map_some, Option.some.injEq, Prod.mk.injEq] at hs
      exact hs.1
  | remove guarded =>
    have hgd : guarded = true := hg
    subst hgd
    simp only [step]
    cases hs : s.seen with
    | none => exact hi
    | some gt =>
      obtain ⟨g, t⟩ := gt
      simp only
      cases hex : expiredAt g t with
      | false => simp; exact ⟨by simp, hi.curOk, by simp, hi.log⟩
      | true =>
        simp only [if_true]
        cases hc : s.cur with
        | none => exact ⟨by simp, by simp, by simp, hi.log⟩
        | some c =>
          simp only [Bool.not_true, Bool.false_or, decide_eq_true_eq]
          by_cases hid : c.id = g.id
          · simp only [hid, if_true]
            refine ⟨by simp, by simp, by simp, ?_⟩
            intro r hr
            rcases List.mem_cons.mp hr with rfl | hr'
            · have hcg := hi.ident g t c hs hc hid
              exact ⟨by simp [hcg], expiredAt_mono hex (hi.seenOk g t hs).1⟩
            · exact hi.log r hr'
          · simp only [hid, if_false]
            exact ⟨by simp, fun c' h => hi.curOk c' (by simpa [hc] using h), by simp, hi.log⟩

theorem run_inv : ∀ (evs : List Ev) (s : St), Inv s → (∀ e ∈ evs, Guarded e) → Inv (run s evs) := by
  intro evs
  induction evs with
  | nil => intro s hi _; exact hi
  | cons e es ih =>
    intro s hi hg
    exact ih _ (step_inv hi (hg e (List.mem_cons_self ..))) (fun e' he' => hg e' (List.mem_cons_of_mem _ he'))

/-- **The sweeper removes only the current generation, and only when it is expired** — in any
interleaving with writers and the clock -/
theorem removed_was_current_and_expired (evs : List Ev) (hg : ∀ e ∈ evs, Guarded e) :
    ∀ r ∈ (run {} evs).removed, r.2.2 = some r.1 ∧ expiredAt r.1 r.2.1 = true :=
  (run_inv evs {} inv_init hg).log

/-- without the identity check a key re-written with a fresh expiry between the sample and the
removal disappears although its latest generation is unexpired -/
theorem unguarded_sweeper_removes_live_key :
    let s := run {} [.put 5, .tick 10, .sample, .put 1000, .remove false]
    s.cur = none ∧ s.removed = [(⟨0, 5⟩, 10, some ⟨1, 1000⟩)] ∧ expiredAt ⟨1, 1000⟩ 10 = false := by
  decide

/-- with it, the same schedule leaves the new generation in place -/
example : (run {} [.put 5, .tick 10, .sample, .put 1000, .remove true]).cur = some ⟨1, 1000⟩ := by decide
/-- and an undisturbed expired key is removed -/
example : (run {} [.put 5, .tick 10, .sample, .remove true]).cur = none := by decide

end Feox.Conc.Sweep
