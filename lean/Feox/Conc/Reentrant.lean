/-!
# Conc.Reentrant — why a lock taken again while held counts as a cycle

`parking_lot::RwLock` is writer-preferring: once a writer waits, new read acquisitions wait
behind it — also those of a thread that already holds a read lock.  A scan that holds the device
read lock and takes it again for every value it reads (seeded change C18-5) therefore stops for
ever as soon as a flush worker queues for the write lock in between.  `tools/gen_locks.py` reports
an acquisition of a lock that is already held as a self-edge, and `lock_order_acyclic` refuses it.
-/
namespace Feox.Conc.Reentrant

/-- a writer-preferring readers-writer lock -/
structure Lock where
  readers : Nat := 0            -- read guards alive
  writer : Bool := false        -- a write guard is alive
  waiting : Bool := false       -- a writer is queued
  deriving DecidableEq, Repr

inductive Op
  | read | unread | queueWrite | grantWrite | unwrite
  deriving DecidableEq, Repr

def enabled (l : Lock) : Op → Bool
  | .read => !l.writer && !l.waiting
  | .unread => decide (0 < l.readers)
  | .queueWrite => !l.waiting
  | .grantWrite => l.waiting && !l.writer && l.readers == 0
  | .unwrite => l.writer

def apply (l : Lock) : Op → Lock
  | .read => { l with readers := l.readers + 1 }
  | .unread => { l with readers := l.readers - 1 }
  | .queueWrite => { l with waiting := true }
  | .grantWrite => { l with waiting := false, writer := true }
  | .unwrite => { l with writer := false }

/-- two threads, each with the operations it still has to perform (in order) -/
structure Sys where
  lock : Lock := {}
  scan : List Op      -- the range scan
  flush : List Op     -- the flush worker
  deriving DecidableEq, Repr

def stuck (s : Sys) : Bool :=
  (match s.scan with | [] => true | o :: _ => !enabled s.lock o) &&
  (match s.flush with | [] => true | o :: _ => !enabled s.lock o) &&
  !(s.scan.isEmpty && s.flush.isEmpty)

/-- `true` = the scan moves, `false` = the flush worker moves -/
def run (s : Sys) : List Bool → Sys
  | [] => s
  | true :: rest => match s.scan with
    | o :: os => if enabled s.lock o then run { s with lock := apply s.lock o, scan := os } rest else run s rest
    | [] => run s rest
  | false :: rest => match s.flush with
    | o :: os => if enabled s.lock o then run { s with lock := apply s.lock o, flush := os } rest else run s rest
    | [] => run s rest

/-- the scan of C18-5: outer read lock, inner read lock per value, both released -/
def reentrantScan : List Op := [.read, .read, .unread, .unread]
def plainScan : List Op := [.read, .unread]
def worker : List Op := [.queueWrite, .grantWrite, .unwrite]

/-- **A re-entrant read acquisition deadlocks with a queued writer**: the scan takes the outer
lock, the worker queues, and neither can ever move again -/
theorem reentrant_read_deadlocks :
    stuck (run { scan := reentrantScan, flush := worker } [true, false]) = true := by decide

/-- without the nested acquisition every schedule of the two finishes (all 2⁶ schedules of six turns) -/
def allSchedules : Nat → List (List Bool)
  | 0 => [[]]
  | n + 1 => (allSchedules n).flatMap fun s => [true :: s, false :: s]

theorem plain_scan_never_stuck :
    (allSchedules 6).all (fun sch => !stuck (run { scan := plainScan, flush := worker } sch)) = true := by decide

end Feox.Conc.Reentrant
