import Feox.Conc.Sim
/-!
# Conc.Sys — any number of threads, any schedule; the history bookkeeping

`Sys.exec` runs a list of actions (a thread starts a call / a thread performs its next step).
Ghost state: `states` is the sequence of states a sequential observer would have seen (one per
action), `log` the calls that have returned, each with the position at which it was invoked, the
position at which it returned and its linearisation position.
-/
namespace Feox.Conc

structure Thread where
  pc : Pc := .idle
  invAt : Nat := 0
  readAt : Nat := 0
  deriving Repr

structure Event where
  tid : Nat
  op : Op
  resp : Resp
  how : How
  invAt : Nat
  linAt : Nat
  retAt : Nat
  deriving Repr

structure Sys where
  sh : Shared := {}
  threads : List Thread := []
  states : List (Option Entry) := [none]
  log : List Event := []

inductive Action
  | call (tid : Nat) (pc : Pc)
  | run (tid : Nat) (wall : Nat)
  deriving Repr

/-- the program points at which a call starts -/
def isEntry : Pc → Bool
  | .insTs _ _ => true
  | .delTs _ => true
  | .get => true
  | .casRead _ _ _ => true
  | .incrRead _ _ none => true
  | .ifAbsent _ => true
  | .patchTs _ _ => true
  | _ => false

/-- the step performs the index read a stale answer refers to -/
def isPatchRead : Pc → Bool
  | .patchRead _ _ _ _ => true
  | _ => false

def Sys.pos (s : Sys) : Nat := s.states.length - 1

def Sys.act (s : Sys) : Action → Sys
  | .call tid pc0 =>
    match s.threads[tid]? with
    | some th =>
      if th.pc = .idle ∧ isEntry pc0 then
        { s with threads := s.threads.set tid { pc := pc0, invAt := s.pos, readAt := s.pos },
                 states := s.states ++ [abs s.sh] }
      else { s with states := s.states ++ [abs s.sh] }
    | none => { s with states := s.states ++ [abs s.sh] }
  | .run tid wall =>
    match s.threads[tid]? with
    | some th =>
      let r := step s.sh wall th.pc
      let readAt := if isPatchRead th.pc then s.pos else th.readAt
      let th' : Thread := { pc := r.pc, invAt := th.invAt, readAt := readAt }
      { sh := r.sh
        threads := s.threads.set tid th'
        states := s.states ++ [abs r.sh]
        log := match r.ret with
          | none => s.log
          | some (op, resp) =>
            s.log ++ [{ tid := tid, op := op, resp := resp, how := r.how, invAt := th.invAt,
                        linAt := (match r.how with | .stale => th.readAt | _ => s.pos), retAt := s.pos }] }
    | none => { s with states := s.states ++ [abs s.sh] }

def Sys.exec (s : Sys) (as : List Action) : Sys := as.foldl Sys.act s

/-- `n` idle threads, empty store -/
def Sys.init (n : Nat) : Sys := { threads := List.replicate n {} }

end Feox.Conc
