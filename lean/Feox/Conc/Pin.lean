/-!
# Conc.Pin — the reader-pin / retired-bit handshake on one extent

`Record::extent_state` is one 32-bit word: bit 31 = *retired*, the rest = number of readers
inside a device read of this generation's extent.

* a reader (`load_value_from_disk`) does `acquire_extent` — refused once the bit is set
  (`StaleExtent`) — then `pread`s the extent, then drops its guard;
* the retirer (`process_deletions`, one at a time under the retirement queue) sets the bit
  (`retire_extent`), looks at the reader count (`extent_has_readers`), and only with no reader
  writes the retirement markers over the extent; after the markers are durable it looks again
  and returns the blocks to the free-space manager, after which another key's record may be
  written there.

Readers are anonymous here: `pinned` of them hold a pin and have not read yet, `reading` have
read and still hold the pin.
-/
namespace Feox.Conc.Pin

inductive Content | data | markers | reused
  deriving DecidableEq, Repr

/-- where the retirer is -/
inductive WPc | idle | bitSet | cleared | marked | freed
  deriving DecidableEq, Repr

structure State where
  readers : Nat := 0          -- the counter in the word
  retired : Bool := false     -- the bit in the word
  pinned : Nat := 0
  reading : Nat := 0
  content : Content := .data
  w : WPc := .idle
  deriving DecidableEq, Repr

inductive Ev
  | acquire        -- a reader's compare-exchange
  | pread          -- a pinned reader reads the extent
  | release        -- a reader that has read drops its guard
  | setBit         -- retirer: `retire_extent`
  | check          -- retirer: `extent_has_readers` before the markers
  | mark           -- retirer: markers written over the extent (journalled, durable)
  | recheck        -- retirer: `extent_has_readers` before the release
  | reuse          -- a later record write lands in the freed blocks
  deriving DecidableEq, Repr

/-- outcome of an event besides the new state: what a read saw / whether an acquire was refused -/
inductive Out | none | refused | saw (c : Content)
  deriving DecidableEq, Repr

/-- the handshake as an acceptor: `none` = the event is not enabled in this state -/
def step? (s : State) : Ev → Option (State × Out)
  | .acquire =>
    if s.retired then some (s, .refused)
    else some ({ s with readers := s.readers + 1, pinned := s.pinned + 1 }, .none)
  | .pread =>
    if s.pinned > 0 then some ({ s with pinned := s.pinned - 1, reading := s.reading + 1 }, .saw s.content) else none
  | .release =>
    if s.reading > 0 then some ({ s with reading := s.reading - 1, readers := s.readers - 1 }, .none) else none
  | .setBit =>
    match s.w with
    | .idle => some ({ s with retired := true, w := .bitSet }, .none)
    | _ => none
  | .check =>
    match s.w with
    | .bitSet => if s.readers = 0 then some ({ s with w := .cleared }, .none) else some ({ s with w := .idle }, .none)
    | _ => none
  | .mark =>
    match s.w with
    | .cleared => some ({ s with content := .markers, w := .marked }, .none)
    | _ => none
  | .recheck =>
    match s.w with
    | .marked => if s.readers = 0 then some ({ s with w := .freed }, .none) else some (s, .none)
    | _ => none
  | .reuse =>
    match s.w with
    | .freed => some ({ s with content := .reused }, .none)
    | _ => none

structure Inv (s : State) : Prop where
  count : s.readers = s.pinned + s.reading
  past : s.w = .cleared ∨ s.w = .marked ∨ s.w = .freed → s.readers = 0 ∧ s.retired = true
  bit : s.w = .bitSet → s.retired = true
  intact : s.content ≠ .data → s.w = .marked ∨ s.w = .freed

theorem inv_init : Inv {} := ⟨rfl, by simp, by simp, by simp⟩

theorem step_inv {s s' : State} {e : Ev} {o : Out} (h : Inv s) (hs : step? s e = some (s', o)) : Inv s' := by
  obtain ⟨hc, hp, hb, hi⟩ := h
  cases e <;> simp only [step?] at hs
  · -- acquire
    split at hs
    · cases hs; exact ⟨hc, hp, hb, hi⟩
    · rename_i hr
      cases hs
      refine ⟨by simp; omega, ?_, ?_, hi⟩
      · intro hw; have := (hp hw).2; simp_all
      · intro hw; have := hb hw; simp_all
  · -- pread
    split at hs
    · cases hs; exact ⟨by simp; omega, hp, hb, hi⟩
    · cases hs
  · -- release
    split at hs
    · cases hs
      refine ⟨by simp; omega, ?_, hb, hi⟩
      intro hw; have := hp hw; exact ⟨by simp; omega, this.2⟩
    · cases hs
  · -- setBit
    split at hs
    · cases hs
      exact ⟨hc, by simp, by simp, by intro hx; have := hi hx; simp_all⟩
    · cases hs
  · -- check
    split at hs
    · rename_i hw
      split at hs
      · rename_i h0
        cases hs
        exact ⟨hc, by intro _; exact ⟨h0, hb hw⟩, by simp, by intro hx; have := hi hx; simp_all⟩
      · cases hs
        exact ⟨hc, by simp, by simp, by intro hx; have := hi hx; simp_all⟩
    · cases hs
  · -- mark
    split at hs
    · rename_i hw
      cases hs
      exact ⟨hc, by intro _; exact hp (Or.inl hw), by simp, by intro _; exact Or.inl rfl⟩
    · cases hs
  · -- recheck
    split at hs
    · rename_i hw
      split at hs
      · cases hs
        exact ⟨hc, by intro _; exact hp (Or.inr (Or.inl hw)), by simp, by intro _; exact Or.inr rfl⟩
      · cases hs; exact ⟨hc, hp, hb, hi⟩
    · cases hs
  · -- reuse
    split at hs
    · rename_i hw
      cases hs
      exact ⟨hc, by intro _; exact hp (Or.inr (Or.inr hw)), by intro hx; simp_all, by intro _; exact Or.inr hw⟩
    · cases hs

/-- run a whole event sequence -/
def run? (s : State) : List Ev → Option State
  | [] => some s
  | e :: es => match step? s e with
    | some (s', _) => run? s' es
    | none => none

theorem run_inv {s s' : State} (es : List Ev) (h : Inv s) (hr : run? s es = some s') : Inv s' := by
  induction es generalizing s with
  | nil => simp [run?] at hr; subst hr; exact h
  | cons e es ih =>
    simp only [run?] at hr
    split at hr
    · rename_i s1 o hs; exact ih (step_inv h hs) hr
    · cases hr

end Feox.Conc.Pin
