import Feox.Conc.Sim
/-!
# Conc.Solo — obstruction freedom: a call that runs alone returns within a few steps

Every retry loop of the optimistic protocol (`insert`'s `KeyNotFound => continue`, the increment
and patch loops) re-reads the index; when no other thread takes a step in between, the
re-validation under the guard succeeds.  `rank` bounds the number of steps a call still needs
when it runs alone; every step that does not return lowers it.
-/
namespace Feox.Conc

def curIs (sh : Shared) (i : Nat) : Bool := sh.cur == some i

def rank (sh : Shared) : Pc → Nat
  | .idle => 0
  | .insTs _ _ => 5
  | .insRead _ _ _ => 3
  | .insUpd _ _ _ _ => if sh.cur.isSome then 1 else 4
  | .insVac _ _ _ => if sh.cur.isSome then 4 else 1
  | .delTs _ => 2
  | .delGuard _ _ => 1
  | .get => 1
  | .casRead _ _ _ => 3
  | .casTs _ _ _ _ => 2
  | .casGuard _ _ _ _ _ => 1
  | .incrRead _ _ _ => 4
  | .incrVacRet _ _ _ => if sh.cur.isSome then 7 else 3
  | .incrVacTs _ _ _ _ => if sh.cur.isSome then 6 else 2
  | .incrVacGuard _ _ _ _ => if sh.cur.isSome then 5 else 1
  | .incrTs _ _ _ src _ => if curIs sh src then 2 else 6
  | .incrGuard _ _ _ src _ _ => if curIs sh src then 1 else 5
  | .ifAbsent _ => 1
  | .patchTs _ _ => 9
  | .patchRead _ _ _ _ => 5
  | .patchChk1 _ _ _ _ src => if curIs sh src then 4 else 8
  | .patchChk2 _ _ _ _ src => if curIs sh src then 3 else 7
  | .patchGuard _ _ _ _ src => if curIs sh src then 1 else 6

/-- **Obstruction freedom**: a step either returns or strictly lowers the rank -/
theorem solo_progress (sh : Shared) (wall : Nat) (pc : Pc) (hne : pc ≠ .idle) :
    (step sh wall pc).ret.isSome = true ∨ rank (step sh wall pc).sh (step sh wall pc).pc < rank sh pc := by
  cases pc <;> simp only [step] <;> (repeat' split) <;> simp_all [rank, curIs, clockNext] <;>
    (repeat' split) <;> simp_all <;> omega

/-- a call reaches `idle` only by returning -/
theorem idle_only_by_return (sh : Shared) (wall : Nat) (pc : Pc) (hne : pc ≠ .idle)
    (h : (step sh wall pc).pc = .idle) : (step sh wall pc).ret.isSome = true := by
  cases pc <;> simp only [step] at h ⊢ <;> (repeat' split at h) <;> simp_all <;> (repeat' split) <;> simp_all

/-- run a thread alone -/
def solo (wall : Nat) : Nat → Shared → Pc → Shared × Pc × Option (Op × Resp)
  | 0, sh, pc => (sh, pc, none)
  | n + 1, sh, pc =>
    let r := step sh wall pc
    match r.ret with
    | some x => (r.sh, r.pc, some x)
    | none => solo wall n r.sh r.pc

theorem solo_returns (wall : Nat) : ∀ (n : Nat) (sh : Shared) (pc : Pc), pc ≠ .idle → rank sh pc ≤ n →
    (solo wall n sh pc).2.2.isSome = true := by
  intro n
  induction n with
  | zero =>
    intro sh pc hne hr
    cases pc <;> simp_all [rank] <;> (split at hr <;> omega)
  | succ n ih =>
    intro sh pc hne hr
    simp only [solo]
    cases hret : (step sh wall pc).ret with
    | some x => simp
    | none =>
      simp only
      have hp := solo_progress sh wall pc hne
      rw [hret] at hp
      simp at hp
      have hne' : (step sh wall pc).pc ≠ .idle := by
        intro hidle
        have := idle_only_by_return sh wall pc hne hidle
        rw [hret] at this
        simp at this
      exact ih _ _ hne' (by omega)

/-- every call returns within 9 of its own steps when no other thread interferes -/
theorem solo_terminates (sh : Shared) (wall : Nat) (pc : Pc) (hne : pc ≠ .idle) :
    (solo wall 9 sh pc).2.2.isSome = true := by
  apply solo_returns wall 9 sh pc hne
  cases pc <;> simp [rank] <;> (try split) <;> omega

end Feox.Conc
