import Feox.Conc.Sys
/-!
# Conc.Lin — the invariant that makes every history linearizable
-/
namespace Feox.Conc

/-- a returned call is explained by the observer's state sequence -/
def EventOk (states : List (Option Entry)) (e : Event) : Prop :=
  e.invAt ≤ e.linAt ∧ e.linAt ≤ e.retAt ∧
  ∃ s0 s1, states[e.retAt]? = some s0 ∧ states[e.retAt + 1]? = some s1 ∧
    match e.how with
    | .exact => e.linAt = e.retAt ∧ Spec.apply s0 e.op = (s1, e.resp)
    | .refused => s1 = s0 ∧ (e.resp = .older ∨ e.resp = .notSwapped)
    | .stale => s1 = s0 ∧ ∃ sl, states[e.linAt]? = some sl ∧ Spec.apply sl e.op = (sl, e.resp)

structure ThInv (s : Sys) (th : Thread) : Prop where
  pcInv : PcInv s.sh th.pc
  inv_le : th.invAt ≤ th.readAt
  read_le : th.readAt ≤ s.pos
  stale : ∀ src, staleSrc th.pc = some src →
    s.states[th.readAt]? = some (some ⟨genTs s.sh src, genV s.sh src⟩)

structure Inv (s : Sys) : Prop where
  wf : WF s.sh
  ne : 0 < s.states.length
  last : s.states[s.pos]? = some (abs s.sh)
  th : ∀ (tid : Nat) (th : Thread), s.threads[tid]? = some th → ThInv s th
  ev : ∀ e ∈ s.log, EventOk s.states e ∧ e.retAt < s.pos
  silent : ∀ k, k < s.pos → (s.states[k + 1]? = s.states[k]? ∨ ∃ e ∈ s.log, e.retAt = k ∧ e.how = .exact)
  mono : s.log.Pairwise (fun a b => a.retAt < b.retAt)
  first : s.states[0]? = some none

theorem EventOk.mono {st : List (Option Entry)} {e : Event} (x : Option Entry) (h : EventOk st e) :
    EventOk (st ++ [x]) e := by
  obtain ⟨h1, h2, s0, s1, a, b, c⟩ := h
  have la := (List.getElem?_eq_some_iff.mp a).1
  have lb := (List.getElem?_eq_some_iff.mp b).1
  refine ⟨h1, h2, s0, s1, by rw [List.getElem?_append_left la]; exact a, by rw [List.getElem?_append_left lb]; exact b, ?_⟩
  cases hh : e.how <;> simp only [hh] at c ⊢
  · exact c
  · exact c
  · obtain ⟨c1, sl, c2, c3⟩ := c
    have lc := (List.getElem?_eq_some_iff.mp c2).1
    exact ⟨c1, sl, by rw [List.getElem?_append_left lc]; exact c2, c3⟩

/-- which program points can precede a point that answers from a stale read -/
theorem step_staleSrc {sh : Shared} {wall : Nat} {pc : Pc} {src : Nat}
    (h : staleSrc (step sh wall pc).pc = some src) :
    (step sh wall pc).sh = sh ∧
    ((isPatchRead pc = true ∧ sh.cur = some src) ∨ (isPatchRead pc = false ∧ staleSrc pc = some src)) := by
  cases pc <;> simp only [step] at h ⊢ <;> (repeat' split at h) <;> simp_all [staleSrc, isPatchRead] <;>
    (repeat' split) <;> simp_all

end Feox.Conc

namespace Feox.Conc

theorem staleSrc_lt {sh : Shared} {pc : Pc} {src : Nat} (h : staleSrc pc = some src) (hp : PcInv sh pc) :
    src < sh.gens.length := by
  cases pc <;> simp [staleSrc] at h
  · subst h; exact hp
  · subst h; exact hp.1

theorem getElem?_snoc_lt {α} {l : List α} {x : α} {k : Nat} (h : k < l.length) : (l ++ [x])[k]? = l[k]? :=
  List.getElem?_append_left h

theorem getElem?_snoc_eq {α} {l : List α} {x : α} : (l ++ [x])[l.length]? = some x := by simp

theorem Inv.init (n : Nat) : Inv (Sys.init n) := by
  refine ⟨?_, by simp [Sys.init], by simp [Sys.init, Sys.pos, abs], ?_, by simp [Sys.init], by simp [Sys.init, Sys.pos], by simp [Sys.init], by simp [Sys.init]⟩
  · intro c hc; simp [Sys.init] at hc
  · intro tid th h
    have : th = {} := by
      simp only [Sys.init] at h
      have := List.getElem?_eq_some_iff.mp h
      obtain ⟨hl, he⟩ := this
      simp at he; exact he.symm
    subst this
    exact ⟨trivial, Nat.le_refl _, Nat.zero_le _, by intro src h; simp [staleSrc] at h⟩

/-- a step that does not change the shared state keeps every thread's invariant; only the
position moves -/
theorem ThInv.idle_step {s : Sys} {th : Thread} (x : Option Entry) (hne : 0 < s.states.length)
    {s' : Sys} (hsh : s'.sh = s.sh) (hst : s'.states = s.states ++ [x]) (h : ThInv s th) : ThInv s' th := by
  have hpos : s'.pos = s.pos + 1 := by simp [Sys.pos, hst]; omega
  refine ⟨by rw [hsh]; exact h.pcInv, h.inv_le, by rw [hpos]; exact Nat.le_succ_of_le h.read_le, ?_⟩
  intro src hsrc
  have := h.stale src hsrc
  rw [hst, hsh, getElem?_snoc_lt (by have := h.read_le; simp [Sys.pos] at this; omega)]
  exact this

end Feox.Conc

namespace Feox.Conc

/-- an action that leaves the shared state and the log alone (a call starting, an unknown thread) -/
theorem Inv.quiet {s s' : Sys} (h : Inv s) (hsh : s'.sh = s.sh) (hst : s'.states = s.states ++ [abs s.sh])
    (hlog : s'.log = s.log) (hth : ∀ (tid : Nat) (th : Thread), s'.threads[tid]? = some th → ThInv s' th) : Inv s' := by
  have hne := h.ne
  have hpos : s'.pos = s.pos + 1 := by simp [Sys.pos, hst]; omega
  have hlen : s.pos + 1 = s.states.length := by simp [Sys.pos]; omega
  refine ⟨by rw [hsh]; exact h.wf, by rw [hst]; simp, ?_, hth, ?_, ?_, by rw [hlog]; exact h.mono,
    by rw [hst, getElem?_snoc_lt hne]; exact h.first⟩
  · rw [hpos, hst, hlen, hsh]; exact getElem?_snoc_eq
  · intro e he
    rw [hlog] at he
    have := h.ev e he
    exact ⟨by rw [hst]; exact this.1.mono _, by rw [hpos]; exact Nat.lt_succ_of_lt this.2⟩
  · intro k hk
    rw [hpos] at hk
    rcases Nat.lt_succ_iff_lt_or_eq.mp hk with hk' | hk'
    · rw [hst, hlog, getElem?_snoc_lt (by omega), getElem?_snoc_lt (by omega)]
      exact h.silent k hk'
    · subst hk'
      left
      rw [hst, hlen, getElem?_snoc_eq, getElem?_snoc_lt (by omega)]
      exact h.last.symm

/-- the new log of a `run` action -/
def runLog (s : Sys) (tid : Nat) (th : Thread) (r : StepRes) : List Event :=
  match r.ret with
  | none => s.log
  | some (op, resp) =>
    s.log ++ [{ tid := tid, op := op, resp := resp, how := r.how, invAt := th.invAt,
                linAt := (match r.how with | .stale => th.readAt | _ => s.pos), retAt := s.pos }]

theorem Inv.run {s : Sys} (h : Inv s) (tid wall : Nat) (th : Thread) (hth : s.threads[tid]? = some th) :
    Inv { sh := (step s.sh wall th.pc).sh
          threads := s.threads.set tid { pc := (step s.sh wall th.pc).pc, invAt := th.invAt,
                                          readAt := if isPatchRead th.pc then s.pos else th.readAt }
          states := s.states ++ [abs (step s.sh wall th.pc).sh]
          log := runLog s tid th (step s.sh wall th.pc) } := by
  have hne := h.ne
  have hlen : s.pos + 1 = s.states.length := by simp [Sys.pos]; omega
  have hT := h.th tid th hth
  have hsim := step_sim wall th.pc h.wf hT.pcInv
  have hext := step_ext wall th.pc h.wf
  generalize hr : step s.sh wall th.pc = r at hsim hext ⊢
  have hpos' : ∀ (t : List Thread) (l : List Event),
      ({ sh := r.sh, threads := t, states := s.states ++ [abs r.sh], log := l } : Sys).pos = s.pos + 1 := by
    intro t l; simp [Sys.pos]; omega
  refine ⟨by rw [← hr]; exact step_wf wall th.pc h.wf, by simp, ?_, ?_, ?_, ?_, ?_,
    by show (s.states ++ [abs r.sh])[0]? = _; rw [getElem?_snoc_lt hne]; exact h.first⟩
  rotate_right
  · -- the log stays ordered by return position
    show (runLog s tid th r).Pairwise _
    simp only [runLog]
    split
    · exact h.mono
    · rw [List.pairwise_append]
      refine ⟨h.mono, by simp, ?_⟩
      intro a ha b hb
      simp only [List.mem_singleton] at hb
      subst hb
      exact (h.ev a ha).2
  · rw [hpos', hlen]; exact getElem?_snoc_eq
  · intro tid' th' hget
    simp only [List.getElem?_set] at hget
    split at hget
    · split at hget
      · cases hget
        refine ⟨by rw [← hr]; exact step_pcInv wall th.pc h.wf hT.pcInv, ?_, ?_, ?_⟩
        · dsimp only; split
          · exact Nat.le_trans hT.inv_le hT.read_le
          · exact hT.inv_le
        · rw [hpos']; dsimp only; split
          · exact Nat.le_succ _
          · exact Nat.le_succ_of_le hT.read_le
        · intro src hsrc
          dsimp only at hsrc ⊢
          rw [← hr] at hsrc
          obtain ⟨hsh, hcase⟩ := step_staleSrc hsrc
          rw [hr] at hsh
          rw [hsh]
          rcases hcase with ⟨hp, hcur⟩ | ⟨hp, hold⟩
          · simp only [hp, if_true]
            rw [getElem?_snoc_lt (by omega), h.last, abs_some hcur h.wf]
          · simp only [hp, Bool.false_eq_true, if_false]
            rw [getElem?_snoc_lt (by have := hT.read_le; omega)]
            exact hT.stale src hold
      · cases hget
    · have hO := h.th tid' th' hget
      refine ⟨hO.pcInv.ext hext, hO.inv_le, by rw [hpos']; exact Nat.le_succ_of_le hO.read_le, ?_⟩
      intro src hsrc
      have hlt := staleSrc_lt hsrc hO.pcInv
      have := hext.2 src hlt
      dsimp only
      rw [getElem?_snoc_lt (by have := hO.read_le; omega), this.1, this.2.1]
      exact hO.stale src hsrc
  · intro e he
    rw [hpos']
    simp only [runLog] at he
    have hold : ∀ e ∈ s.log, EventOk (s.states ++ [abs r.sh]) e ∧ e.retAt < s.pos + 1 := by
      intro e he
      exact ⟨(h.ev e he).1.mono _, Nat.lt_succ_of_lt (h.ev e he).2⟩
    cases hret : r.ret with
    | none => rw [hret] at he; exact hold e he
    | some p =>
      obtain ⟨op, resp⟩ := p
      rw [hret] at he
      rcases List.mem_append.mp he with he | he
      · exact hold e he
      · simp only [List.mem_singleton] at he
        subst he
        refine ⟨?_, Nat.lt_succ_self _⟩
        simp only [StepOk, hret] at hsim
        have h0 : (s.states ++ [abs r.sh])[s.pos]? = some (abs s.sh) := by
          rw [getElem?_snoc_lt (by omega)]; exact h.last
        have h1 : (s.states ++ [abs r.sh])[s.pos + 1]? = some (abs r.sh) := by
          rw [hlen]; exact getElem?_snoc_eq
        cases hhow : r.how with
        | exact =>
          simp only [hhow] at hsim
          exact ⟨Nat.le_trans hT.inv_le hT.read_le, Nat.le_refl _, _, _, h0, h1, rfl, hsim⟩
        | refused =>
          simp only [hhow] at hsim
          refine ⟨Nat.le_trans hT.inv_le hT.read_le, Nat.le_refl _, _, _, h0, h1, hsim.1, ?_⟩
          rcases hsim.2 with h2 | h2
          · exact Or.inl h2.1
          · exact Or.inr h2.1
        | stale =>
          simp only [hhow] at hsim
          obtain ⟨ha, src, hs1, hs2⟩ := hsim
          refine ⟨hT.inv_le, hT.read_le, _, _, h0, h1, ha, _, ?_, hs2⟩
          show (s.states ++ [abs r.sh])[th.readAt]? = _
          rw [getElem?_snoc_lt (by have := hT.read_le; omega)]
          exact hT.stale src hs1
  · intro k hk
    rw [hpos'] at hk
    rcases Nat.lt_succ_iff_lt_or_eq.mp hk with hk' | hk'
    · rcases h.silent k hk' with h2 | ⟨e, he, h2⟩
      · left
        dsimp only
        rw [getElem?_snoc_lt (by omega), getElem?_snoc_lt (by omega)]
        exact h2
      · right
        refine ⟨e, ?_, h2⟩
        simp only [runLog]
        split
        · exact he
        · exact List.mem_append_left _ he
    · subst hk'
      dsimp only
      rw [hlen, getElem?_snoc_eq, getElem?_snoc_lt (by omega), h.last]
      simp only [StepOk] at hsim
      cases hret : r.ret with
      | none => rw [hret] at hsim; left; rw [hsim]
      | some p =>
        obtain ⟨op, resp⟩ := p
        rw [hret] at hsim
        cases hhow : r.how with
        | exact =>
          right
          refine ⟨{ tid := tid, op := op, resp := resp, how := r.how, invAt := th.invAt,
                    linAt := (match r.how with | .stale => th.readAt | _ => s.pos), retAt := s.pos }, ?_, rfl, hhow⟩
          simp only [runLog, hret]
          exact List.mem_append_right _ (List.mem_singleton.mpr rfl)
        | refused => simp only [hhow] at hsim; left; rw [hsim.1]
        | stale => simp only [hhow] at hsim; left; rw [hsim.1]

theorem Inv.act {s : Sys} (h : Inv s) (a : Action) : Inv (s.act a) := by
  have hne := h.ne
  have hlen : s.pos + 1 = s.states.length := by simp [Sys.pos]; omega
  cases a with
  | call tid pc0 =>
    simp only [Sys.act]
    split
    · rename_i th hth
      split
      · rename_i hc
        refine h.quiet rfl rfl rfl ?_
        intro tid' th' hget
        simp only [List.getElem?_set] at hget
        split at hget
        · split at hget
          · cases hget
            have hpos : ({ s with threads := s.threads.set tid { pc := pc0, invAt := s.pos, readAt := s.pos },
                                   states := s.states ++ [abs s.sh] } : Sys).pos = s.pos + 1 := by
              simp [Sys.pos]; omega
            refine ⟨?_, Nat.le_refl _, by rw [hpos]; exact Nat.le_succ _, ?_⟩
            · cases pc0 <;> simp [isEntry] at hc <;> trivial
            · intro src hsrc
              cases pc0 <;> simp [isEntry, staleSrc] at hc hsrc
          · cases hget
        · exact (h.th tid' th' hget).idle_step (abs s.sh) hne rfl rfl
      · refine h.quiet rfl rfl rfl ?_
        intro tid' th' hget
        exact (h.th tid' th' hget).idle_step (abs s.sh) hne rfl rfl
    · refine h.quiet rfl rfl rfl ?_
      intro tid' th' hget
      exact (h.th tid' th' hget).idle_step (abs s.sh) hne rfl rfl
  | run tid wall =>
    simp only [Sys.act]
    split
    · rename_i th hth
      exact h.run tid wall th hth
    · refine h.quiet rfl rfl rfl ?_
      intro tid' th' hget
      exact (h.th tid' th' hget).idle_step (abs s.sh) hne rfl rfl

end Feox.Conc

namespace Feox.Conc

theorem Inv.exec {s : Sys} (h : Inv s) (as : List Action) : Inv (s.exec as) := by
  induction as generalizing s with
  | nil => exact h
  | cons a as ih => exact ih (h.act a)

/-- the invariant holds in every reachable state: any number of threads, any calls, any schedule -/
theorem reachable_inv (n : Nat) (as : List Action) : Inv ((Sys.init n).exec as) := (Inv.init n).exec as

end Feox.Conc
