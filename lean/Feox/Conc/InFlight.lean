/-!
# Conc.InFlight — `InFlightBuffers`: which write buffers may be freed

`src/storage/io.rs`: the buffers of one io_uring batch are owned by an `InFlightBuffers` set
with one *in-flight* bit per buffer (a `u128`).  `mark_in_flight(i)` is called before the
submission entry is pushed, `mark_unqueued(i)` when the push failed (the kernel never saw the
pointer), `mark_complete(i)` when the completion for `i` is consumed (returns whether the bit was
set).  `Drop` frees a buffer iff its bit is clear and *leaks* it otherwise ("a failed
`io_uring_enter` does not prove that the kernel released this pointer").
-/
namespace Feox.Conc.InFlight

/-- the set: `n` buffers pushed, one bit per index (the bit word is independent of `n`) -/
structure Set where
  n : Nat := 0
  bit : Nat → Bool := fun _ => false

inductive Op
  | push
  | markInFlight (i : Nat)
  | markUnqueued (i : Nat)
  | markComplete (i : Nat)
  deriving DecidableEq, Repr

def upd (f : Nat → Bool) (i : Nat) (b : Bool) : Nat → Bool := fun j => if j = i then b else f j

/-- one call; the Boolean is `mark_complete`'s result (false for the other calls) -/
def step (s : Set) : Op → Set × Bool
  | .push => ({ s with n := s.n + 1 }, false)
  | .markInFlight i => ({ s with bit := upd s.bit i true }, false)
  | .markUnqueued i => ({ s with bit := upd s.bit i false }, false)
  | .markComplete i => ({ s with bit := upd s.bit i false }, s.bit i)

def run (s : Set) (ops : List Op) : Set := ops.foldl (fun s o => (step s o).1) s

/-- `Drop`: buffer `i` is released iff it exists and its bit is clear; otherwise it is leaked -/
def released (s : Set) (i : Nat) : Bool := decide (i < s.n) && !s.bit i

/-! ### what the kernel may still be using

The submission protocol of `batch_write_inner`, seen from the kernel: a buffer is *held* from
a successful submission until its completion is consumed.  Every index is submitted at most
once (the loop over the chunk). -/

inductive Ev
  | push
  | submitOk (i : Nat)      -- `mark_in_flight(i)`, `sq.push` succeeded
  | submitFail (i : Nat)    -- `mark_in_flight(i)`, `sq.push` failed, `mark_unqueued(i)`
  | complete (i : Nat)      -- a completion carrying index `i` was consumed (`mark_complete(i)`)
  deriving DecidableEq, Repr

/-- the calls an event makes on the set -/
def calls : Ev → List Op
  | .push => [.push]
  | .submitOk i => [.markInFlight i]
  | .submitFail i => [.markInFlight i, .markUnqueued i]
  | .complete i => [.markComplete i]

/-- kernel view: `held i` = the kernel may still read buffer `i`; `sub i` = `i` was submitted -/
structure Kernel where
  held : Nat → Bool := fun _ => false
  sub : Nat → Bool := fun _ => false

def kstep (k : Kernel) : Ev → Kernel
  | .push => k
  | .submitOk i => { held := upd k.held i true, sub := upd k.sub i true }
  | .submitFail i => { k with sub := upd k.sub i true }
  | .complete i => { k with held := upd k.held i false }

/-- an event the submission loop can produce: an index is submitted at most once -/
def Allowed (k : Kernel) : Ev → Prop
  | .submitOk i => k.sub i = false
  | .submitFail i => k.sub i = false
  | _ => True

/-- the bits are the kernel's view, and only submitted buffers are held -/
structure Good (s : Set) (k : Kernel) : Prop where
  same : ∀ i, s.bit i = k.held i
  heldSub : ∀ i, k.held i = true → k.sub i = true

theorem good_init : Good {} {} := ⟨fun _ => rfl, fun _ h => by simp at h⟩

theorem good_step {s : Set} {k : Kernel} (e : Ev) (h : Good s k) (ha : Allowed k e) :
    Good (run s (calls e)) (kstep k e) := by
  obtain ⟨h1, h2⟩ := h
  cases e with
  | push => exact ⟨h1, h2⟩
  | submitOk i =>
    refine ⟨fun j => ?_, fun j => ?_⟩
    · simp only [run, calls, List.foldl, step, kstep, upd]; split <;> simp [h1]
    · simp only [kstep, upd]; split <;> simp_all
  | submitFail i =>
    refine ⟨fun j => ?_, fun j => ?_⟩
    · simp only [run, calls, List.foldl, step, kstep, upd]
      split
      · rename_i hj
        subst hj
        -- never submitted before, so not held
        cases hh : k.held j with
        | false => rfl
        | true => have := h2 j hh; simp [Allowed] at ha; simp_all
      · simp [h1]
    · simp only [kstep, upd]; intro hh; split <;> simp_all
  | complete i =>
    refine ⟨fun j => ?_, fun j => ?_⟩
    · simp only [run, calls, List.foldl, step, kstep, upd]; split <;> simp [h1]
    · simp only [kstep, upd]; split <;> simp_all

/-- run a whole protocol trace -/
def runEvs (s : Set) (k : Kernel) : List Ev → Set × Kernel
  | [] => (s, k)
  | e :: es => runEvs (run s (calls e)) (kstep k e) es

def AllAllowed (k : Kernel) : List Ev → Prop
  | [] => True
  | e :: es => Allowed k e ∧ AllAllowed (kstep k e) es

theorem good_run {s : Set} {k : Kernel} (es : List Ev) (h : Good s k) (ha : AllAllowed k es) :
    Good (runEvs s k es).1 (runEvs s k es).2 := by
  induction es generalizing s k with
  | nil => exact h
  | cons e es ih => exact ih (good_step e h ha.1) ha.2

end Feox.Conc.InFlight
