import Feox.Fsm.Model
/-! Line-protocol front end for the `Fsm` model (driver side of the correspondence check). -/
namespace Feox.Drv.FsmDrv
open Feox.Fsm

def errName : Err → String
  | .InvalidArgument => "InvalidArgument"
  | .OutOfSpace => "OutOfSpace"
  | .DuplicateKey => "DuplicateKey"
  | .CorruptedData => "CorruptedData"
  | .InvalidDevice => "InvalidDevice"

def stats (s : State) : String :=
  s!" total={getTotalFree s} largest={getLargestFree s} chunks={getFreeChunks s} frag={getFragmentation s}"

def resStr : Res → String
  | .unit => "ok"
  | .sector a => s!"ok {a}"
  | .err e => s!"err {errName e}"

/-- one protocol line → new state and the answer line; `none` = not a valid op line -/
def handle (s : State) (args : List String) : Option (State × String) :=
  let call : Option Call :=
    match args with
    | ["init", d] => d.toNat?.map Call.init
    | ["setsize", d] => d.toNat?.map Call.setSize
    | ["alloc", n] => n.toNat?.map Call.alloc
    | ["release", a, n] => do let a ← a.toNat?; let n ← n.toNat?; pure (Call.release a n)
    | _ => none
  match args with
  | ["new"] => some (Feox.Fsm.new, "ok" ++ stats Feox.Fsm.new)
  | ["runs"] => some (s, " ".intercalate (s.runs.map fun r => s!"{r.start}:{r.size}"))
  | _ =>
    match call with
    | none => none
    | some c =>
      let (r, s') := step s c
      some (s', resStr r ++ stats s')

end Feox.Drv.FsmDrv
