import Feox.Conc.Sys
import Feox.Conc.Sim
/-! Line-protocol front end for the `Conc` system (schedule-controlled trace validation). -/
namespace Feox.Drv.ConcDrv
open Feox.Conc

structure St where
  n : Nat := 0
  wall : Nat := 0
  keys : List (String × Sys) := []
  /-- version-clock shards: keys of one shard share a clock (the shard of a key is reported by
  the implementation on every line) -/
  clocks : List (String × Nat) := []
  /-- `size_of::<Record>()`, reported by the harness: the fixed part of a record's footprint -/
  recSize : Nat := 0

/-- program points the real code reaches a scheduling point before: every step that is not the
first of its call (and `incrRead`, whose loop head carries the point) -/
def isYield : Pc → Bool
  | .idle => false
  | .insTs _ _ => false
  | .delTs _ => false
  | .get => false
  | .casRead _ _ _ => false
  | .ifAbsent _ => false
  | .patchTs _ _ => false
  | _ => true

def kindOf : String → Option Kind
  | "raw" => some .raw
  | "num" => some .num
  | "json" => some .json
  | _ => none

def kindStr : Kind → String
  | .raw => "raw"
  | .num => "num"
  | .json => "json"

def tsArg (s : String) : Option (Option Nat) := if s == "-" then some none else s.toNat?.map some

def respStr : Resp → String
  | .value v => s!"value {kindStr v.kind} {v.n}"
  | .notFound => "notFound"
  | .created => "created"
  | .updated => "updated"
  | .older => "older"
  | .deleted => "deleted"
  | .swapped => "swapped"
  | .notSwapped => "notSwapped"
  | .counter n => s!"counter {n}"
  | .invalidOp => "invalidOp"
  | .patched => "patched"
  | .patchErr => "patchErr"

def parseOp : List String → Option Pc
  | ["ins", k, n, ts] => do
    let k ← kindOf k; let n ← n.toInt?; let ts ← tsArg ts
    pure (.insTs ⟨k, n⟩ ts)
  | ["del", ts] => do let ts ← tsArg ts; pure (.delTs ts)
  | ["get"] => some .get
  | ["cas", ek, en, nk, nn, ts] => do
    let ek ← kindOf ek; let en ← en.toInt?; let nk ← kindOf nk; let nn ← nn.toInt?; let ts ← tsArg ts
    pure (.casRead ⟨ek, en⟩ ⟨nk, nn⟩ ts)
  | ["incr", d, ts] => do let d ← d.toInt?; let ts ← tsArg ts; pure (.incrRead d ts none)
  | ["ifabs", k, n] => do let k ← kindOf k; let n ← n.toInt?; pure (.ifAbsent ⟨k, n⟩)
  | ["patch", c, ts] => do let c ← c.toInt?; let ts ← tsArg ts; pure (.patchTs c ts)
  | _ => none

def sysOf (st : St) (key shard : String) : Sys :=
  let s := (st.keys.lookup key).getD (Sys.init st.n)
  { s with sh := { s.sh with clock := (st.clocks.lookup shard).getD 0 } }

def putSys (st : St) (key shard : String) (s : Sys) : St :=
  { st with keys := (key, s) :: st.keys.filter (·.1 != key),
            clocks := (shard, s.sh.clock) :: st.clocks.filter (·.1 != shard) }

def pcOf (s : Sys) (tid : Nat) : Pc := (s.threads[tid]?.map (·.pc)).getD .idle

/-- run thread `tid` until it returns or stands before a scheduling point; `fuel` bounds the
number of model steps of one segment (a segment is at most a handful of steps) -/
def advance (wall : Nat) (tid : Nat) : Nat → Sys → Sys × Option Event
  | 0, s => (s, none)
  | fuel + 1, s =>
    let before := s.log.length
    let s1 := s.act (.run tid wall)
    if s1.log.length > before then (s1, s1.log.getLast?)
    else if isYield (pcOf s1 tid) then (s1, none)
    else advance wall tid fuel s1

/-- the call took effect: the timestamp of the generation it published is reported too -/
def accepted : Resp → Bool
  | .created | .updated | .swapped | .counter _ | .patched => true
  | _ => false

/-- length of a value's bytes in the harness encoding -/
def valueLen (v : V) : Nat :=
  match v.kind with
  | .raw => 11                                   -- "raw:" ++ sign ++ six digits
  | .num => 8
  | .json => 8 + (toString v.n).length           -- {"num":<n>}

/-- what `memory_usage()` / `len()` must be when no call is inside a guarded step: the footprints of
the keys that are present -/
def footprint (st : List (String × Sys)) (recSize : Nat) : Nat × Nat :=
  st.foldl (fun acc ks =>
    match abs ks.2.sh with
    | some e => (acc.1 + recSize + ks.1.length / 2 + valueLen e.v, acc.2 + 1)
    | none => acc) (0, 0)

def answer (s : Sys) (r : Option Event) : String :=
  let clock := s!" clock={s.sh.clock}"
  match r with
  | some e =>
    let ts := if accepted e.resp then s!" ts={opTs e.op}" else ""
    let how := match e.how with | .exact => "" | .refused => " #refused" | .stale => " #stale"
    "ret " ++ respStr e.resp ++ ts ++ clock ++ how
  | none => "at" ++ clock

def rsOf (rest : List String) : Nat :=
  (rest.findSome? fun a => if a.startsWith "rs=" then (a.drop 3).toString.toNat? else none).getD 0

/-- the answer line: the thread's outcome, the key's clock, and the store-wide accounting -/
def line (st : St) (key : String) (r : Option Event) : String :=
  let s := (st.keys.lookup key).getD (Sys.init st.n)
  let (m, n) := footprint st.keys st.recSize
  let a := answer s r
  -- keep the outcome-kind marker last
  match a.splitOn " #" with
  | [body, how] => s!"{body} mem={m} n={n} #{how}"
  | _ => s!"{a} mem={m} n={n}"

def handle (st : St) (args : List String) : Option (St × String) :=
  match args with
  | "new" :: n :: wall :: rest => do
    let n ← n.toNat?; let wall ← wall.toNat?
    pure ({ n := n, wall := wall, keys := [], clocks := [], recSize := rsOf rest }, "ok")
  | "call" :: tid :: key :: shard :: op => do
    let tid ← tid.toNat?
    let pc0 ← parseOp (op.filter (· != "bytes"))
    let s := sysOf st key shard
    if pcOf s tid != .idle then none else
    let s1 := s.act (.call tid pc0)
    if isYield pc0 then
      let st' := putSys st key shard s1
      pure (st', line st' key none)
    else
      let (s2, r) := advance st.wall tid 8 s1
      let st' := putSys st key shard s2
      pure (st', line st' key r)
  | ["run", tid, key, shard] => do
    let tid ← tid.toNat?
    let s := sysOf st key shard
    if pcOf s tid == .idle then none else
    let (s2, r) := advance st.wall tid 8 s
    let st' := putSys st key shard s2
    pure (st', line st' key r)
  | _ => none

end Feox.Drv.ConcDrv
