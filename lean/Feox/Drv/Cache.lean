import Feox.Cache.Model
import Feox.Drv.Fmt
/-! Line-protocol front end for the `Cache` model. -/
namespace Feox.Drv.CacheDrv
open Feox.Cache Feox.Fmt Feox.Drv.FmtDrv

def optGen (s : String) : Option (Option Nat) := if s == "-" then some none else s.toNat?.map some

def kvArg (args : List String) (key : String) : Option String :=
  args.findSome? fun a => if a.startsWith (key ++ "=") then some (a.drop (key.length + 1)).toString else none

def tail (s : State) : String := s!" | mem={s.mem}"

def handle (s : State) (args : List String) : Option (State × String) :=
  match args with
  | "new" :: rest => do
    let over ← (← kvArg rest "over").toNat?
    let st : State := mkState Feox.Gen.CACHE_BUCKETS over realHash
    pure (st, "ok" ++ tail st)
  | "gen" :: id :: rest => do
    let id ← id.toNat?
    let ts ← (← kvArg rest "ts").toNat?
    let cur ← kvArg rest "current"; let alive ← kvArg rest "alive"
    let st := setGen s id ⟨ts, cur == "1", alive == "1"⟩
    pure (st, "ok" ++ tail st)
  | ["ins", k, n, b, g] => do
    let k ← unhex k; let n ← n.toNat?; let b ← b.toNat?; let g ← optGen g
    let st := insert s k (List.replicate n (UInt8.ofNat b)) g
    pure (st, "ok" ++ tail st)
  | ["get", k, g] => do
    let k ← unhex k; let g ← optGen g
    let (st, r) := get s k g
    pure (st, (match r with | some v => s!"hit {v.length}:{(fnv v).toNat}" | none => "miss") ++ tail st)
  | ["rm", k, g] => do
    let k ← unhex k; let g ← optGen g
    let st := remove s k g
    pure (st, "ok" ++ tail st)
  | ["evict"] => let st := evict s; some (st, "ok" ++ tail st)
  | ["clear"] => let st := clear s; some (st, "ok" ++ tail st)
  | ["adjust", h, l] => do
    let h ← h.toNat?; let l ← l.toNat?
    let st := adjust s h l
    pure (st, s!"ok high={st.high} low={st.low}" ++ tail st)
  | ["dump"] =>
    let es := (List.range s.nb).flatMap fun i =>
      (getBucket s i).map fun e => s!"{i}:{hex e.key}:{if e.gen.isSome then 1 else 0}:{if e.refBit then 1 else 0}:{e.size}"
    some (s, s!"ev={s.evictions} [" ++ ",".intercalate es ++ "]" ++ tail s)
  | ["murmur", h] => do
    let k ← unhex h
    pure (s, s!"ok {(murmur3 k 0).toNat}")
  | _ => none

end Feox.Drv.CacheDrv
