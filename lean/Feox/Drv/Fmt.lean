import Feox.Fmt.Recover
import Feox.Fmt.Migrate
import Feox.Fmt.RepCheck
import Feox.Fmt.CleanCheck
import Feox.Proto.Generations
/-! Line-protocol front end for the `Fmt` model. -/
namespace Feox.Drv.FmtDrv
open Feox.Fmt Feox.Gen

def hexDigit (c : Char) : Option Nat :=
  if '0' ≤ c ∧ c ≤ '9' then some (c.toNat - '0'.toNat)
  else if 'a' ≤ c ∧ c ≤ 'f' then some (c.toNat - 'a'.toNat + 10)
  else none

def unhexAux : List Char → Bytes → Option Bytes
  | [], acc => some acc.reverse
  | [_], _ => none
  | a :: b :: rest, acc =>
    match hexDigit a, hexDigit b with
    | some x, some y => unhexAux rest (UInt8.ofNat (x * 16 + y) :: acc)
    | _, _ => none

def unhex (s : String) : Option Bytes := if s == "-" then some [] else unhexAux s.toList []

def hexNibble (n : Nat) : Char := if n < 10 then Char.ofNat (48 + n) else Char.ofNat (87 + n)

def hex (b : Bytes) : String :=
  if b.isEmpty then "-" else String.ofList (b.flatMap fun x => [hexNibble (x.toNat / 16), hexNibble (x.toNat % 16)])

/-- FNV-1a 64 over a byte string: `len:hash`, the digest both sides print for large blobs -/
def fnv (b : Bytes) : UInt64 := b.foldl (fun h x => (h ^^^ x.toUInt64) * 1099511628211) 14695981039346656037

def digest (b : Bytes) : String := s!"{b.length}:{(fnv b).toNat}"

def parseExtents (s : String) : Option (List (Nat × Nat)) :=
  if s == "-" then some []
  else (s.splitOn ",").mapM fun e =>
    match e.splitOn ":" with
    | [a, b] => do let a ← a.toNat?; let b ← b.toNat?; pure (a, b)
    | _ => none

def showExtents (es : List (Nat × Nat)) : String :=
  if es.isEmpty then "-" else ",".intercalate (es.map fun e => s!"{e.1}:{e.2}")

def rerrName : RErr → String
  | .InvalidDevice => "err InvalidDevice"
  | .InvalidMetadata => "err InvalidMetadata"
  | .CorruptedRecord => "err CorruptedRecord"
  | .AmbiguousLegacyTombstone => "err AmbiguousLegacyTombstone"
  | .InvalidArgument => "err InvalidArgument"
  | .DuplicateKey => "err DuplicateKey"
  | .OutOfSpace => "err OutOfSpace"
  | .CorruptedData => "err CorruptedData"
  | .panic why => s!"panic {why}"

def valueOf (img : Image) (v : Nat) (l : Live) : Bytes :=
  let ext := (List.range l.blocks).flatMap fun i => blockAt img (l.sector + i)
  slice ext (valueOffset v l.key.length) l.valueLen

def bodyDigest (image : Image) : Nat :=
  let total := image.size
  let body := ((List.range ALLOCATION_JOURNAL_BLOCKS).flatMap fun i => blockAt image (ALLOCATION_JOURNAL_START_BLOCK + i))
    ++ ((List.range (total - FEOX_DATA_START_BLOCK)).flatMap fun i => blockAt image (FEOX_DATA_START_BLOCK + i))
  (fnv body).toNat

def showRecovered (r : Recovered) : String :=
  let lives := r.live.map fun l =>
    s!"{hex l.key}:{l.ts}:{l.expiry}:{l.valueLen}:{l.sector}:{(fnv (valueOf r.image r.version l)).toNat}"
  let free := showExtents (r.fsm.runs.map fun x => (x.start, x.size))
  let total := r.image.size
  let body := ((List.range ALLOCATION_JOURNAL_BLOCKS).flatMap fun i => blockAt r.image (ALLOCATION_JOURNAL_START_BLOCK + i))
    ++ ((List.range (total - FEOX_DATA_START_BLOCK)).flatMap fun i => blockAt r.image (FEOX_DATA_START_BLOCK + i))
  s!"ok v={r.version} fresh={if r.fresh then 1 else 0} n={r.count} mem={r.memory} disk={r.diskUsage} amb={r.ambiguous} " ++
  s!"live=[{",".intercalate lives}] free=[{free}] body={(fnv body).toNat}"

def b2n (s : String) : Bool := s == "1"

/-- `ok rt=1 n=<records>` when the image represents a tiling of its data area by exactly the table's
records (`Fmt.repTiledB`, whose `true` answer `Fmt.repTiled_sound` turns into a statement about the
recovery scan); otherwise which half failed -/
def repLine (img : Image) (v : Nat) (lives : List Live) : String :=
  let lo := FEOX_DATA_START_BLOCK
  let total := img.size
  if repTiledB img v lo total lives then s!"ok rt=1 n={lives.length}"
  else
    let d := labelOf img v lives
    let rep := repB img v lo total (infoOf lives) d
    let bad := (List.range (total - lo)).find? fun i => !decide (RepAt img v (infoOf lives) d (lo + i))
    let tl := match tileOf d total (total - lo + 1) lo with
      | some L => s!"tiled:{L.length}"
      | none => "untiled"
    let junk := (List.range (total - lo)).find? fun i => d (lo + i) == Feox.Proto.Blk.junk
    s!"ok rt=0 n={lives.length} rep={if rep then 1 else 0} badblock={match bad with | some i => toString (lo + i) | none => "-"} {tl} junk={match junk with | some i => toString (lo + i) | none => "-"}"

def parseLives (s : String) : Option (List Live) :=
  if s == "-" then some []
  else (s.splitOn ",").mapM fun e =>
    match e.splitOn ":" with
    | [k, ts, ex, vl, sec] => do
      let k ← unhex k; let ts ← ts.toNat?; let ex ← ex.toNat?; let vl ← vl.toNat?; let sec ← sec.toNat?
      pure ⟨k, ts, ex, vl, sec, 0⟩
    | _ => none

/-- pure commands; `recover` needs IO and is handled in `handleIO` -/
def handle (args : List String) : Option String :=
  match args with
  | ["crc", seed, h] => do
    let s ← seed.toNat?; let b ← unhex h
    pure s!"ok {(crc32c (UInt32.ofNat s) b).toNat}"
  | ["token", sector, h] => do
    let s ← sector.toNat?; let b ← unhex h
    pure s!"ok {(seqToken s b).toNat}"
  | ["rectoken", sector, h] => do
    let s ← sector.toNat?; let b ← unhex h
    pure s!"ok {(recordSeqToken s b).toNat}"
  | ["headerok", v, h] => do
    let v ← v.toNat?; let b ← unhex h
    pure s!"ok {if headerOk v b then 1 else 0}"
  | ["stamp", v, sector, h] => do
    let v ← v.toNat?; let s ← sector.toNat?; let b ← unhex h
    pure s!"ok {digest (stamp v b s)}"
  | ["encrec", v, sector, k, val, ts, exp] => do
    let v ← v.toNat?; let s ← sector.toNat?; let k ← unhex k; let val ← unhex val
    let ts ← ts.toNat?; let exp ← exp.toNat?
    let e := encodeExtent v s ⟨k, val.length, ts, exp⟩ val
    let head := e.take BSZ
    let parsed := match parseRecord v head with
      | some m => s!"{hex m.key}:{m.valueLen}:{m.ts}:{m.expiry}"
      | none => "none"
    pure s!"ok {digest e} parse={parsed} holds={if sectorHoldsRecord e k val.length ts then 1 else 0}"
  | ["parse", v, h] => do
    let v ← v.toNat?; let b ← unhex h
    pure (match parseRecord v b with
      | some m => s!"ok {hex m.key}:{m.valueLen}:{m.ts}:{m.expiry}"
      | none => "ok none")
  | ["holds", h, k, vl, ts] => do
    let b ← unhex h; let k ← unhex k; let vl ← vl.toNat?; let ts ← ts.toNat?
    pure s!"ok {if sectorHoldsRecord b k vl ts then 1 else 0}"
  | ["markers", sector, remaining, blocks] => do
    let s ← sector.toNat?; let r ← remaining.toNat?; let n ← blocks.toNat?
    let bs := (markerBlocks s r n).flatMap id
    pure s!"ok {digest bs} tok={(markerToken s (bs.take 19)).toNat}"
  | ["jactive", gen, es] => do
    let g ← gen.toNat?; let es ← parseExtents es
    pure (match encodeActive g es with
      | .ok b => s!"ok {digest b}"
      | .error _ => "err InvalidArgument")
  | ["jclear", gen] => do
    let g ← gen.toNat?
    pure (match encodeClear g with
      | .ok b => s!"ok {digest b}"
      | .error _ => "err InvalidArgument")
  | ["coalesce", es] => do
    let es ← parseExtents es
    pure (match coalesceExtents es with
      | some c => s!"ok {showExtents c}"
      | none => "err InvalidArgument")
  | ["metadec", h] => do
    let b ← unhex h
    pure (match Meta.decode b with
      | some m => s!"ok v={m.version} recs={m.totalRecords} size={m.totalSize} dev={m.deviceSize} frag={m.fragmentation} gen={m.generation} " ++
          s!"re={if m.encode == b then 1 else 0} adv={match m.advance with | some a => digest a.encode | none => "none"}"
      | none => "ok invalid")
  | _ => none

def readBlob (path : String) : IO Bytes := do
  let b ← IO.FS.readBinFile path
  pure b.toList

def handleIO (args : List String) : IO (Option String) := do
  match args with
  | ["jdecode", total, path] =>
    match total.toNat? with
    | none => pure none
    | some t =>
      let b ← readBlob path
      pure (some (match decodeJournal b t with
        | .ok s => s!"ok gen={s.generation} slot={s.slot} ext={showExtents s.extents}"
        | .error (.panic w) => s!"panic {w}"
        | .error .Corrupted => "err CorruptedRecord"))
  | ["metasel", p1, p2] =>
    let a ← readBlob p1
    let b ← readBlob p2
    pure (some s!"ok {digest (selectMeta a b)}")
  | ["recover", path, ro, amb, ttl, now, recsize] =>
    match now.toNat?, recsize.toNat? with
    | some now, some rs =>
      let raw ← IO.FS.readBinFile path
      let img := imageOfBytes raw
      let o : Opts := { readOnly := b2n ro, allowAmbiguous := b2n amb, ttlOn := b2n ttl, now := now, recSize := rs }
      let out := recoverImage img raw.size o
      pure (some (match out.result with
        | .ok r => showRecovered r
        | .error e =>
          let img' := applyIo img out.io
          let body := if img' == img then "same" else toString (bodyDigest img')
          s!"{rerrName e} body={body} writes={out.io.length}"))
    | _, _ => pure none
  | ["reptiled", path, ro, amb, ttl, now, recsize] =>
    -- the device as recovery leaves it must represent a tiling by the recovered index (Fmt.RepCheck)
    match now.toNat?, recsize.toNat? with
    | some now, some rs =>
      let raw ← IO.FS.readBinFile path
      let img := imageOfBytes raw
      let o : Opts := { readOnly := b2n ro, allowAmbiguous := b2n amb, ttlOn := b2n ttl, now := now, recSize := rs }
      let out := recoverImage img raw.size o
      pure (some (match out.result with
        | .ok r => repLine r.image r.version r.live
        | .error e => rerrName e))
    | _, _ => pure none
  | ["repfile", path, v, lives] =>
    -- a file as the store left it, against the index the store reported (key:ts:expiry:valueLen:sector,…)
    match v.toNat?, parseLives lives with
    | some v, some ls =>
      let raw ← IO.FS.readBinFile path
      let img := imageOfBytes raw
      let lives := ls.map fun l => { l with blocks := extentBlocks v l.key.length l.valueLen }
      -- … and the hypotheses of `Fmt.recover_clean_image` (the whole open writes nothing and shows exactly these records)
      pure (some (repLine img v lives ++ s!" clean={if openCleanB img raw.size lives then 1 else 0}"))
    | _, _ => pure none
  | ["gens", now, gens] =>
    -- generation-level view (Proto.Generations): what a completed recovery exposes per key
    match now.toNat? with
    | none => pure none
    | some now =>
      let parse (t : String) : Option Proto.Gens.Gen :=
        match (t.splitOn ":").mapM String.toNat? with
        | some [k, ts, e, sec] => some ⟨k, ts, e, sec⟩
        | _ => none
      match (if gens == "-" then some [] else (gens.splitOn ",").mapM parse) with
      | none => pure none
      | some G =>
        let keys := (G.map (·.key)).eraseDups.mergeSort (· ≤ ·)
        let shown := keys.filterMap fun k => (Proto.Gens.exposed now k G).map fun g => s!"{g.key}:{g.ts}:{g.expiry}:{g.sector}"
        pure (some ("ok " ++ ",".intercalate shown).trimAsciiEnd.toString)
  | ["migrate", src, amb, recsize, dst] =>
    match recsize.toNat? with
    | none => pure none
    | some rs =>
      let raw ← IO.FS.readBinFile src
      let img := imageOfBytes raw
      let (res, io) := migrateModel img raw.size (b2n amb) rs
      match res with
      | .error e =>
        let name := match e with
          | .CurrentFormat => "CurrentFormat"
          | .KeyTooLarge => "KeyTooLarge"
          | .DestinationTooLarge => "DestinationTooLarge"
          | .AmbiguousLegacyRecovery => "AmbiguousLegacyRecovery"
          | .Store e => "Store:" ++ ((rerrName e).drop 4).toString
        pure (some s!"err {name} srcio={io.length}")
      | .ok m =>
        let head := s!"ok records={m.records.length} v={m.sourceVersion} dsize={m.destinationSize} amb={m.ambiguous} srcio={io.length}"
        if dst == "-" then pure (some head)
        else
          let draw ← IO.FS.readBinFile dst
          let dimg := imageOfBytes draw
          let dout := recoverImage dimg draw.size { readOnly := true, allowAmbiguous := false, ttlOn := false, now := 0, recSize := rs }
          match dout.result with
          | .error e => pure (some (head ++ s!" dst={rerrName e}"))
          | .ok d =>
            let sig (image : Image) (v : Nat) (ls : List Live) :=
              ls.map fun l => (l.key, l.ts, l.expiry, l.valueLen, (fnv (valueOf image v l)).toNat)
            let same := sig m.image m.sourceVersion m.records == sig d.image d.version d.live
            pure (some (head ++ s!" same={if same then 1 else 0} dv={d.version} dsz={draw.size}"))
  | _ => pure (handle args)

end Feox.Drv.FmtDrv
