import Feox.Conc.Range
/-! Line-protocol front end for the `Range` scan model. -/
namespace Feox.Drv.RangeDrv
open Feox.Conc.Range

structure St where
  hi : Nat := 0
  limit : Nat := 0
  scan : Scan := { cur := none }

def nats (l : List String) : Option (List Nat) := l.mapM String.toNat?

def show_ (s : Scan) : String :=
  if s.done then "ret " ++ " ".intercalate (s.out.map toString) else "at"

def handle (st : St) (args : List String) : Option (St × String) :=
  match args with
  | "new" :: lo :: hi :: limit :: keys => do
    let lo ← lo.toNat?; let hi ← hi.toNat?; let limit ← limit.toNat?
    let ix ← nats keys
    let sc := start ix lo
    pure ({ hi := hi, limit := limit, scan := sc }, (show_ sc).trimAsciiEnd.toString)
  | "step" :: keys => do
    let ix ← nats keys
    let sc := step st.hi st.limit st.scan ix (fun _ => true)
    pure ({ st with scan := sc }, (show_ sc).trimAsciiEnd.toString)
  | _ => none

end Feox.Drv.RangeDrv
