import Feox.Proto.Dur
import Feox.Proto.Disk
import Feox.Proto.Shards
import Feox.Proto.Txn
import Feox.Proto.Slots
import Feox.Props.C05Acc
/-! Line-protocol front end for the `Proto` acceptors (trace validation). -/
namespace Feox.Drv.ProtoDrv
open Feox.Proto

structure St where
  key : Dur.Key := {}
  dead : Bool := false      -- an earlier event of this key was rejected

def handleDur (s : St) (args : List String) : Option (St × String) :=
  let ev : Option Dur.Ev :=
    match args with
    | ["accept", "-"] => some (.accept none)
    | ["accept", v] => v.toNat?.map fun n => .accept (some n)
    | ["skip", i] => i.toNat?.map .skip
    | ["durable", i] => i.toNat?.map .durable
    | ["retire", i] => i.toNat?.map .retire
    | ["ack"] => some .ack
    | _ => none
  match args with
  | ["new"] => some ({}, "ok")
  | _ =>
    match ev with
    | none => none
    | some e =>
      if s.dead then some (s, "ok")   -- only the first rejection of a key is reported
      else match Dur.step? s.key e with
        | some k => some ({ s with key := k }, "ok")
        | none => some ({ s with dead := true }, "reject")

/-- device-trace discipline (`Proto.Txn.step?`): `txn new`, `txn j <s:e,…|->` (journal slot written:
active with these runs, or clear), `txn w <s> <e>` (data-area write of blocks `[s, e)`), `txn o`
(metadata copy), `txn f` (fsync).  Contents do not matter to the acceptor. -/
structure TxnSt where
  st : Txn.St := { disk := fun _ => .zero }
  dead : Bool := false
  /-- the slot that holds the newest journal record (none: nothing written yet) — `Proto.Slots`: the next
  record must go to the other one, or a torn image of it sends recovery back to the record before -/
  lastSlot : Option Nat := none

def parseRuns (t : String) : Option Txn.Runs :=
  if t == "-" then some []
  else (t.splitOn ",").mapM fun r =>
    match (r.splitOn ":").mapM String.toNat? with
    | some [a, b] => some (a, b)
    | _ => none

def handleTxn (s : TxnSt) (args : List String) : Option (TxnSt × String) :=
  let ev : Option Txn.Ev :=
    match args with
    | ["j", runs] => (parseRuns runs).map .journal
    | ["w", a, b] => do let a ← a.toNat?; let b ← b.toNat?; pure (.write ⟨a, b, fun _ => .junk⟩)
    | ["o"] => some .other
    | ["f"] => some .fsync
    | _ => none
  match args with
  | ["new"] => some ({}, "ok")
  | ["resume", runs] =>
    -- a store opened on an existing file: the durable journal is what the file holds
    (parseRuns runs).map fun j => ({ st := { disk := fun _ => .zero, jdur := j } }, "ok")
  | ["resume", runs, slot] =>
    match parseRuns runs, slot.toNat? with
    | some j, some sl => some ({ st := { disk := fun _ => .zero, jdur := j }, lastSlot := some sl }, "ok")
    | _, _ => none
  | ["j", runs, slot] =>
    -- a journal record written into slot `slot`
    match parseRuns runs, slot.toNat? with
    | some j, some sl =>
      if s.dead then some (s, "ok")
      else if s.lastSlot == some sl then
        some ({ s with dead := true }, s!"reject (journal record written into slot {sl}, which holds the newest record: a torn image of it would make recovery fall back to the record before the durable one — Proto.Slots.same_slot_torn_goes_back)")
      else match Txn.step? s.st (.journal j) with
        | some st => some ({ s with st := st, lastSlot := some sl }, "ok")
        | none =>
          let why := s!"jdur={s.st.jdur} jpend={s.st.jpend} unsynced-data-writes={s.st.pend.length}"
          some ({ s with dead := true }, s!"reject ({why})")
    | _, _ => none
  | _ =>
    match ev with
    | none => none
    | some e =>
      if s.dead then some (s, "ok")
      else match Txn.step? s.st e with
        | some st => some ({ s with st := st }, "ok")
        | none =>
          let why := s!"jdur={s.st.jdur} jpend={s.st.jpend} unsynced-data-writes={s.st.pend.length}"
          some ({ s with dead := true }, s!"reject ({why})")

/-- allocation / publication / release events of a running store on the `Space` model
(`C05.accept`): `space new <device bytes>`, `space a|p|r <start> <blocks>`, `space free` (the
model's free runs, to be compared with the store's) -/
structure SpaceSt where
  sp : Option C05.Space := none
  dead : Bool := false

def handleSpace (s : SpaceSt) (args : List String) : Option (SpaceSt × String) :=
  match args with
  | ["new", dev] => do
    let dev ← dev.toNat?
    match Fsm.initDevice Fsm.new dev with
    | .ok f => pure ({ sp := some { fsm := f } }, "ok")
    | .error _ => pure ({ sp := none, dead := true }, "ok")
  | ["free"] =>
    match s.sp with
    | some sp => if s.dead then some (s, "ok -") else some (s, ("ok " ++ " ".intercalate (sp.fsm.runs.map fun r => s!"{r.start}+{r.size}")).trimAsciiEnd.toString)
    | none => some (s, "ok -")
  | [k, a, n] => do
    let a ← a.toNat?; let n ← n.toNat?
    let ev ← (match k with | "a" => some (C05.SEv.alloc a n) | "p" => some (.publish a n) | "r" => some (.release a n) | _ => none)
    if s.dead then pure (s, "ok")
    else match s.sp with
      | none => pure (s, "ok")
      | some sp =>
        match C05.accept sp ev with
        | some sp' => pure ({ s with sp := some sp' }, "ok")
        | none =>
          let held := " ".intercalate (sp.held.map fun e => s!"{e.1}+{e.2}")
          let owned := " ".intercalate (sp.owned.map fun e => s!"{e.1}+{e.2}")
          pure ({ s with dead := true }, s!"reject (held: {held}; owned: {owned}; free: " ++ " ".intercalate (sp.fsm.runs.map fun r => s!"{r.start}+{r.size}") ++ ")")
  | _ => none

/-- `shards W S count…` : which workers a tick must wake -/
def handleShards (args : List String) : Option String :=
  match args with
  | "wake" :: w :: sN :: rp :: counts => do
    let w ← w.toNat?; let sN ← sN.toNat?
    let cs ← counts.mapM String.toNat?
    let ws := Shards.wakeSet w sN (fun i => cs.getD i 0) (rp == "1")
    pure ("ok " ++ " ".intercalate (ws.map toString))
  | ["geom", c] => do
    let c ← c.toNat?
    pure s!"ok {Shards.shardCount c} {Shards.workerCount c}"
  | ["own", w, sN, i] => do
    let w ← w.toNat?; let sN ← sN.toNat?; let i ← i.toNat?
    pure ("ok " ++ " ".intercalate ((Shards.shardsOf w sN i).map toString)).trimAsciiEnd.toString
  | ["owner", w, s] => do
    let w ← w.toNat?; let s ← s.toNat?
    pure s!"ok {Shards.ownerOf w s}"
  | _ => none

end Feox.Drv.ProtoDrv
