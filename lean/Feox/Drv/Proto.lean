import Feox.Proto.Dur
import Feox.Proto.Disk
import Feox.Proto.Shards
/-! Line-protocol front end for the `Proto` acceptors (trace validation). -/
namespace Feox.Drv.ProtoDrv
open Feox.Proto

structure St where
  key : Dur.Key := {}
  dead : Bool := false      -- an earlier event of this key was rejected

def handleDur (s : St) (args : List String) : Option (St × String) :=
  let ev : Option Dur.Ev :=
    match args with
    | ["accept", "-"] => some (.accept none)
    | ["accept", v] => v.toNat?.map fun n => .accept (some n)
    | ["skip", i] => i.toNat?.map .skip
    | ["durable", i] => i.toNat?.map .durable
    | ["retire", i] => i.toNat?.map .retire
    | ["ack"] => some .ack
    | _ => none
  match args with
  | ["new"] => some ({}, "ok")
  | _ =>
    match ev with
    | none => none
    | some e =>
      if s.dead then some (s, "ok")   -- only the first rejection of a key is reported
      else match Dur.step? s.key e with
        | some k => some ({ s with key := k }, "ok")
        | none => some ({ s with dead := true }, "reject")

/-- `shards W S count…` : which workers a tick must wake -/
def handleShards (args : List String) : Option String :=
  match args with
  | "wake" :: w :: sN :: rp :: counts => do
    let w ← w.toNat?; let sN ← sN.toNat?
    let cs ← counts.mapM String.toNat?
    let ws := Shards.wakeSet w sN (fun i => cs.getD i 0) (rp == "1")
    pure ("ok " ++ " ".intercalate (ws.map toString))
  | ["geom", c] => do
    let c ← c.toNat?
    pure s!"ok {Shards.shardCount c} {Shards.workerCount c}"
  | ["own", w, sN, i] => do
    let w ← w.toNat?; let sN ← sN.toNat?; let i ← i.toNat?
    pure ("ok " ++ " ".intercalate ((Shards.shardsOf w sN i).map toString)).trimAsciiEnd.toString
  | ["owner", w, s] => do
    let w ← w.toNat?; let s ← s.toNat?
    pure s!"ok {Shards.ownerOf w s}"
  | _ => none

end Feox.Drv.ProtoDrv
