import Feox.Kv.Spec
import Feox.Drv.Fmt
/-! Line-protocol front end for the `Kv.Spec` model. -/
namespace Feox.Drv.KvDrv
open Feox.Kv Feox.Fmt Feox.Drv.FmtDrv

def errName : Err → String
  | .InvalidKeySize => "InvalidKeySize"
  | .InvalidValueSize => "InvalidValueSize"
  | .KeyNotFound => "KeyNotFound"
  | .OutOfMemory => "OutOfMemory"
  | .OlderTimestamp => "OlderTimestamp"
  | .InvalidOperation => "InvalidOperation"
  | .JsonPatchError => "JsonPatchError"
  | .TtlNotEnabled => "TtlNotEnabled"
  | .Unsupported => "Unsupported"
  | .InvalidNumericValue => "InvalidNumericValue"

def vdig (v : Bytes) : String := s!"{v.length}:{(fnv v).toNat}"

def outStr : Out → String
  | .okBool b => if b then "ok true" else "ok false"
  | .okUnit => "ok"
  | .okBytes v => s!"ok {vdig v}"
  | .okNat n => s!"ok {n}"
  | .okInt i => s!"ok {i}"
  | .okTtl none => "ok none"
  | .okTtl (some t) => s!"ok some {t}"
  | .okPairs ps => "ok [" ++ ",".intercalate (ps.map fun p => s!"{hex p.1}={vdig p.2}") ++ "]"
  | .err e => s!"err {errName e}"

def optNat (s : String) : Option (Option Nat) := if s == "-" then some none else s.toNat?.map some

def parseShards (s : String) : Option (List (Bytes × Nat)) :=
  if s == "-" then some []
  else (s.splitOn ",").mapM fun e =>
    match e.splitOn ":" with
    | [k, n] => do let k ← unhex k; let n ← n.toNat?; pure (k, n)
    | _ => none

def parseOp (args : List String) : Option Op :=
  match args with
  | ["ins", k, v, ts, ttl, api, shard, now] => do
    pure (.insert (← unhex k) (← unhex v) (← optNat ts) (← ttl.toNat?) (api == "1") (← shard.toNat?) (← now.toNat?))
  | ["get", k, now] => do pure (.get (← unhex k) (← now.toNat?))
  | ["size", k] => do pure (.getSize (← unhex k))
  | ["has", k] => do pure (.contains (← unhex k))
  | ["del", k, ts, shard, now] => do pure (.delete (← unhex k) (← optNat ts) (← shard.toNat?) (← now.toNat?))
  | ["cas", k, e, n, ts, ttl, shard, now] => do
    pure (.cas (← unhex k) (← unhex e) (← unhex n) (← optNat ts) (← ttl.toNat?) (← shard.toNat?) (← now.toNat?))
  | ["inc", k, d, ts, ttl, shard, now] => do
    pure (.incr (← unhex k) (← d.toInt?) (← optNat ts) (← ttl.toNat?) (← shard.toNat?) (← now.toNat?))
  | ["ifabs", k, v, shard, now] => do pure (.ifAbsent (← unhex k) (← unhex v) (← shard.toNat?) (← now.toNat?))
  | ["patch", k, ts, shard, now, res] => do
    let patched : Option Bytes ← if res == "errJ" || res == "-" then some none
      else if res.startsWith "ok:" then (unhex (res.drop 3).toString).map some else none
    pure (.patch (← unhex k) (← optNat ts) (← shard.toNat?) (← now.toNat?) patched)
  | ["ttl?", k, now] => do pure (.getTtl (← unhex k) (← now.toNat?))
  | ["uttl", k, ttl, p, shard, now] => do pure (.updateTtl (← unhex k) (← ttl.toNat?) (p == "1") (← shard.toNat?) (← now.toNat?))
  | ["range", a, b, lim, now] => do pure (.range (← unhex a) (← unhex b) (← lim.toNat?) (← now.toNat?))
  | ["len"] => some .len
  | ["mem"] => some .memUsage
  | ["flush"] => some .flush
  | ["sweep", now] => do pure (.sweep (← now.toNat?))
  | ["reopen", ttl, now, shards] => do pure (.reopen (ttl == "1") (← now.toNat?) (← parseShards shards))
  | _ => none

def kvArg (args : List String) (key : String) : Option String :=
  args.findSome? fun a => if a.startsWith (key ++ "=") then some (a.drop (key.length + 1)).toString else none

def handle (s : State) (args : List String) : Option (State × String) :=
  match args with
  | "cfg" :: rest => do
    let mem ← kvArg rest "mem"; let ttl ← kvArg rest "ttl"; let fmt ← (← kvArg rest "fmt").toNat?
    let mx ← kvArg rest "max"; let rec ← (← kvArg rest "rec").toNat?
    let maxM : Option Nat ← if mx == "none" then some none else mx.toNat?.map some
    let st : State := { cfg := { memoryOnly := mem == "1", ttlOn := ttl == "1", format := fmt, maxMemory := maxM, recSize := rec } }
    pure (st, "ok")
  | ["dump"] =>
    let es := s.entries.map fun ke => s!"{hex ke.1}:{ke.2.ts}:{ke.2.expiry}:{vdig ke.2.val}"
    some (s, s!"n={s.count} mem={s.mem} [" ++ ",".intercalate es ++ "]")
  | ["clock", shard] => do
    let sh ← shard.toNat?
    pure (s, s!"ok {clockGet s sh}")
  | ["clock", shard, _key] => do      -- the key is for the harness (a replay finds the key's shard under the new hasher)
    let sh ← shard.toNat?
    pure (s, s!"ok {clockGet s sh}")
  | _ => do
    let op ← parseOp args
    let (s', o) := step s op
    pure (s', outStr o ++ s!" | n={s'.count} mem={s'.mem}")

end Feox.Drv.KvDrv
