import Feox.Conc.Pin
/-! Line-protocol front end for the `Pin` acceptor. -/
namespace Feox.Drv.PinDrv
open Feox.Conc.Pin

def evOf : String → Option Ev
  | "acquire" => some .acquire
  | "pread" => some .pread
  | "release" => some .release
  | "setBit" => some .setBit
  | "check" => some .check
  | "mark" => some .mark
  | "recheck" => some .recheck
  | "reuse" => some .reuse
  | _ => none

def contentStr : Content → String
  | .data => "data"
  | .markers => "markers"
  | .reused => "reused"

def handle (s : State) (args : List String) : Option (State × String) :=
  match args with
  | ["new"] => some ({}, "ok r=0 b=0 out=none")
  | [e] => do
    let ev ← evOf e
    match step? s ev with
    | none => pure (s, "reject")
    | some (s', o) =>
      let out := match ev, o with
        | _, .refused => "refused"
        | _, .saw c => "saw-" ++ contentStr c
        | .check, _ => if s'.w == WPc.cleared then "cleared" else "blocked"
        | .recheck, _ => if s'.w == WPc.freed then "freed" else "blocked"
        | _, _ => "none"
      pure (s', s!"ok r={s'.readers} b={if s'.retired then 1 else 0} out={out}")
  | _ => none

end Feox.Drv.PinDrv
