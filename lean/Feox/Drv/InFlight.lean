import Feox.Conc.InFlight
/-! Line-protocol front end for the `InFlight` set. -/
namespace Feox.Drv.InFlightDrv
open Feox.Conc.InFlight

def handle (s : Set) (args : List String) : Option (Set × String) :=
  match args with
  | ["new"] => some ({}, "ok")
  | ["push"] => some ((step s .push).1, "ok")
  | ["in", i] => do let i ← i.toNat?; pure ((step s (.markInFlight i)).1, "ok")
  | ["unq", i] => do let i ← i.toNat?; pure ((step s (.markUnqueued i)).1, "ok")
  | ["done", i] => do
    let i ← i.toNat?
    let r := step s (.markComplete i)
    pure (r.1, if r.2 then "ok true" else "ok false")
  | ["drop"] =>
    some (s, ("ok " ++ String.ofList ((List.range s.n).map fun i => if released s i then '1' else '0')).trimAsciiEnd.toString)
  | _ => none

end Feox.Drv.InFlightDrv
