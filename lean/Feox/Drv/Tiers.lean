import Feox.Kv.Tiers
/-! driver for the tier monitor: `tier new` forgets everything (a new store or a reopen);
`tier <key> -` the key is absent; `tier <key> <generation> <resident> <onDisk> <cached>` the
hooks' view of the key's current generation.  Answer: `ok`, or `unreachable …` when the
observation cannot follow the previous one by tier moves of the model. -/
namespace Feox.Drv.TiersDrv
open Feox.Kv.Tiers

abbrev St := List (Nat × (Nat × Obs))

def bit (s : String) : Option Bool := if s == "1" then some true else if s == "0" then some false else none

def showObs (o : Obs) : String := s!"r={o.resident} d={o.onDisk} c={o.cached}"

def handle (st : St) (args : List String) : Option (St × String) :=
  match args with
  | ["new"] => some ([], "ok")
  | ["at", _, _] => some (st, "ok")
  | [k, "-"] => do
    let k ← k.toNat?
    pure (st.filter (·.1 != k), "ok")
  | [k, g, r, d, c] => do
    let k ← k.toNat?; let g ← g.toNat?
    let o : Obs := ⟨← bit r, ← bit d, ← bit c⟩
    let before := (st.find? (·.1 == k)).map (·.2)
    let st' := (k, (g, o)) :: st.filter (·.1 != k)
    if verdict before (some (g, o)) then pure (st', "ok")
    else
      let was := match before with
        | some (g0, o0) => if g0 == g then s!"same generation, was {showObs o0}" else "a new generation"
        | none => "a new generation"
      pure (st', s!"unreachable {showObs o} ({was})")
  | _ => none

end Feox.Drv.TiersDrv
