import Feox.Kv.Acc
/-! Every operation of `Kv.Spec.step` preserves the accounting invariant `Acc`. -/
namespace Feox.Kv
open Feox.Fmt

theorem acc_init (c : Cfg) : Acc { cfg := c } :=
  ⟨by simp [Sorted], by simp [memSumOf], by simp⟩

theorem doInsert_acc {s : State} (ha : Acc s) (k v : Bytes) (ts : Option Nat) (ttl shard now : Nat) :
    Acc (doInsert s k v ts ttl shard now).1 := by
  unfold doInsert
  split
  · exact ha
  · split
    · exact ha
    · have hf := resolveTs_frame s ts shard now
      have ha1 := ha.frame hf
      simp only
      split
      · rename_i old hl
        split
        · exact ha1
        · split
          · exact ha1
          · rename_i s2 hr
            exact (replaceEntry_acc ha1 hl hr).1.frame (observePublished_frame _ _ _ _)
      · rename_i hl
        split
        · exact ha1
        · rename_i s2 hr
          exact (createEntry_acc ha1 hl hr).1.frame (observePublished_frame _ _ _ _)

theorem doDelete_acc {s : State} (ha : Acc s) (k : Bytes) (ts : Option Nat) (shard now : Nat) :
    Acc (doDelete s k ts shard now).1 := by
  unfold doDelete
  split
  · exact ha
  · have ha1 := ha.frame (resolveTs_frame s ts shard now)
    simp only
    split
    · exact ha1
    · rename_i old hl
      split
      · exact ha1
      · exact (removeEntry_acc ha1 hl).frame (observePublished_frame _ _ _ _)

theorem doCas_acc {s : State} (ha : Acc s) (k e n : Bytes) (ts : Option Nat) (ttl shard now : Nat) :
    Acc (doCas s k e n ts ttl shard now).1 := by
  unfold doCas
  split
  · exact ha
  · split
    · exact ha
    · split
      · exact ha
      · split
        · exact ha
        · rename_i old hl
          split
          · exact ha
          · split
            · exact ha
            · have hf := resolveTs_frame s ts shard now
              have ha1 := ha.frame hf
              have hl1 : lookup k (resolveTs s ts shard now).2.2.entries = some old := by rw [hf.1]; exact hl
              simp only
              split
              · exact ha1
              · split
                · exact ha1
                · rename_i s2 hr
                  exact (replaceEntry_acc ha1 hl1 hr).1.frame (observePublished_frame _ _ _ _)

theorem incrCreate_acc {s : State} (ha : Acc s) (k : Bytes) (d : Int) (ex : Option Nat) (ttl shard now ra : Nat)
    (hl : lookup k s.entries = none) : Acc (incrCreate s k d ex ttl shard now ra).1 := by
  unfold incrCreate
  split
  · split
    · exact ha
    · split
      · exact ha
      · rename_i s2 hr
        exact (createEntry_acc ha hl hr).1.frame (clockObserve_frame _ _ _)
  · split
    · exact ha
    · have hf := clockNext_frame s shard now
      have ha1 := ha.frame hf
      have hl1 : lookup k (clockNext s shard now).2.entries = none := by rw [hf.1]; exact hl
      simp only
      split
      · exact ha1
      · rename_i s2 hr
        exact (createEntry_acc ha1 hl1 hr).1

theorem doIncr_acc {s : State} (ha : Acc s) (k : Bytes) (d : Int) (ts : Option Nat) (ttl shard now : Nat) :
    Acc (doIncr s k d ts ttl shard now).1 := by
  unfold doIncr
  split
  · exact ha
  · split
    · exact ha
    · simp only
      split
      · rename_i hl
        exact incrCreate_acc ha _ _ _ _ _ _ _ hl
      · rename_i cur hl
        split
        · exact ha
        · split
          · have ha1 := removeEntry_acc ha hl
            have hf := clockObserve_frame (removeEntry s k cur) shard now
            apply incrCreate_acc (ha1.frame hf)
            rw [hf.1]
            simp only [removeEntry]
            exact lookup_erase_same ha.sorted
          · split
            · exact ha
            · split
              · split
                · exact ha
                · split
                  · exact ha
                  · rename_i s2 hr
                    exact (replaceEntry_acc ha hl hr).1.frame (clockObserve_frame _ _ _)
              · have hf := clockNext_frame s shard now
                have ha1 := ha.frame hf
                have hl1 : lookup k (clockNext s shard now).2.entries = some cur := by rw [hf.1]; exact hl
                split
                · exact ha1
                · split
                  · exact ha1
                  · rename_i s2 hr
                    exact (replaceEntry_acc ha1 hl1 hr).1

theorem doIfAbsent_acc {s : State} (ha : Acc s) (k v : Bytes) (shard now : Nat) :
    Acc (doIfAbsent s k v shard now).1 := by
  unfold doIfAbsent
  split
  · exact ha
  · split
    · exact ha
    · split
      · exact ha
      · rename_i hl
        split
        · exact ha
        · rename_i s1 hr
          obtain ⟨e1, m1, c1, g1, _, _⟩ := reserve_spec hr
          have hf := clockNext_frame s1 shard now
          obtain ⟨hsum, hlen⟩ := memSum_put_new (c := s.cfg) (k := k)
            (e := ⟨v, (clockNext s1 shard now).1, 0⟩) hl
          have hmem := ha.mem
          have hcnt := ha.count
          dsimp only at hsum hlen
          simp only
          refine ⟨?_, ?_, ?_⟩
          · simp only [hf.1, e1]; exact sorted_put ha.sorted
          · simp only [hf.1, hf.2.1, hf.2.2.2, e1, m1, g1]; omega
          · simp only [hf.1, hf.2.2.1, e1, c1]; omega

theorem doPatch_acc {s : State} (ha : Acc s) (k : Bytes) (ts : Option Nat) (shard now : Nat) (p : Option Bytes) :
    Acc (doPatch s k ts shard now p).1 := by
  unfold doPatch
  split
  · exact ha
  · have ha1 := ha.frame (resolveTs_frame s ts shard now)
    simp only
    split
    · exact ha1
    · rename_i old hl
      split
      · exact ha1
      · split
        · exact ha1
        · split
          · exact ha1
          · split
            · exact ha1
            · split
              · exact ha1
              · split
                · exact ha1
                · rename_i s2 hr
                  exact (replaceEntry_acc ha1 hl hr).1.frame (observePublished_frame _ _ _ _)

theorem doUpdateTtl_acc {s : State} (ha : Acc s) (k : Bytes) (ttl shard now : Nat) :
    Acc (doUpdateTtl s k ttl shard now).1 := by
  unfold doUpdateTtl
  split
  · exact ha
  · split
    · exact ha
    · split
      · exact ha
      · split
        · exact ha
        · rename_i old hl
          split
          · exact ha
          · have hf := clockNext_frame s shard now
            have ha1 := ha.frame hf
            simp only
            split
            · exact ha1
            · have hl1 : lookup k (clockNext s shard now).2.entries = some old := by rw [hf.1]; exact hl
              obtain ⟨hsum, hlen⟩ := memSum_put_old (c := s.cfg)
                (e := ⟨old.val, max (clockNext s shard now).1 (old.ts + 1), ttlExpiry now ttl⟩) ha1.sorted hl1
              have hmem := ha.mem
              have hcnt := ha.count
              dsimp only at hsum hlen
              refine ⟨sorted_put ha1.sorted, ?_, ?_⟩
              · simp only [hf.2.1, hf.2.2.2]; simp only [hf.1] at hsum ⊢; omega
              · simp only [hf.2.2.1]; simp only [hf.1] at hlen ⊢; omega

theorem doReopen_acc {s : State} (ha : Acc s) (ttlOn : Bool) (now : Nat) (shards : List (Bytes × Nat)) :
    Acc (doReopen s ttlOn now shards) := by
  unfold doReopen
  split
  · exact ⟨by simp [Sorted], by simp [memSumOf], by simp⟩
  · simp only
    refine ⟨?_, rfl, rfl⟩
    split
    · exact ha.sorted.filter _
    · exact ha.sorted

/-- exact after every call: the accounting invariant is preserved by every operation of
the API, whatever its arguments and whether it succeeds or fails. -/
theorem step_acc {s : State} (ha : Acc s) (op : Op) : Acc (step s op).1 := by
  cases op with
  | insert k v ts ttl api shard now =>
    simp only [step]
    split
    · exact ha
    · split
      · exact ha
      · exact doInsert_acc ha ..
  | get k now => exact ha
  | getSize k => simp only [step]; split <;> (try split) <;> exact ha
  | contains k => exact ha
  | delete k ts shard now => exact doDelete_acc ha ..
  | cas k e n ts ttl shard now => exact doCas_acc ha ..
  | incr k d ts ttl shard now => exact doIncr_acc ha ..
  | ifAbsent k v shard now => exact doIfAbsent_acc ha ..
  | patch k ts shard now p => exact doPatch_acc ha ..
  | getTtl k now => simp only [step]; split <;> (try split) <;> (try split) <;> (try split) <;> (try split) <;> exact ha
  | updateTtl k ttl p shard now => exact doUpdateTtl_acc ha ..
  | range a b l now => simp only [step]; split <;> exact ha
  | len => exact ha
  | memUsage => exact ha
  | flush => exact ha
  | sweep now => exact sweepAll_acc ha now
  | reopen t now sh => exact doReopen_acc ha ..


theorem run_acc {s : State} (ha : Acc s) (ops : List Op) : Acc (run s ops).1 := by
  induction ops generalizing s with
  | nil => exact ha
  | cons op ops ih => simp only [run]; exact ih (step_acc ha op)

end Feox.Kv
