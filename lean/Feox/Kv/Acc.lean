import Feox.Kv.Lemmas
/-! The accounting invariant of `Kv.Spec` and its preservation by every building block. -/
namespace Feox.Kv
open Feox.Fmt

/-- **Accounting invariant**: keys strictly ascending (hence unique), memory = Σ live sizes,
count = number of live entries. -/
structure Acc (s : State) : Prop where
  sorted : Sorted s.entries
  mem : s.mem = memSumOf s.cfg s.entries
  count : s.count = s.entries.length

/-- only the version clock differs -/
def Frame (s s' : State) : Prop :=
  s'.entries = s.entries ∧ s'.mem = s.mem ∧ s'.count = s.count ∧ s'.cfg = s.cfg

theorem Frame.refl (s : State) : Frame s s := ⟨rfl, rfl, rfl, rfl⟩

theorem Frame.trans {a b c : State} (h1 : Frame a b) (h2 : Frame b c) : Frame a c :=
  ⟨h2.1.trans h1.1, h2.2.1.trans h1.2.1, h2.2.2.1.trans h1.2.2.1, h2.2.2.2.trans h1.2.2.2⟩

theorem Acc.frame {s s' : State} (h : Acc s) (f : Frame s s') : Acc s' :=
  ⟨by rw [f.1]; exact h.sorted, by rw [f.2.1, f.2.2.2, f.1]; exact h.mem, by rw [f.2.2.1, f.1]; exact h.count⟩

theorem clockNext_frame (s : State) (shard now : Nat) : Frame s (clockNext s shard now).2 := by
  simp [clockNext, Frame]

theorem clockObserve_frame (s : State) (shard ts : Nat) : Frame s (clockObserve s shard ts) := by
  unfold clockObserve
  split
  · exact Frame.refl s
  · split
    · simp [Frame]
    · exact Frame.refl s

theorem resolveTs_frame (s : State) (ts : Option Nat) (shard now : Nat) : Frame s (resolveTs s ts shard now).2.2 := by
  unfold resolveTs
  split
  · split
    · exact Frame.refl s
    · exact clockNext_frame s shard now
  · exact clockNext_frame s shard now

theorem observePublished_frame (s : State) (shard ts : Nat) (ex : Bool) : Frame s (observePublished s shard ts ex) := by
  unfold observePublished
  split
  · exact clockObserve_frame s shard ts
  · exact Frame.refl s

theorem reserve_spec {s s1 : State} {a : Nat} (h : reserve s a = some s1) :
    s1.entries = s.entries ∧ s1.mem = s.mem + a ∧ s1.count = s.count ∧ s1.cfg = s.cfg ∧ s1.clock = s.clock ∧
      (∀ L, s.cfg.maxMemory = some L → a = 0 ∨ s.mem + a ≤ L) := by
  unfold reserve at h
  split at h
  · rename_i h0
    cases h
    have : a = 0 := by simpa using h0
    subst this
    exact ⟨rfl, rfl, rfl, rfl, rfl, fun _ _ => Or.inl rfl⟩
  · split at h
    · rename_i hm
      cases h
      exact ⟨rfl, rfl, rfl, rfl, rfl, fun L hL => by rw [hm] at hL; cases hL⟩
    · rename_i limit hm
      split at h
      · cases h
      · rename_i hle
        cases h
        exact ⟨rfl, rfl, rfl, rfl, rfl, fun L hL => by rw [hm] at hL; cases hL; right; omega⟩

theorem replaceEntry_acc {s s2 : State} {k : Bytes} {old e : Entry} (ha : Acc s)
    (hl : lookup k s.entries = some old) (h : replaceEntry s k old e = some s2) :
    Acc s2 ∧ s2.entries = put k e s.entries ∧ s2.cfg = s.cfg ∧ s2.clock = s.clock := by
  unfold replaceEntry at h
  simp only at h
  split at h
  · cases h
  · rename_i s1 hr
    obtain ⟨e1, m1, c1, g1, k1, _⟩ := reserve_spec hr
    obtain ⟨hsum, hlen⟩ := memSum_put_old (c := s.cfg) (e := e) ha.sorted hl
    have hmem := ha.mem
    have hcnt := ha.count
    split at h
    · rename_i hgt
      cases h
      refine ⟨⟨?_, ?_, ?_⟩, by simp [e1], by simp [g1], by simp [k1]⟩
      · simp only [e1]; exact sorted_put ha.sorted
      · simp only [e1, g1, m1]; omega
      · simp only [e1, c1]; omega
    · rename_i hle
      cases h
      refine ⟨⟨?_, ?_, ?_⟩, by simp [e1], by simp [g1], by simp [k1]⟩
      · simp only [e1]; exact sorted_put ha.sorted
      · simp only [e1, g1, m1]; omega
      · simp only [e1, c1]; omega

theorem createEntry_acc {s s2 : State} {k : Bytes} {e : Entry} (ha : Acc s)
    (hl : lookup k s.entries = none) (h : createEntry s k e = some s2) :
    Acc s2 ∧ s2.entries = put k e s.entries ∧ s2.cfg = s.cfg ∧ s2.clock = s.clock := by
  unfold createEntry at h
  split at h
  · cases h
  · rename_i s1 hr
    obtain ⟨e1, m1, c1, g1, k1, _⟩ := reserve_spec hr
    obtain ⟨hsum, hlen⟩ := memSum_put_new (c := s.cfg) (e := e) hl
    have hmem := ha.mem
    have hcnt := ha.count
    cases h
    refine ⟨⟨?_, ?_, ?_⟩, by simp [e1], by simp [g1], by simp [k1]⟩
    · simp only [e1]; exact sorted_put ha.sorted
    · simp only [e1, g1, m1]; omega
    · simp only [e1, c1]; omega

theorem removeEntry_acc {s : State} {k : Bytes} {old : Entry} (ha : Acc s)
    (hl : lookup k s.entries = some old) : Acc (removeEntry s k old) := by
  obtain ⟨hsum, hlen⟩ := memSum_erase (c := s.cfg) hl
  have hmem := ha.mem
  have hcnt := ha.count
  refine ⟨sorted_erase ha.sorted, ?_, ?_⟩
  · simp only [removeEntry]; omega
  · simp only [removeEntry]; omega

theorem lookup_of_mem_sorted {l : List (Bytes × Entry)} (hs : Sorted l) {k : Bytes} {e : Entry}
    (h : (k, e) ∈ l) : lookup k l = some e := by
  induction l with
  | nil => simp at h
  | cons x xs ih =>
    obtain ⟨k2, e2⟩ := x
    unfold Sorted at hs
    rw [List.pairwise_cons] at hs
    rcases List.mem_cons.mp h with h | h
    · cases h; simp [lookup]
    · have hlt := hs.1 _ h
      have hne : (k == k2) = false := by
        simp; intro e; subst e; rw [bytesLt_irrefl] at hlt; cases hlt
      simp only [lookup, hne, Bool.false_eq_true, ↓reduceIte]
      exact ih hs.2 h

/-- the sweeper / lazy-retirement fold keeps the invariant -/
theorem sweepAll_acc {s : State} (ha : Acc s) (now : Nat) : Acc (sweepAll s now) := by
  unfold sweepAll
  -- generalise: fold over a list `rest` all of whose members are still present, unchanged, in `acc`
  suffices h : ∀ (rest : List (Bytes × Entry)) (acc : State), Acc acc → rest.Pairwise (fun x y => x.1 ≠ y.1) →
      (∀ ke ∈ rest, lookup ke.1 acc.entries = some ke.2) →
      Acc (rest.foldl (fun acc (ke : Bytes × Entry) =>
        if ke.2.expiry > 0 && ke.2.expiry < now then removeEntry acc ke.1 ke.2 else acc) acc) by
    apply h s.entries s ha
    · exact ha.sorted.imp (fun {a b} hab => bytesLt_ne hab)
    · intro ke hke; exact lookup_of_mem_sorted ha.sorted hke
  intro rest
  induction rest with
  | nil => intro acc hacc _ _; exact hacc
  | cons x xs ih =>
    intro acc hacc hnd hpres
    rw [List.pairwise_cons] at hnd
    simp only [List.foldl_cons]
    split
    · apply ih _ (removeEntry_acc hacc (hpres x List.mem_cons_self)) hnd.2
      intro ke hke
      simp only [removeEntry]
      rw [lookup_erase_other _ (fun e => (hnd.1 ke hke) e.symm)]
      exact hpres ke (List.mem_cons_of_mem _ hke)
    · exact ih _ hacc hnd.2 (fun ke hke => hpres ke (List.mem_cons_of_mem _ hke))

end Feox.Kv
