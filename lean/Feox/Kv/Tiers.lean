/-!
# Kv.Tiers — where a value lives, and why a read does not care

The flat reference map (`Kv.Spec`) says what every call returns.  The real store keeps the
current generation of a key in up to three places — the record's resident bytes, an extent on the
device, an entry of the read cache tagged with the generation — and moves it between them behind
the caller's back (write-behind flush, offload of the resident bytes once durable, cache fill on a
disk read, cache eviction, retirement and reuse of the extents of superseded generations).

This file models those moves as steps of a state machine and proves that none of them is visible:
`read` always returns the value of the generation the index holds (`read_abs`), the tier moves do
not change the abstract map (`move_abs`), and the invariant that makes this true survives every
step, API call or tier move, in any order (`step_inv`, `run_inv`).
-/
namespace Feox.Kv.Tiers

abbrev Key := Nat
abbrev Val := Nat

/-- one generation of a key (`Record`) -/
structure Gen where
  /-- identity (the `Arc` pointer): generations are never confused with one another -/
  id : Nat
  /-- ghost: the value this generation was created with -/
  val : Val
  /-- `record.value`: the resident bytes, until offloaded -/
  resident : Option Val
  /-- the extent, once the write-behind worker has written the record -/
  sector : Option Nat
  deriving DecidableEq, Repr

/-- one cache entry: key, generation tag, bytes -/
structure CEntry where
  key : Key
  tag : Nat
  val : Val
  deriving DecidableEq, Repr

structure State where
  index : Key → Option Gen
  /-- sector ↦ (generation id, bytes) of the record written there -/
  disk : Nat → Option (Nat × Val)
  cache : List CEntry
  nextId : Nat

inductive Res
  | value (v : Val)
  | notFound
  | stale          -- the identity check failed (never happens under the invariant)
  deriving DecidableEq, Repr

def cacheFind (c : List CEntry) (k : Key) (tag : Nat) : Option Val :=
  (c.find? (fun e => e.key == k && e.tag == tag)).map (·.val)

/-- the read path: resident bytes, else the cache entry of this generation, else the device,
accepted only if the extent still holds this generation -/
def read (s : State) (k : Key) : Res :=
  match s.index k with
  | none => .notFound
  | some g =>
    match g.resident with
    | some v => .value v
    | none =>
      match cacheFind s.cache k g.id with
      | some v => .value v
      | none =>
        match g.sector with
        | none => .stale
        | some sec =>
          match s.disk sec with
          | some (id, v) => if id = g.id then .value v else .stale
          | none => .stale

/-- the abstract map -/
def abs (s : State) (k : Key) : Option Val := (s.index k).map (·.val)

inductive Step
  /-- API: insert / update / CAS / increment / patch … — a new generation, resident, not yet written -/
  | put (k : Key) (v : Val)
  /-- API: delete (or removal of an expired key) -/
  | del (k : Key)
  /-- write-behind worker: the record of `k`'s current generation is written to free sector `sec` -/
  | writeOut (k : Key) (sec : Nat)
  /-- the resident bytes are dropped once the record is on the device -/
  | offload (k : Key)
  /-- a disk read fills the cache with what it read, tagged with the generation it read it for -/
  | cacheFill (k : Key)
  /-- eviction / invalidation of any cache entry -/
  | cacheDrop (i : Nat)
  /-- retirement: the extent of a superseded or deleted generation is overwritten and freed -/
  | retire (sec : Nat)
  deriving Repr

def update (f : Key → Option Gen) (k : Key) (g : Option Gen) : Key → Option Gen :=
  fun k' => if k' = k then g else f k'

/-- when the real code takes the step -/
def enabled (s : State) : Step → Prop
  | .put _ _ => True
  | .del _ => True
  | .writeOut k sec => ∃ g v, s.index k = some g ∧ g.resident = some v ∧ g.sector = none ∧ s.disk sec = none
  | .offload k => ∃ g sec, s.index k = some g ∧ g.sector = some sec
  | .cacheFill k => ∃ g sec v, s.index k = some g ∧ g.sector = some sec ∧ s.disk sec = some (g.id, v)
  | .cacheDrop _ => True
  | .retire sec => ∀ k g, s.index k = some g → g.sector ≠ some sec

def apply (s : State) : Step → State
  | .put k v => { s with index := update s.index k (some ⟨s.nextId, v, some v, none⟩), nextId := s.nextId + 1 }
  | .del k => { s with index := update s.index k none }
  | .writeOut k sec =>
    match s.index k with
    | some g => { s with index := update s.index k (some { g with sector := some sec }),
                         disk := fun x => if x = sec then some (g.id, g.val) else s.disk x }
    | none => s
  | .offload k =>
    match s.index k with
    | some g => { s with index := update s.index k (some { g with resident := none }) }
    | none => s
  | .cacheFill k =>
    match s.index k with
    | some g => { s with cache := ⟨k, g.id, g.val⟩ :: s.cache }
    | none => s
  | .cacheDrop i => { s with cache := s.cache.eraseIdx i }
  | .retire sec => { s with disk := fun x => if x = sec then none else s.disk x }

/-- what makes the read path right -/
structure Inv (s : State) : Prop where
  /-- resident bytes are the generation's value -/
  res : ∀ k g v, s.index k = some g → g.resident = some v → v = g.val
  /-- an extent an indexed generation points at holds that generation -/
  sec : ∀ k g sec, s.index k = some g → g.sector = some sec → s.disk sec = some (g.id, g.val)
  /-- a generation without resident bytes is on the device -/
  avail : ∀ k g, s.index k = some g → g.resident = none → ∃ sec, g.sector = some sec
  /-- a cache entry tagged with an indexed generation holds its value -/
  cache : ∀ e ∈ s.cache, ∀ g, s.index e.key = some g → g.id = e.tag → e.val = g.val
  /-- identities are fresh: everything in the index, on the device or in the cache is older than `nextId` -/
  idx : ∀ k g, s.index k = some g → g.id < s.nextId
  ctag : ∀ e ∈ s.cache, e.tag < s.nextId

def init : State := { index := fun _ => none, disk := fun _ => none, cache := [], nextId := 0 }

theorem inv_init : Inv init := by
  constructor <;> intros <;> simp_all [init]

theorem cacheFind_some {c : List CEntry} {k : Key} {tag : Nat} {v : Val} (h : cacheFind c k tag = some v) :
    ∃ e ∈ c, e.key = k ∧ e.tag = tag ∧ e.val = v := by
  unfold cacheFind at h
  cases hf : c.find? (fun e => e.key == k && e.tag == tag) with
  | none => rw [hf] at h; cases h
  | some e =>
    rw [hf] at h
    have hp := List.find?_some hf
    have hm := List.mem_of_find?_eq_some hf
    simp only [Bool.and_eq_true, beq_iff_eq] at hp
    exact ⟨e, hm, hp.1, hp.2, by simpa using h⟩

/-- **A read returns the value of the indexed generation, wherever it currently lives** -/
theorem read_abs {s : State} (hi : Inv s) (k : Key) :
    read s k = match abs s k with | none => .notFound | some v => .value v := by
  unfold read abs
  cases hg : s.index k with
  | none => rfl
  | some g =>
    simp only [Option.map_some]
    cases hr : g.resident with
    | some v => simp only; rw [hi.res k g v hg hr]
    | none =>
      simp only
      cases hc : cacheFind s.cache k g.id with
      | some v =>
        obtain ⟨e, hm, hk, ht, hv⟩ := cacheFind_some hc
        have := hi.cache e hm g (by rw [hk]; exact hg) ht.symm
        simp only; rw [← hv, this]
      | none =>
        obtain ⟨sec, hs⟩ := hi.avail k g hg hr
        have hd := hi.sec k g sec hg hs
        simp [hs, hd]

theorem update_same (f : Key → Option Gen) (k : Key) (g : Option Gen) : update f k g k = g := by simp [update]
theorem update_other (f : Key → Option Gen) (k k' : Key) (g : Option Gen) (h : k' ≠ k) : update f k g k' = f k' := by simp [update, h]

/-- **Every step — API call or tier move, in any order — keeps the invariant** -/
theorem step_inv {s : State} (st : Step) (hi : Inv s) (he : enabled s st) : Inv (apply s st) := by
  cases st with
  | put k v =>
    simp only [apply]
    refine ⟨?_, ?_, ?_, ?_, ?_, ?_⟩
    all_goals dsimp only
    · intro k' g v' hg hr
      by_cases hk : k' = k
      · subst hk; rw [update_same] at hg; cases hg; simp at hr; exact hr.symm
      · rw [update_other _ _ _ _ hk] at hg; exact hi.res k' g v' hg hr
    · intro k' g sec hg hs
      by_cases hk : k' = k
      · subst hk; rw [update_same] at hg; cases hg; simp at hs
      · rw [update_other _ _ _ _ hk] at hg; exact hi.sec k' g sec hg hs
    · intro k' g hg hr
      by_cases hk : k' = k
      · subst hk; rw [update_same] at hg; cases hg; simp at hr
      · rw [update_other _ _ _ _ hk] at hg; exact hi.avail k' g hg hr
    · intro e he' g hg ht
      by_cases hk : e.key = k
      · rw [hk, update_same] at hg; cases hg
        have := hi.ctag e he'
        simp at ht; omega
      · rw [update_other _ _ _ _ hk] at hg; exact hi.cache e he' g hg ht
    · intro k' g hg
      by_cases hk : k' = k
      · subst hk; rw [update_same] at hg; cases hg; simp
      · rw [update_other _ _ _ _ hk] at hg; have := hi.idx k' g hg; simp; omega
    · intro e he'; have := hi.ctag e he'; simp; omega
  | del k =>
    simp only [apply]
    refine ⟨?_, ?_, ?_, ?_, ?_, hi.ctag⟩
    all_goals dsimp only
    · intro k' g v' hg hr
      by_cases hk : k' = k
      · subst hk; rw [update_same] at hg; cases hg
      · rw [update_other _ _ _ _ hk] at hg; exact hi.res k' g v' hg hr
    · intro k' g sec hg hs
      by_cases hk : k' = k
      · subst hk; rw [update_same] at hg; cases hg
      · rw [update_other _ _ _ _ hk] at hg; exact hi.sec k' g sec hg hs
    · intro k' g hg hr
      by_cases hk : k' = k
      · subst hk; rw [update_same] at hg; cases hg
      · rw [update_other _ _ _ _ hk] at hg; exact hi.avail k' g hg hr
    · intro e he' g hg ht
      by_cases hk : e.key = k
      · rw [hk, update_same] at hg; cases hg
      · rw [update_other _ _ _ _ hk] at hg; exact hi.cache e he' g hg ht
    · intro k' g hg
      by_cases hk : k' = k
      · subst hk; rw [update_same] at hg; cases hg
      · rw [update_other _ _ _ _ hk] at hg; exact hi.idx k' g hg
  | writeOut k sec =>
    obtain ⟨g, v, hg, hr, hs, hd⟩ := he
    simp only [apply, hg]
    refine ⟨?_, ?_, ?_, ?_, ?_, hi.ctag⟩
    all_goals dsimp only
    · intro k' g' v' hg' hr'
      by_cases hk : k' = k
      · subst hk; rw [update_same] at hg'; cases hg'; exact hi.res k' g v' hg hr'
      · rw [update_other _ _ _ _ hk] at hg'; exact hi.res k' g' v' hg' hr'
    · intro k' g' sec' hg' hs'
      by_cases hk : k' = k
      · subst hk; rw [update_same] at hg'; cases hg'
        simp at hs'; subst hs'; simp
      · rw [update_other _ _ _ _ hk] at hg'
        have := hi.sec k' g' sec' hg' hs'
        have hne : sec' ≠ sec := by intro e; subst e; rw [hd] at this; cases this
        simp [hne, this]
    · intro k' g' hg' hr'
      by_cases hk : k' = k
      · subst hk; rw [update_same] at hg'; cases hg'; exact ⟨sec, rfl⟩
      · rw [update_other _ _ _ _ hk] at hg'; exact hi.avail k' g' hg' hr'
    · intro e he' g' hg' ht
      by_cases hk : e.key = k
      · rw [hk, update_same] at hg'; cases hg'
        exact hi.cache e he' g (by rw [hk]; exact hg) ht
      · rw [update_other _ _ _ _ hk] at hg'; exact hi.cache e he' g' hg' ht
    · intro k' g' hg'
      by_cases hk : k' = k
      · subst hk; rw [update_same] at hg'; cases hg'; exact hi.idx k' g hg
      · rw [update_other _ _ _ _ hk] at hg'; exact hi.idx k' g' hg'
  | offload k =>
    obtain ⟨g, sec, hg, hs⟩ := he
    simp only [apply, hg]
    refine ⟨?_, ?_, ?_, ?_, ?_, hi.ctag⟩
    all_goals dsimp only
    · intro k' g' v' hg' hr'
      by_cases hk : k' = k
      · subst hk; rw [update_same] at hg'; cases hg'; simp at hr'
      · rw [update_other _ _ _ _ hk] at hg'; exact hi.res k' g' v' hg' hr'
    · intro k' g' sec' hg' hs'
      by_cases hk : k' = k
      · subst hk; rw [update_same] at hg'; cases hg'; exact hi.sec k' g sec' hg hs'
      · rw [update_other _ _ _ _ hk] at hg'; exact hi.sec k' g' sec' hg' hs'
    · intro k' g' hg' hr'
      by_cases hk : k' = k
      · subst hk; rw [update_same] at hg'; cases hg'; exact ⟨sec, hs⟩
      · rw [update_other _ _ _ _ hk] at hg'; exact hi.avail k' g' hg' hr'
    · intro e he' g' hg' ht
      by_cases hk : e.key = k
      · rw [hk, update_same] at hg'; cases hg'
        exact hi.cache e he' g (by rw [hk]; exact hg) ht
      · rw [update_other _ _ _ _ hk] at hg'; exact hi.cache e he' g' hg' ht
    · intro k' g' hg'
      by_cases hk : k' = k
      · subst hk; rw [update_same] at hg'; cases hg'; exact hi.idx k' g hg
      · rw [update_other _ _ _ _ hk] at hg'; exact hi.idx k' g' hg'
  | cacheFill k =>
    obtain ⟨g, sec, v, hg, hs, hd⟩ := he
    simp only [apply, hg]
    refine ⟨hi.res, hi.sec, hi.avail, ?_, hi.idx, ?_⟩
    all_goals dsimp only
    · intro e he' g' hg' ht
      rcases List.mem_cons.mp he' with rfl | he''
      · simp at hg' ht ⊢; rw [hg] at hg'; cases hg'; rfl
      · exact hi.cache e he'' g' hg' ht
    · intro e he'
      rcases List.mem_cons.mp he' with rfl | he''
      · exact hi.idx k g hg
      · exact hi.ctag e he''
  | cacheDrop i =>
    simp only [apply]
    exact ⟨hi.res, hi.sec, hi.avail, fun e he' => hi.cache e (List.mem_of_mem_eraseIdx he'), hi.idx,
      fun e he' => hi.ctag e (List.mem_of_mem_eraseIdx he')⟩
  | retire sec =>
    simp only [apply]
    refine ⟨hi.res, ?_, hi.avail, hi.cache, hi.idx, hi.ctag⟩
    all_goals dsimp only
    intro k g sec' hg hs
    have hne : sec' ≠ sec := by intro e; subst e; exact he k g hg hs
    simp [hne]; exact hi.sec k g sec' hg hs

/-- the tier moves are invisible in the abstract map -/
theorem move_abs (s : State) (st : Step) (he : enabled s st)
    (hm : match st with | .put _ _ => False | .del _ => False | _ => True) (k : Key) :
    abs (apply s st) k = abs s k := by
  cases st with
  | put _ _ => cases hm
  | del _ => cases hm
  | writeOut k' sec =>
    obtain ⟨g, v, hg, _, _, _⟩ := he
    simp only [apply, hg, abs]
    by_cases hk : k = k'
    · subst hk; rw [update_same, hg]; rfl
    · rw [update_other _ _ _ _ hk]
  | offload k' =>
    obtain ⟨g, sec, hg, _⟩ := he
    simp only [apply, hg, abs]
    by_cases hk : k = k'
    · subst hk; rw [update_same, hg]; rfl
    · rw [update_other _ _ _ _ hk]
  | cacheFill k' =>
    obtain ⟨g, sec, v, hg, _, _⟩ := he
    simp only [apply, hg, abs]
  | cacheDrop _ => rfl
  | retire _ => rfl

/-- the API steps act on the abstract map as on a plain map -/
theorem put_abs (s : State) (k : Key) (v : Val) (k' : Key) :
    abs (apply s (.put k v)) k' = if k' = k then some v else abs s k' := by
  simp only [apply, abs, update]; split <;> rfl

theorem del_abs (s : State) (k k' : Key) :
    abs (apply s (.del k)) k' = if k' = k then none else abs s k' := by
  simp only [apply, abs, update]; split <;> rfl

/-- a run: every step enabled where it is taken -/
def Run : State → List Step → Prop
  | _, [] => True
  | s, st :: rest => enabled s st ∧ Run (apply s st) rest

def runFrom (s : State) (l : List Step) : State := l.foldl apply s

theorem run_inv : ∀ (l : List Step) (s : State), Inv s → Run s l → Inv (runFrom s l) := by
  intro l
  induction l with
  | nil => intro s hi _; exact hi
  | cons st rest ih => intro s hi hr; exact ih _ (step_inv st hi hr.1) hr.2

/-- the plain map: what one step does to the value of key `k` -/
def specStep (k : Key) (acc : Option Val) : Step → Option Val
  | .put k' v => if k = k' then some v else acc
  | .del k' => if k = k' then none else acc
  | _ => acc

/-- the plain map replayed over a step list (tier moves are no-ops) -/
def specAfter (l : List Step) (k : Key) : Option Val := l.foldl (specStep k) none

theorem abs_step (s : State) (st : Step) (he : enabled s st) (m : Key → Option Val) (h : ∀ k, abs s k = m k) (k : Key) :
    abs (apply s st) k = specStep k (m k) st := by
  cases st with
  | put k' v => rw [put_abs, h]; rfl
  | del k' => rw [del_abs, h]; rfl
  | writeOut a b => rw [move_abs s _ he trivial, h]; rfl
  | offload a => rw [move_abs s _ he trivial, h]; rfl
  | cacheFill a => rw [move_abs s _ he trivial, h]; rfl
  | cacheDrop a => rw [move_abs s _ he trivial, h]; rfl
  | retire a => rw [move_abs s _ he trivial, h]; rfl

theorem abs_run : ∀ (l : List Step) (s : State) (m : Key → Option Val), Run s l → (∀ k, abs s k = m k) →
    ∀ k, abs (runFrom s l) k = l.foldl (specStep k) (m k) := by
  intro l
  induction l with
  | nil => intro s m _ h k; exact h k
  | cons st rest ih =>
    intro s m hr h k
    simp only [runFrom, List.foldl_cons]
    have := ih (apply s st) (fun k => specStep k (m k) st) hr.2 (abs_step s st hr.1 m h) k
    simpa [runFrom] using this

/-- **Refinement to the plain map**: after any run from the empty store — API calls interleaved
with any tier moves, each taken where the real code can take it — every key reads as the last
value put and not deleted since -/
theorem read_after_run (l : List Step) (hr : Run init l) (k : Key) :
    read (runFrom init l) k = match specAfter l k with | none => .notFound | some v => .value v := by
  rw [read_abs (run_inv l init inv_init hr) k, abs_run l init (fun _ => none) hr (fun _ => rfl) k]
  rfl

/-! ### The per-key view the hooks expose, as an executable monitor

`verif_tiers(key)` reports, for the generation the index currently holds, whether the bytes are
resident, whether the record has an extent, and whether the cache holds an entry tagged with this
very generation — each with the bytes found there.  `move` lists the single tier moves of one
generation, `reach` their closure (several moves may happen between two observations). -/

structure Obs where
  resident : Bool
  onDisk : Bool
  cached : Bool
  deriving DecidableEq, Repr

def obsOf (s : State) (k : Key) : Option (Nat × Obs) :=
  (s.index k).map fun g => (g.id, ⟨g.resident.isSome, g.sector.isSome, (cacheFind s.cache k g.id).isSome⟩)

/-- one tier move of an unchanged generation -/
def move (a b : Obs) : Bool :=
  (a.resident && !a.onDisk && b == { a with onDisk := true }) ||      -- written out
  (a.resident && a.onDisk && b == { a with resident := false }) ||   -- offloaded
  (a.onDisk && !a.cached && b == { a with cached := true }) ||        -- cache fill after a disk read
  (a.cached && b == { a with cached := false })                        -- evicted / invalidated

def allObs : List Obs :=
  [true, false].flatMap fun r => [true, false].flatMap fun d => [true, false].map fun c => ⟨r, d, c⟩

def closure : Nat → List Obs → List Obs
  | 0, l => l
  | n + 1, l => closure n (l ++ (allObs.filter fun b => !l.contains b && l.any fun a => move a b))

/-- `b` can be observed after `a` for the same generation -/
def reach (a b : Obs) : Bool := (closure 8 [a]).contains b

/-- a generation as `put` creates it -/
def fresh : Obs := ⟨true, false, false⟩

/-- whatever moves happen, the bytes stay available somewhere durable-or-resident … -/
theorem reach_available : ∀ b ∈ allObs, reach fresh b = true → (b.resident || b.onDisk) = true := by decide

/-- … a cache entry of a generation implies its record is on the device … -/
theorem reach_cached_on_disk : ∀ b ∈ allObs, reach fresh b = true → b.cached = true → b.onDisk = true := by decide

/-- … an extent, once assigned, stays; resident bytes, once dropped, do not come back -/
theorem reach_monotone : ∀ a ∈ allObs, ∀ b ∈ allObs, reach fresh a = true → reach a b = true →
    (a.onDisk = true → b.onDisk = true) ∧ (a.resident = false → b.resident = false) := by decide

theorem reach_refl : ∀ a ∈ allObs, reach a a = true := by decide

/-- the monitor's verdict on two consecutive observations of a key: `(id, obs)` each, `none` = absent -/
def verdict (before after : Option (Nat × Obs)) : Bool :=
  match before, after with
  | _, none => true
  | some (i, a), some (j, b) => if i = j then reach a b else reach fresh b
  | none, some (_, b) => reach fresh b

theorem cacheFind_isSome_of_mem {c : List CEntry} {k : Key} {tag : Nat} {e : CEntry} (he : e ∈ c) (hk : e.key = k) (ht : e.tag = tag) :
    (cacheFind c k tag).isSome = true := by
  unfold cacheFind
  rw [Option.isSome_map]
  rw [List.find?_isSome]
  exact ⟨e, he, by simp [hk, ht]⟩

theorem cacheFind_eraseIdx {c : List CEntry} {k : Key} {tag i : Nat} (h : (cacheFind (c.eraseIdx i) k tag).isSome = true) :
    (cacheFind c k tag).isSome = true := by
  unfold cacheFind at h
  rw [Option.isSome_map, List.find?_isSome] at h
  obtain ⟨e, he, hp⟩ := h
  simp only [Bool.and_eq_true, beq_iff_eq] at hp
  exact cacheFind_isSome_of_mem (List.mem_of_mem_eraseIdx he) hp.1 hp.2

theorem cacheFind_cons_other {c : List CEntry} {k k' : Key} {tag tag' : Nat} {v : Val} (h : k ≠ k') :
    cacheFind (⟨k', tag', v⟩ :: c) k tag = cacheFind c k tag := by
  unfold cacheFind
  have : (k' == k) = false := by simp; exact fun e => h e.symm
  simp [List.find?_cons, this]

/-- **The monitor accepts every run of the model**: a step leaves the hooks' view of a key's
generation unchanged or changes it by one `move` -/
theorem step_obs {s : State} (st : Step) (hi : Inv s) (he : enabled s st) (k : Key) (id : Nat) (a b : Obs)
    (ha : obsOf s k = some (id, a)) (hb : obsOf (apply s st) k = some (id, b)) : a = b ∨ move a b = true := by
  unfold obsOf at ha hb
  cases hg : s.index k with
  | none => rw [hg] at ha; cases ha
  | some g =>
    rw [hg] at ha
    simp only [Option.map_some, Option.some.injEq, Prod.mk.injEq] at ha
    obtain ⟨hid, hao⟩ := ha
    cases st with
    | put k' v =>
      simp only [apply] at hb
      by_cases hk : k = k'
      · subst hk
        rw [update_same] at hb
        simp only [Option.map_some, Option.some.injEq, Prod.mk.injEq] at hb
        have := hi.idx k g hg
        omega
      · rw [update_other _ _ _ _ hk, hg] at hb
        simp only [Option.map_some, Option.some.injEq, Prod.mk.injEq] at hb
        left; rw [← hao, ← hb.2]
    | del k' =>
      simp only [apply] at hb
      by_cases hk : k = k'
      · subst hk; rw [update_same] at hb; cases hb
      · rw [update_other _ _ _ _ hk, hg] at hb
        simp only [Option.map_some, Option.some.injEq, Prod.mk.injEq] at hb
        left; rw [← hao, ← hb.2]
    | writeOut k' sec =>
      obtain ⟨g', v, hg', hr, hs, hd⟩ := he
      simp only [apply, hg'] at hb
      by_cases hk : k = k'
      · subst hk
        rw [hg] at hg'; cases hg'
        rw [update_same] at hb
        simp only [Option.map_some, Option.some.injEq, Prod.mk.injEq] at hb
        right
        rw [← hao, ← hb.2]
        simp [move, hr, hs]
      · rw [update_other _ _ _ _ hk, hg] at hb
        simp only [Option.map_some, Option.some.injEq, Prod.mk.injEq] at hb
        left; rw [← hao, ← hb.2]
    | offload k' =>
      obtain ⟨g', sec, hg', hs⟩ := he
      simp only [apply, hg'] at hb
      by_cases hk : k = k'
      · subst hk
        rw [hg] at hg'; cases hg'
        rw [update_same] at hb
        simp only [Option.map_some, Option.some.injEq, Prod.mk.injEq] at hb
        rw [← hao, ← hb.2]
        cases hr : g.resident with
        | none => left; simp [hr]
        | some v => right; simp [move, hr, hs]
      · rw [update_other _ _ _ _ hk, hg] at hb
        simp only [Option.map_some, Option.some.injEq, Prod.mk.injEq] at hb
        left; rw [← hao, ← hb.2]
    | cacheFill k' =>
      obtain ⟨g', sec, v, hg', hs, hd⟩ := he
      simp only [apply, hg'] at hb
      rw [hg] at hb
      simp only [Option.map_some, Option.some.injEq, Prod.mk.injEq] at hb
      rw [← hao, ← hb.2]
      by_cases hk : k = k'
      · subst hk
        rw [hg] at hg'; cases hg'
        have hnew : (cacheFind (⟨k, g.id, g.val⟩ :: s.cache) k g.id).isSome = true :=
          cacheFind_isSome_of_mem (List.mem_cons_self ..) rfl rfl
        cases hc : (cacheFind s.cache k g.id).isSome with
        | true => left; simp [hnew]
        | false => right; simp [move, hnew, hs]
      · left; rw [cacheFind_cons_other hk]
    | cacheDrop i =>
      simp only [apply] at hb
      rw [hg] at hb
      simp only [Option.map_some, Option.some.injEq, Prod.mk.injEq] at hb
      rw [← hao, ← hb.2]
      cases hc : (cacheFind s.cache k g.id).isSome with
      | false =>
        left
        cases hc' : (cacheFind (s.cache.eraseIdx i) k g.id).isSome with
        | false => rfl
        | true => have := cacheFind_eraseIdx hc'; rw [hc] at this; cases this
      | true =>
        cases hc' : (cacheFind (s.cache.eraseIdx i) k g.id).isSome with
        | true => left; rfl
        | false => right; simp [move]
    | retire sec =>
      simp only [apply] at hb
      rw [hg] at hb
      simp only [Option.map_some, Option.some.injEq, Prod.mk.injEq] at hb
      left; rw [← hao, ← hb.2]

/-! ### non-vacuity: a run through every kind of step -/
example :
    let l : List Step := [.put 1 10, .writeOut 1 16, .offload 1, .cacheFill 1, .put 1 11, .retire 16, .cacheDrop 0, .del 1, .put 2 5]
    Run init l ∧ read (runFrom init l) 1 = .notFound ∧ read (runFrom init l) 2 = .value 5 ∧
    read (runFrom init (l.take 4)) 1 = .value 10 ∧ obsOf (runFrom init (l.take 4)) 1 = some (0, ⟨false, true, true⟩) := by
  refine ⟨?_, by decide, by decide, by decide, by decide⟩
  simp [Run, enabled, apply, init, update]
  intro k g
  split
  · intro hg; cases hg; simp
  · intro hg; cases hg

end Feox.Kv.Tiers
