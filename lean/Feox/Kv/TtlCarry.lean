/-!
# Kv.TtlCarry — a TTL-only update carries the value over, whatever the cache holds

`update_ttl` on a key whose value has been offloaded creates the next generation without reading
the device when the read cache has the bytes: `ClockCache::record_entry` hands over the cache
slot *of the generation being replaced*.  The cache may also hold slots tagged with generations
that are long gone (a reader that started before a replacement fills the cache afterwards; the
slot is harmless for lookups, which match the generation).  This file proves that picking the
slot by exact generation keeps the value under every history of writes, cache fills — timely and
late —, evictions and TTL changes, and exhibits what picking "any slot this generation may take
over" does (seeded change C16-5).
-/
namespace Feox.Kv.TtlCarry

structure Slot where
  tag : Nat
  bytes : Nat
  deriving DecidableEq, Repr

structure St where
  /-- the key's current generation: identity and (ghost) value; `none` = absent -/
  cur : Option (Nat × Nat) := none
  nextId : Nat := 0
  /-- cache slots of this key, newest first -/
  cache : List Slot := []
  deriving DecidableEq, Repr

inductive Pick | exact | loose
  deriving DecidableEq, Repr

inductive Ev
  | put (v : Nat)                 -- insert / update / CAS …: a new generation
  | del
  | fill                          -- a read of the current generation fills the cache
  | lateFill (tag bytes : Nat)    -- a reader that began under an earlier generation fills the cache now
  | evict (i : Nat)
  | ttlUpdate                     -- TTL-only update: next generation, bytes carried over
  deriving DecidableEq, Repr

/-- the bytes `update_ttl` gives the new generation: the cache slot it is handed, else the
generation's own bytes (resident or read from the device under the identity check) -/
def carried (p : Pick) (cache : List Slot) (id val : Nat) : Nat :=
  match p with
  | .exact => match cache.find? (fun s => s.tag == id) with
    | some s => s.bytes
    | none => val
  | .loose => match cache.head? with      -- any slot of the key: the current generation "may take it over"
    | some s => s.bytes
    | none => val

/-- when the real code can take the step -/
def enabled (s : St) : Ev → Prop
  | .lateFill tag _ => tag < s.nextId ∧ ∀ c, s.cur = some c → c.1 ≠ tag
  | _ => True

def step (p : Pick) (s : St) : Ev → St
  | .put v => { s with cur := some (s.nextId, v), nextId := s.nextId + 1 }
  | .del => { s with cur := none }
  | .fill => match s.cur with
    | some (id, v) => { s with cache := ⟨id, v⟩ :: s.cache }
    | none => s
  | .lateFill tag bytes => { s with cache := ⟨tag, bytes⟩ :: s.cache }
  | .evict i => { s with cache := s.cache.eraseIdx i }
  | .ttlUpdate => match s.cur with
    | some (id, v) => { s with cur := some (s.nextId, carried p s.cache id v), nextId := s.nextId + 1 }
    | none => s

/-- what the caller is promised: only writes and deletes change the value -/
def specStep (m : Option Nat) : Ev → Option Nat
  | .put v => some v
  | .del => none
  | _ => m

def value (s : St) : Option Nat := s.cur.map (·.2)

structure Inv (s : St) : Prop where
  cur : ∀ c, s.cur = some c → c.1 < s.nextId
  tags : ∀ sl ∈ s.cache, sl.tag < s.nextId
  /-- a slot tagged with the current generation holds its value (slots of dead generations: anything) -/
  own : ∀ sl ∈ s.cache, ∀ c, s.cur = some c → sl.tag = c.1 → sl.bytes = c.2

theorem inv_init : Inv {} := ⟨by simp, by simp, by simp⟩

theorem carried_exact {s : St} (h : Inv s) (id v : Nat) (hc : s.cur = some (id, v)) :
    carried .exact s.cache id v = v := by
  unfold carried
  cases hf : s.cache.find? (fun sl => sl.tag == id) with
  | none => rfl
  | some sl =>
    have hm := List.mem_of_find?_eq_some hf
    have ht := List.find?_some hf
    simp only [beq_iff_eq] at ht
    exact h.own sl hm (id, v) hc ht

theorem step_inv {s : St} (e : Ev) (h : Inv s) (he : enabled s e) : Inv (step .exact s e) := by
  cases e with
  | put v =>
    refine ⟨?_, ?_, ?_⟩
    · intro c hc; simp [step] at hc; subst hc; simp [step]
    · intro sl hm; have := h.tags sl hm; simp [step] at hm ⊢; omega
    · intro sl hm c hc ht
      simp [step] at hm hc; subst hc
      have := h.tags sl hm; simp at ht; omega
  | del => exact ⟨by simp [step], h.tags, by simp [step]⟩
  | fill =>
    simp only [step]
    split
    · rename_i id v hc
      refine ⟨h.cur, ?_, ?_⟩
      · intro sl hm
        rcases List.mem_cons.mp hm with rfl | hm'
        · exact h.cur (id, v) hc
        · exact h.tags sl hm'
      · intro sl hm c hc' ht
        rcases List.mem_cons.mp hm with rfl | hm'
        · simp only at hc'; rw [hc] at hc'; cases hc'; rfl
        · exact h.own sl hm' c hc' ht
    · exact h
  | lateFill tag bytes =>
    obtain ⟨h1, h2⟩ := he
    refine ⟨h.cur, ?_, ?_⟩
    · intro sl hm
      rcases List.mem_cons.mp hm with rfl | hm'
      · exact h1
      · exact h.tags sl hm'
    · intro sl hm c hc ht
      rcases List.mem_cons.mp hm with rfl | hm'
      · exact absurd ht.symm (h2 c hc)
      · exact h.own sl hm' c hc ht
  | evict i =>
    exact ⟨h.cur, fun sl hm => h.tags sl (List.mem_of_mem_eraseIdx hm),
      fun sl hm c hc ht => h.own sl (List.mem_of_mem_eraseIdx hm) c hc ht⟩
  | ttlUpdate =>
    simp only [step]
    split
    · rename_i id v hc
      refine ⟨?_, ?_, ?_⟩
      · intro c hc'; simp at hc'; subst hc'; simp
      · intro sl hm; have := h.tags sl hm; simp at hm ⊢; omega
      · intro sl hm c hc' ht
        simp at hm hc'; subst hc'
        have := h.tags sl hm; simp at ht; omega
    · exact h

/-- **Picked by exact generation, the carried bytes are the value**: a TTL-only update — like a
cache fill, a late fill or an eviction — never changes what the key reads -/
theorem step_value {s : St} (e : Ev) (h : Inv s) : value (step .exact s e) = specStep (value s) e := by
  cases e with
  | put v => simp [step, value, specStep]
  | del => simp [step, value, specStep]
  | fill => simp only [step, specStep]; split <;> rfl
  | lateFill _ _ => rfl
  | evict _ => rfl
  | ttlUpdate =>
    simp only [step, specStep]
    split
    · rename_i id v hc
      simp only [value, hc, Option.map_some]
      rw [carried_exact h id v hc]
    · rfl

inductive Run : St → List Ev → St → Prop
  | nil (s) : Run s [] s
  | cons {s e es t} : enabled s e → Run (step .exact s e) es t → Run s (e :: es) t

/-- every reachable state reads as the last write says, whatever happened to the cache and however
many TTL changes came in between -/
theorem run_value {s t : St} {es : List Ev} (hr : Run s es t) (h : Inv s) :
    Inv t ∧ value t = es.foldl specStep (value s) := by
  induction hr with
  | nil s => exact ⟨h, rfl⟩
  | cons he _ ih =>
    obtain ⟨hi, hv⟩ := ih (step_inv _ h he)
    exact ⟨hi, by rw [hv, step_value _ h]; rfl⟩

/-- **… picked loosely, they are not** (C16-5): write 7, replace it by 9, a reader of the first
generation fills the cache late, a TTL change follows — and the key reads 7 -/
theorem loose_pick_resurrects :
    let evs : List Ev := [.put 7, .put 9, .lateFill 0 7, .ttlUpdate]
    value (evs.foldl (step .loose) {}) = some 7 ∧ evs.foldl specStep none = some 9 ∧
    value (evs.foldl (step .exact) {}) = some 9 := by
  decide

/-- the late fill of that history is one the real code can make -/
example : enabled ([Ev.put 7, .put 9].foldl (step .exact) {}) (.lateFill 0 7) := by
  refine ⟨by decide, ?_⟩
  intro c hc
  have : c = (1, 9) := by
    have h : ([Ev.put 7, .put 9].foldl (step .exact) {}).cur = some (1, 9) := by decide
    rw [h] at hc; exact (Option.some.inj hc).symm
  subst this; decide

end Feox.Kv.TtlCarry
