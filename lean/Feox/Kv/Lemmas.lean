import Feox.Kv.Spec
/-! Helper lemmas for `Kv.Spec`: byte order, the sorted association list, size sums. -/
namespace Feox.Kv
open Feox.Fmt

/-! ### byte-lexicographic order -/

theorem bytesLt_irrefl (a : Bytes) : bytesLt a a = false := by
  induction a with
  | nil => rfl
  | cons x xs ih => simp [bytesLt, ih]

theorem bytesLt_trans {a b c : Bytes} (h1 : bytesLt a b = true) (h2 : bytesLt b c = true) :
    bytesLt a c = true := by
  induction a generalizing b c with
  | nil =>
    cases b with
    | nil => simp [bytesLt] at h1
    | cons y ys =>
      cases c with
      | nil => simp [bytesLt] at h2
      | cons z zs => simp [bytesLt]
  | cons x xs ih =>
    cases b with
    | nil => simp [bytesLt] at h1
    | cons y ys =>
      cases c with
      | nil => simp [bytesLt] at h2
      | cons z zs =>
        simp only [bytesLt, Bool.or_eq_true, decide_eq_true_eq, Bool.and_eq_true, beq_iff_eq] at h1 h2 ⊢
        rcases h1 with h1 | ⟨h1, h1'⟩ <;> rcases h2 with h2 | ⟨h2, h2'⟩
        · left; exact UInt8.lt_trans h1 h2
        · left; rw [← h2]; exact h1
        · left; rw [h1]; exact h2
        · right; exact ⟨h1.trans h2, ih h1' h2'⟩

theorem bytesLt_asymm {a b : Bytes} (h : bytesLt a b = true) : bytesLt b a = false := by
  cases hb : bytesLt b a with
  | false => rfl
  | true => have := bytesLt_trans h hb; rw [bytesLt_irrefl] at this; cases this

theorem bytesLt_total (a b : Bytes) : bytesLt a b = true ∨ a = b ∨ bytesLt b a = true := by
  induction a generalizing b with
  | nil =>
    cases b with
    | nil => right; left; rfl
    | cons y ys => left; simp [bytesLt]
  | cons x xs ih =>
    cases b with
    | nil => right; right; simp [bytesLt]
    | cons y ys =>
      simp only [bytesLt, Bool.or_eq_true, decide_eq_true_eq, Bool.and_eq_true, beq_iff_eq]
      by_cases hxy : x = y
      · subst hxy
        rcases ih ys with h | h | h
        · left; right; exact ⟨rfl, h⟩
        · right; left; rw [h]
        · right; right; right; exact ⟨rfl, h⟩
      · have hne : x.toNat ≠ y.toNat := fun h => hxy (UInt8.toNat_inj.mp h)
        rcases Nat.lt_or_gt_of_ne hne with h | h
        · left; left; exact UInt8.lt_iff_toNat_lt.mpr h
        · right; right; left; exact UInt8.lt_iff_toNat_lt.mpr h

theorem bytesLt_ne {a b : Bytes} (h : bytesLt a b = true) : a ≠ b := by
  intro e; subst e; rw [bytesLt_irrefl] at h; cases h

/-! ### the association list -/

/-- keys strictly ascending -/
def Sorted (l : List (Bytes × Entry)) : Prop := l.Pairwise (fun x y => bytesLt x.1 y.1 = true)

theorem lookup_put_same (k : Bytes) (e : Entry) (l : List (Bytes × Entry)) : lookup k (put k e l) = some e := by
  induction l with
  | nil => simp [put, lookup]
  | cons x xs ih =>
    obtain ⟨k', e'⟩ := x
    unfold put
    split
    · simp [lookup]
    · split
      · simp [lookup]
      · rename_i h1 _
        simp only [lookup, h1, Bool.false_eq_true, ↓reduceIte]; exact ih

theorem lookup_put_other {k k' : Bytes} (e : Entry) (l : List (Bytes × Entry)) (h : k' ≠ k) :
    lookup k' (put k e l) = lookup k' l := by
  induction l with
  | nil => simp [put, lookup]; intro hh; exact absurd hh h
  | cons x xs ih =>
    obtain ⟨k2, e2⟩ := x
    unfold put
    split
    · rename_i heq
      have : k = k2 := by simpa using heq
      subst this
      have hne : (k' == k) = false := by simp [h]
      simp [lookup, hne]
    · split
      · have hne : (k' == k) = false := by simp [h]
        simp [lookup, hne]
      · simp only [lookup]
        split
        · rfl
        · exact ih

theorem mem_put {k : Bytes} {e : Entry} {l : List (Bytes × Entry)} {x : Bytes × Entry} (h : x ∈ put k e l) :
    x = (k, e) ∨ x ∈ l := by
  induction l with
  | nil => simp [put] at h; left; exact h
  | cons y ys ih =>
    obtain ⟨k2, e2⟩ := y
    unfold put at h
    split at h
    · rcases List.mem_cons.mp h with h | h
      · left; exact h
      · right; exact List.mem_cons_of_mem _ h
    · split at h
      · rcases List.mem_cons.mp h with h | h
        · left; exact h
        · right; exact h
      · rcases List.mem_cons.mp h with h | h
        · right; rw [h]; exact List.mem_cons_self
        · rcases ih h with h | h
          · left; exact h
          · right; exact List.mem_cons_of_mem _ h

theorem sorted_put {k : Bytes} {e : Entry} {l : List (Bytes × Entry)} (h : Sorted l) : Sorted (put k e l) := by
  induction l with
  | nil => simp [put, Sorted]
  | cons x xs ih =>
    obtain ⟨k2, e2⟩ := x
    unfold Sorted at h ⊢
    rw [List.pairwise_cons] at h
    unfold put
    split
    · rename_i heq
      have : k = k2 := by simpa using heq
      subst this
      rw [List.pairwise_cons]; exact ⟨h.1, h.2⟩
    · split
      · rename_i _ hlt
        rw [List.pairwise_cons]
        refine ⟨?_, List.pairwise_cons.mpr h⟩
        intro y hy
        rcases List.mem_cons.mp hy with rfl | hy'
        · exact hlt
        · exact bytesLt_trans hlt (h.1 y hy')
      · rename_i hne hnlt
        rw [List.pairwise_cons]
        refine ⟨?_, ih h.2⟩
        intro y hy
        rcases mem_put hy with rfl | hy'
        · rcases bytesLt_total k k2 with h1 | h1 | h1
          · rw [h1] at hnlt; exact absurd rfl hnlt
          · subst h1; simp at hne
          · exact h1
        · exact h.1 y hy'

theorem lookup_none_of_lt {k : Bytes} {l : List (Bytes × Entry)} (h : ∀ x ∈ l, bytesLt k x.1 = true) :
    lookup k l = none := by
  induction l with
  | nil => rfl
  | cons x xs ih =>
    obtain ⟨k2, e2⟩ := x
    have h1 := h (k2, e2) List.mem_cons_self
    have hne : (k == k2) = false := by
      simp; exact bytesLt_ne h1
    simp only [lookup, hne, Bool.false_eq_true, ↓reduceIte]
    exact ih (fun x hx => h x (List.mem_cons_of_mem _ hx))

theorem lookup_erase_same {k : Bytes} {l : List (Bytes × Entry)} (h : Sorted l) : lookup k (erase k l) = none := by
  induction l with
  | nil => rfl
  | cons x xs ih =>
    obtain ⟨k2, e2⟩ := x
    unfold Sorted at h
    rw [List.pairwise_cons] at h
    unfold erase
    split
    · rename_i heq
      have : k = k2 := by simpa using heq
      subst this
      exact lookup_none_of_lt (fun x hx => h.1 x hx)
    · rename_i hne
      simp only [lookup, hne, Bool.false_eq_true, ↓reduceIte]
      exact ih h.2

theorem lookup_erase_other {k k' : Bytes} (l : List (Bytes × Entry)) (h : k' ≠ k) :
    lookup k' (erase k l) = lookup k' l := by
  induction l with
  | nil => rfl
  | cons x xs ih =>
    obtain ⟨k2, e2⟩ := x
    unfold erase
    split
    · rename_i heq
      have : k = k2 := by simpa using heq
      subst this
      have hne : (k' == k) = false := by simp [h]
      simp [lookup, hne]
    · simp only [lookup]
      split
      · rfl
      · exact ih

theorem mem_erase {k : Bytes} {l : List (Bytes × Entry)} {x : Bytes × Entry} (h : x ∈ erase k l) : x ∈ l := by
  induction l with
  | nil => simp [erase] at h
  | cons y ys ih =>
    obtain ⟨k2, e2⟩ := y
    unfold erase at h
    split at h
    · exact List.mem_cons_of_mem _ h
    · rcases List.mem_cons.mp h with h | h
      · rw [h]; exact List.mem_cons_self
      · exact List.mem_cons_of_mem _ (ih h)

theorem sorted_erase {k : Bytes} {l : List (Bytes × Entry)} (h : Sorted l) : Sorted (erase k l) := by
  induction l with
  | nil => simp [erase, Sorted]
  | cons x xs ih =>
    obtain ⟨k2, e2⟩ := x
    unfold Sorted at h ⊢
    rw [List.pairwise_cons] at h
    unfold erase
    split
    · exact h.2
    · rw [List.pairwise_cons]
      exact ⟨fun y hy => h.1 y (mem_erase hy), ih h.2⟩

/-! ### size sums -/

/-- Σ over entries of (fixed overhead + key length + value length) -/

theorem memSum_put_new {c : Cfg} {k : Bytes} {e : Entry} {l : List (Bytes × Entry)} (h : lookup k l = none) :
    memSumOf c (put k e l) = memSumOf c l + recBytes c k e.val.length ∧ (put k e l).length = l.length + 1 := by
  induction l with
  | nil => simp [put, memSumOf]
  | cons x xs ih =>
    obtain ⟨k2, e2⟩ := x
    simp only [lookup] at h
    split at h
    · cases h
    · rename_i hne
      unfold put
      simp only [hne, Bool.false_eq_true, ↓reduceIte]
      split
      · simp [memSumOf]; omega
      · have := ih h
        simp only [memSumOf, List.map_cons, List.sum_cons, List.length_cons] at this ⊢
        omega

theorem mem_of_lookup {k : Bytes} {e : Entry} {l : List (Bytes × Entry)} (h : lookup k l = some e) : (k, e) ∈ l := by
  induction l with
  | nil => simp [lookup] at h
  | cons x xs ih =>
    obtain ⟨k2, e2⟩ := x
    simp only [lookup] at h
    split at h
    · rename_i heq
      have : k = k2 := by simpa using heq
      subst this; cases h; exact List.mem_cons_self
    · exact List.mem_cons_of_mem _ (ih h)

theorem memSum_put_old {c : Cfg} {k : Bytes} {e old : Entry} {l : List (Bytes × Entry)} (hs : Sorted l)
    (h : lookup k l = some old) :
    memSumOf c (put k e l) + recBytes c k old.val.length = memSumOf c l + recBytes c k e.val.length ∧
      (put k e l).length = l.length := by
  induction l with
  | nil => simp [lookup] at h
  | cons x xs ih =>
    obtain ⟨k2, e2⟩ := x
    unfold Sorted at hs
    rw [List.pairwise_cons] at hs
    simp only [lookup] at h
    split at h
    · rename_i heq
      have : k = k2 := by simpa using heq
      subst this
      cases h
      unfold put
      simp [memSumOf]; omega
    · rename_i hne
      unfold put
      simp only [hne, Bool.false_eq_true, ↓reduceIte]
      have hlt : bytesLt k k2 = false := bytesLt_asymm (hs.1 _ (mem_of_lookup h))
      simp only [hlt, Bool.false_eq_true, ↓reduceIte]
      have := ih hs.2 h
      simp only [memSumOf, List.map_cons, List.sum_cons, List.length_cons] at this ⊢
      omega

theorem memSum_erase {c : Cfg} {k : Bytes} {old : Entry} {l : List (Bytes × Entry)} (h : lookup k l = some old) :
    memSumOf c (erase k l) + recBytes c k old.val.length = memSumOf c l ∧ (erase k l).length + 1 = l.length := by
  induction l with
  | nil => simp [lookup] at h
  | cons x xs ih =>
    obtain ⟨k2, e2⟩ := x
    simp only [lookup] at h
    split at h
    · rename_i heq
      have : k = k2 := by simpa using heq
      subst this
      cases h
      unfold erase
      simp [memSumOf]; omega
    · rename_i hne
      unfold erase
      simp only [hne, Bool.false_eq_true, ↓reduceIte]
      have := ih h
      simp only [memSumOf, List.map_cons, List.sum_cons, List.length_cons] at this ⊢
      omega

theorem memSum_ge_of_lookup {c : Cfg} {k : Bytes} {old : Entry} {l : List (Bytes × Entry)} (h : lookup k l = some old) :
    recBytes c k old.val.length ≤ memSumOf c l ∧ 0 < l.length := by
  have := memSum_erase (c := c) h
  omega

end Feox.Kv
