import Feox.Fmt.Bytes
/-!
# Kv.Spec — the reference map the sequential API is compared with

Last-writer-wins by timestamp, **with lingering expired entries** exactly as the code keeps
them (an expired generation stays in the index — counted by `len`, seen by `contains_key`,
blocking `insert_if_absent`, keeping its timestamp — until the sweeper, an increment or a
reopen removes it).  The wall clock (`now`), the clock shard of the key (`shard`, from the
store's random hasher) and the result of the external JSON-patch library (`patched`) are
inputs of each operation.  Machine integers are `Nat` with the code's saturating operations
written out.
-/
namespace Feox.Kv
open Feox.Gen Feox.Fmt

def U64MAX : Nat := 2 ^ 64 - 1
def satAdd (a b : Nat) : Nat := min (a + b) U64MAX
def satMul (a b : Nat) : Nat := min (a * b) U64MAX
def NS : Nat := 1000000000

inductive Err
  | InvalidKeySize | InvalidValueSize | KeyNotFound | OutOfMemory | OlderTimestamp
  | InvalidOperation | JsonPatchError | TtlNotEnabled | Unsupported | InvalidNumericValue
  deriving Repr, DecidableEq, Inhabited

structure Entry where
  val : Bytes
  ts : Nat
  expiry : Nat          -- absolute ns, 0 = none
  deriving Repr, DecidableEq, Inhabited

structure Cfg where
  memoryOnly : Bool := true
  ttlOn : Bool := false
  format : Nat := 3
  maxMemory : Option Nat := none
  recSize : Nat := 168
  deriving Repr, DecidableEq, Inhabited

structure State where
  cfg : Cfg := {}
  entries : List (Bytes × Entry) := []      -- ascending key (byte-lexicographic), unique keys
  clock : List Nat := List.replicate VERSION_CLOCK_SHARDS 0
  mem : Nat := 0
  count : Nat := 0
  deriving Repr, DecidableEq, Inhabited

/-- bytes-lexicographic `a < b` (Rust `Vec<u8>` / slice order) -/
def bytesLt : Bytes → Bytes → Bool
  | [], [] => false
  | [], _ :: _ => true
  | _ :: _, [] => false
  | a :: as, b :: bs => a < b || (a == b && bytesLt as bs)

def bytesLe (a b : Bytes) : Bool := !bytesLt b a

def lookup (k : Bytes) : List (Bytes × Entry) → Option Entry
  | [] => none
  | (k', e) :: rest => if k == k' then some e else lookup k rest

def put (k : Bytes) (e : Entry) : List (Bytes × Entry) → List (Bytes × Entry)
  | [] => [(k, e)]
  | (k', e') :: rest =>
    if k == k' then (k, e) :: rest
    else if bytesLt k k' then (k, e) :: (k', e') :: rest
    else (k', e') :: put k e rest

def erase (k : Bytes) : List (Bytes × Entry) → List (Bytes × Entry)
  | [] => []
  | (k', e') :: rest => if k == k' then rest else (k', e') :: erase k rest

/-- `calculate_record_size` / `Record::calculate_size` -/
def recBytes (c : Cfg) (k : Bytes) (vlen : Nat) : Nat := c.recSize + k.length + vlen

/-- Σ over entries of (fixed overhead + key length + value length) -/
def memSumOf (c : Cfg) (l : List (Bytes × Entry)) : Nat :=
  (l.map fun ke => recBytes c ke.1 ke.2.val.length).sum

/-- `now > expiry` with an expiry set: the generation is expired -/
def expired (now : Nat) (e : Entry) : Bool := e.expiry > 0 && now > e.expiry

/-- reads honour expiry only when TTL is enabled (`resolve_record_value`) -/
def hidden (s : State) (now : Nat) (e : Entry) : Bool := s.cfg.ttlOn && expired now e

/-! ### version clock -/

def clockGet (s : State) (shard : Nat) : Nat := s.clock.getD shard 0

/-- `VersionClock::next` -/
def clockNext (s : State) (shard now : Nat) : Nat × State :=
  let last := clockGet s shard
  let next := if now > last then now else satAdd last 1
  (next, { s with clock := s.clock.set shard next })

/-- `VersionClock::observe` -/
def clockObserve (s : State) (shard ts : Nat) : State :=
  if ts == U64MAX then s
  else if ts > clockGet s shard then { s with clock := s.clock.set shard ts } else s

/-- `resolve_timestamp`: an explicit non-zero timestamp is used as is, otherwise the clock
issues one (and advances even if the call later fails) -/
def resolveTs (s : State) (ts : Option Nat) (shard now : Nat) : Nat × Bool × State :=
  match ts with
  | some t => if t != 0 then (t, true, s) else let (n, s') := clockNext s shard now; (n, false, s')
  | none => let (n, s') := clockNext s shard now; (n, false, s')

def observePublished (s : State) (shard ts : Nat) (explicit : Bool) : State :=
  if explicit then clockObserve s shard ts else s

/-! ### validation -/

/-- `validate_key` -/
def validKey (k : Bytes) : Bool := !(k.isEmpty || k.length > MAX_KEY_SIZE)

/-- `validate_new_key` -/
def validNewKey (c : Cfg) (k : Bytes) : Bool :=
  if k.isEmpty || k.length > MAX_KEY_SIZE then false
  else if c.memoryOnly || k.length ≤ MAX_RECOVERABLE_KEY_SIZE then true
  else c.format == 1 && k.length ≤ MAX_RECOVERABLE_KEY_SIZE_V1

def validValue (v : Bytes) : Bool := !(v.isEmpty || v.length > MAX_VALUE_SIZE)

/-- `ensure_ttl_write_supported` -/
def ttlWriteSupported (c : Cfg) : Bool := !(!c.memoryOnly && c.format == 1)

/-- `reserve_memory(amount)` then `commit` -/
def reserve (s : State) (amount : Nat) : Option State :=
  if amount == 0 then some s
  else match s.cfg.maxMemory with
    | none => some { s with mem := s.mem + amount }
    | some limit => if s.mem + amount > limit then none else some { s with mem := s.mem + amount }

/-- replace the entry of an existing key: reserve growth, publish, release shrink -/
def replaceEntry (s : State) (k : Bytes) (old : Entry) (e : Entry) : Option State :=
  let oldSize := recBytes s.cfg k old.val.length
  let newSize := recBytes s.cfg k e.val.length
  match reserve s (newSize - oldSize) with
  | none => none
  | some s1 =>
    let s2 := { s1 with entries := put k e s1.entries }
    some (if oldSize > newSize then { s2 with mem := s2.mem - (oldSize - newSize) } else s2)

/-- create an entry for an absent key -/
def createEntry (s : State) (k : Bytes) (e : Entry) : Option State :=
  match reserve s (recBytes s.cfg k e.val.length) with
  | none => none
  | some s1 => some { s1 with entries := put k e s1.entries, count := s1.count + 1 }

def removeEntry (s : State) (k : Bytes) (e : Entry) : State :=
  { s with entries := erase k s.entries, count := s.count - 1, mem := s.mem - recBytes s.cfg k e.val.length }

def ttlExpiry (base ttl : Nat) : Nat := if ttl == 0 then 0 else satAdd base (satMul ttl NS)

/-! ### operations -/

inductive Op
  | insert (k v : Bytes) (ts : Option Nat) (ttl : Nat) (viaTtlApi : Bool) (shard now : Nat)
  | get (k : Bytes) (now : Nat)
  | getSize (k : Bytes)
  | contains (k : Bytes)
  | delete (k : Bytes) (ts : Option Nat) (shard now : Nat)
  | cas (k expected new : Bytes) (ts : Option Nat) (ttl : Nat) (shard now : Nat)
  | incr (k : Bytes) (delta : Int) (ts : Option Nat) (ttl : Nat) (shard now : Nat)
  | ifAbsent (k v : Bytes) (shard now : Nat)
  | patch (k : Bytes) (ts : Option Nat) (shard now : Nat) (patched : Option Bytes)
  | getTtl (k : Bytes) (now : Nat)
  | updateTtl (k : Bytes) (ttl : Nat) (viaPersist : Bool) (shard now : Nat)
  | range (a b : Bytes) (limit : Nat) (now : Nat)
  | len
  | memUsage
  | flush
  | sweep (now : Nat)
  | reopen (ttlOn : Bool) (now : Nat) (shards : List (Bytes × Nat))
  deriving Repr

inductive Out
  | okBool (b : Bool)
  | okUnit
  | okBytes (v : Bytes)
  | okNat (n : Nat)
  | okInt (i : Int)
  | okTtl (t : Option Nat)
  | okPairs (ps : List (Bytes × Bytes))
  | err (e : Err)
  deriving Repr, DecidableEq

def i64min : Int := -9223372036854775808
def i64max : Int := 9223372036854775807

def i64ofBytes (b : Bytes) : Int :=
  let u := rd b
  if u ≥ 2 ^ 63 then (u : Int) - 2 ^ 64 else (u : Int)

def i64toBytes (i : Int) : Bytes :=
  le 8 (if i < 0 then (i + 2 ^ 64).toNat else i.toNat)

def satAddI64 (a b : Int) : Int :=
  let r := a + b
  if r > i64max then i64max else if r < i64min then i64min else r

/-- the entry an insert writes: the expiry counts from the record's own timestamp and only
exists when TTL is enabled -/
def insertEntry (s : State) (v : Bytes) (t ttl : Nat) : Entry :=
  ⟨v, t, if ttl > 0 && s.cfg.ttlOn then satAdd t (satMul ttl NS) else 0⟩

/-- `insert_with_timestamp_and_ttl_internal` (and the Bytes twin) -/
def doInsert (s : State) (k v : Bytes) (ts : Option Nat) (ttl : Nat) (shard now : Nat) : State × Out :=
  if !validNewKey s.cfg k then (s, .err .InvalidKeySize)
  else if !validValue v then (s, .err .InvalidValueSize)
  else
    let r := resolveTs s ts shard now
    let t := r.1
    let s1 := r.2.2
    match lookup k s1.entries with
    | some old =>
      if t ≤ old.ts then (s1, .err .OlderTimestamp)
      else match replaceEntry s1 k old (insertEntry s v t ttl) with
        | none => (s1, .err .OutOfMemory)
        | some s2 => (observePublished s2 shard t r.2.1, .okBool false)
    | none =>
      match createEntry s1 k (insertEntry s v t ttl) with
      | none => (s1, .err .OutOfMemory)
      | some s2 => (observePublished s2 shard t r.2.1, .okBool true)

/-- sweeper batch / lazy retirement: remove every entry whose expiry has passed -/
def sweepAll (s : State) (now : Nat) : State :=
  s.entries.foldl (fun acc (ke : Bytes × Entry) =>
    if ke.2.expiry > 0 && ke.2.expiry < now then removeEntry acc ke.1 ke.2 else acc) s

def rangeScan (s : State) (a b : Bytes) (limit now : Nat) : List (Bytes × Entry) → List (Bytes × Bytes)
  | [] => []
  | (k, e) :: rest =>
    if limit == 0 then []
    else if bytesLt k a then rangeScan s a b limit now rest
    else if bytesLt b k then []
    else if hidden s now e then rangeScan s a b limit now rest
    else (k, e.val) :: rangeScan s a b (limit - 1) now rest

def doGet (s : State) (k : Bytes) (now : Nat) : Out :=
  if !validKey k then .err .InvalidKeySize
  else match lookup k s.entries with
    | none => .err .KeyNotFound
    | some e => if hidden s now e then .err .KeyNotFound else .okBytes e.val

/-- `delete_with_timestamp` -/
def doDelete (s : State) (k : Bytes) (ts : Option Nat) (shard now : Nat) : State × Out :=
  if !validKey k then (s, .err .InvalidKeySize)
  else
    let r := resolveTs s ts shard now
    match lookup k r.2.2.entries with
    | none => (r.2.2, .err .KeyNotFound)
    | some old =>
      if r.1 ≤ old.ts then (r.2.2, .err .OlderTimestamp)
      else (observePublished (removeEntry r.2.2 k old) shard r.1 r.2.1, .okUnit)

/-- `compare_and_swap_with_timestamp_and_ttl` -/
def doCas (s : State) (k expected new : Bytes) (ts : Option Nat) (ttl shard now : Nat) : State × Out :=
  if ttl > 0 && !ttlWriteSupported s.cfg then (s, .err .Unsupported)
  else if !validNewKey s.cfg k then (s, .err .InvalidKeySize)
  else if !validValue new then (s, .err .InvalidValueSize)
  else match lookup k s.entries with
    | none => (s, .okBool false)
    | some old =>
      if hidden s now old then (s, .okBool false)
      else if old.val != expected then (s, .okBool false)
      else
        let r := resolveTs s ts shard now
        if r.1 ≤ old.ts then (r.2.2, .err .OlderTimestamp)
        else match replaceEntry r.2.2 k old ⟨new, r.1, ttlExpiry r.1 ttl⟩ with
          | none => (r.2.2, .err .OutOfMemory)
          | some s2 => (observePublished s2 shard r.1 r.2.1, .okBool true)

def explicitOf (ts : Option Nat) : Option Nat :=
  match ts with
  | some t => if t != 0 then some t else none
  | none => none

def explicitOlder (ex : Option Nat) (ts : Nat) : Bool :=
  match ex with
  | some t => decide (t ≤ ts)
  | none => false

/-- creation path of `atomic_increment`; `retiredAt` = retirement time of an expired
generation just removed by the same call (0 if none) -/
def incrCreate (s : State) (k : Bytes) (delta : Int) (explicitTs : Option Nat) (ttl shard now retiredAt : Nat) :
    State × Out :=
  match explicitTs with
  | some t =>
    if t ≤ retiredAt then (s, .err .OlderTimestamp)
    else match createEntry s k ⟨i64toBytes delta, t, ttlExpiry t ttl⟩ with
      | none => (s, .err .OutOfMemory)
      | some s2 => (clockObserve s2 shard t, .okInt delta)
  | none =>
    if retiredAt + 1 > U64MAX then (s, .err .OlderTimestamp)      -- `checked_add`
    else
      let r := clockNext s shard now
      let t := max r.1 (retiredAt + 1)
      match createEntry r.2 k ⟨i64toBytes delta, t, ttlExpiry t ttl⟩ with
      | none => (r.2, .err .OutOfMemory)
      | some s2 => (s2, .okInt delta)

/-- `atomic_increment_with_timestamp_and_ttl` -/
def doIncr (s : State) (k : Bytes) (delta : Int) (ts : Option Nat) (ttl shard now : Nat) : State × Out :=
  if ttl > 0 && !ttlWriteSupported s.cfg then (s, .err .Unsupported)
  else if !validNewKey s.cfg k then (s, .err .InvalidKeySize)
  else
    let explicitTs := explicitOf ts
    match lookup k s.entries with
    | none => incrCreate s k delta explicitTs ttl shard now 0
    | some cur =>
      if explicitOlder explicitTs cur.ts then (s, .err .OlderTimestamp)
      else if s.cfg.ttlOn && cur.expiry > 0 && now > cur.expiry then
        -- `retire_expired_if_current`: removes the expired generation, folds `now` into the clock,
        -- then the retry finds the key absent
        incrCreate (clockObserve (removeEntry s k cur) shard now) k delta explicitTs ttl shard now now
      else if cur.val.length != 8 then (s, .err .InvalidOperation)
      else
        let newV := satAddI64 (i64ofBytes cur.val) delta
        match explicitTs with
        | some t =>
          if t ≤ cur.ts then (s, .err .OlderTimestamp)
          else match replaceEntry s k cur ⟨i64toBytes newV, t, ttlExpiry t ttl⟩ with
            | none => (s, .err .OutOfMemory)
            | some s2 => (clockObserve s2 shard t, .okInt newV)
        | none =>
          let r := clockNext s shard now
          if r.1 ≤ cur.ts then (r.2, .err .OlderTimestamp)
          else match replaceEntry r.2 k cur ⟨i64toBytes newV, r.1, ttlExpiry r.1 ttl⟩ with
            | none => (r.2, .err .OutOfMemory)
            | some s2 => (s2, .okInt newV)

/-- `insert_if_absent` -/
def doIfAbsent (s : State) (k v : Bytes) (shard now : Nat) : State × Out :=
  if !validNewKey s.cfg k then (s, .err .InvalidKeySize)
  else if !validValue v then (s, .err .InvalidValueSize)
  else match lookup k s.entries with
    | some _ => (s, .okBool false)
    | none =>
      -- memory is reserved before the timestamp is drawn
      match reserve s (recBytes s.cfg k v.length) with
      | none => (s, .err .OutOfMemory)
      | some s1 =>
        let r := clockNext s1 shard now
        ({ r.2 with entries := put k ⟨v, r.1, 0⟩ r.2.entries, count := r.2.count + 1 }, .okBool true)

/-- `json_patch_with_timestamp`; `patched` = what the JSON-patch library returns on the
current value (`none` = it failed) -/
def doPatch (s : State) (k : Bytes) (ts : Option Nat) (shard now : Nat) (patched : Option Bytes) : State × Out :=
  if !validKey k then (s, .err .InvalidKeySize)
  else
    let r := resolveTs s ts shard now
    let s1 := r.2.2
    match lookup k s1.entries with
    | none => (s1, .err .KeyNotFound)
    | some old =>
      if r.1 ≤ old.ts then (s1, .err .OlderTimestamp)
      else if hidden s1 now old then (s1, .err .KeyNotFound)
      else match patched with
        | none => (s1, .err .JsonPatchError)
        | some nv =>
          if !validNewKey s1.cfg k then (s1, .err .InvalidKeySize)
          else if !validValue nv then (s1, .err .InvalidValueSize)
          else match replaceEntry s1 k old ⟨nv, r.1, 0⟩ with
            | none => (s1, .err .OutOfMemory)
            | some s2 => (observePublished s2 shard r.1 r.2.1, .okUnit)

/-- `update_ttl` / `persist` -/
def doUpdateTtl (s : State) (k : Bytes) (ttl shard now : Nat) : State × Out :=
  if !s.cfg.ttlOn then (s, .err .TtlNotEnabled)
  else if !ttlWriteSupported s.cfg then (s, .err .Unsupported)
  else if !validKey k then (s, .err .InvalidKeySize)
  else match lookup k s.entries with
    | none => (s, .err .KeyNotFound)
    | some old =>
      if old.expiry > 0 && now > old.expiry then (s, .err .KeyNotFound)
      else
        let r := clockNext s shard now
        if old.ts + 1 > U64MAX then (r.2, .err .OlderTimestamp)
        else
          ({ r.2 with entries := put k ⟨old.val, max r.1 (old.ts + 1), ttlExpiry now ttl⟩ r.2.entries }, .okUnit)

/-- clean close + open of the same device (a memory-only store starts empty) -/
def doReopen (s : State) (ttlOn : Bool) (now : Nat) (shards : List (Bytes × Nat)) : State :=
  if s.cfg.memoryOnly then { cfg := { s.cfg with ttlOn := ttlOn } }
  else
    let cfg := { s.cfg with ttlOn := ttlOn }
    -- every record scanned is observed by the new clock (before expired winners are dropped)
    let clock := s.entries.foldl (fun (c : List Nat) (ke : Bytes × Entry) =>
      let sh := (shards.lookup ke.1).getD 0
      if ke.2.ts == U64MAX then c else if ke.2.ts > c.getD sh 0 then c.set sh ke.2.ts else c)
      (List.replicate VERSION_CLOCK_SHARDS 0)
    let live := if ttlOn then s.entries.filter (fun ke => !(ke.2.expiry > 0 && now > ke.2.expiry)) else s.entries
    { cfg := cfg, entries := live, clock := clock, count := live.length, mem := memSumOf cfg live }

def step (s : State) : Op → State × Out
  | .insert k v ts ttl viaTtlApi shard now =>
    if viaTtlApi && !s.cfg.ttlOn then (s, .err .TtlNotEnabled)
    else if viaTtlApi && !ttlWriteSupported s.cfg then (s, .err .Unsupported)
    else doInsert s k v ts ttl shard now
  | .get k now => (s, doGet s k now)
  | .getSize k =>
    if !validKey k then (s, .err .InvalidKeySize)
    else match lookup k s.entries with
      | none => (s, .err .KeyNotFound)
      | some e => (s, .okNat e.val.length)
  | .contains k => (s, .okBool (lookup k s.entries).isSome)
  | .delete k ts shard now => doDelete s k ts shard now
  | .cas k expected new ts ttl shard now => doCas s k expected new ts ttl shard now
  | .incr k delta ts ttl shard now => doIncr s k delta ts ttl shard now
  | .ifAbsent k v shard now => doIfAbsent s k v shard now
  | .patch k ts shard now patched => doPatch s k ts shard now patched
  | .getTtl k now =>
    if !s.cfg.ttlOn then (s, .err .TtlNotEnabled)
    else if !validKey k then (s, .err .InvalidKeySize)
    else match lookup k s.entries with
      | none => (s, .err .KeyNotFound)
      | some e =>
        if e.expiry == 0 then (s, .okTtl none)
        else if now ≥ e.expiry then (s, .okTtl (some 0))
        else (s, .okTtl (some ((e.expiry - now) / NS)))
  | .updateTtl k ttl _viaPersist shard now => doUpdateTtl s k ttl shard now
  | .range a b limit now =>
    if a.length > MAX_KEY_SIZE || b.length > MAX_KEY_SIZE then (s, .err .InvalidKeySize)
    else (s, .okPairs (rangeScan s a b limit now s.entries))
  | .len => (s, .okNat s.count)
  | .memUsage => (s, .okNat s.mem)
  | .flush => (s, .okUnit)
  | .sweep now => (sweepAll s now, .okUnit)
  | .reopen ttlOn now shards => (doReopen s ttlOn now shards, .okUnit)

def run (s : State) : List Op → State × List Out
  | [] => (s, [])
  | op :: ops =>
    let (s1, o) := step s op
    let (s2, os) := run s1 ops
    (s2, o :: os)

end Feox.Kv
