import Feox.Kv.StepAcc
/-! Shape lemmas: what each mutating operation of `Kv.Spec` can return, and "an error result
leaves everything but the version clock as it was" (`Frame`). -/
namespace Feox.Kv
open Feox.Fmt

theorem replaceEntry_entries {s s2 : State} {k : Bytes} {old e : Entry} (h : replaceEntry s k old e = some s2) :
    s2.entries = put k e s.entries ∧ s2.clock = s.clock ∧ s2.cfg = s.cfg := by
  unfold replaceEntry at h
  simp only at h
  split at h
  · cases h
  · rename_i s1 hr
    obtain ⟨e1, _, _, g1, k1, _⟩ := reserve_spec hr
    split at h <;> (cases h; simp [e1, k1, g1])

theorem createEntry_entries {s s2 : State} {k : Bytes} {e : Entry} (h : createEntry s k e = some s2) :
    s2.entries = put k e s.entries ∧ s2.clock = s.clock ∧ s2.cfg = s.cfg := by
  unfold createEntry at h
  split at h
  · cases h
  · rename_i s1 hr
    obtain ⟨e1, _, _, g1, k1, _⟩ := reserve_spec hr
    cases h; simp [e1, k1, g1]

/-- every way `doInsert` can end -/
theorem doInsert_cases (s : State) (k v : Bytes) (ts : Option Nat) (ttl shard now : Nat) :
    let R := resolveTs s ts shard now
    let E := insertEntry s v R.1 ttl
    (∃ er, doInsert s k v ts ttl shard now = (s, .err er) ∧ (er = .InvalidKeySize ∨ er = .InvalidValueSize)) ∨
    (validNewKey s.cfg k = true ∧ validValue v = true ∧
      ((∃ old, lookup k R.2.2.entries = some old ∧ R.1 ≤ old.ts ∧
          doInsert s k v ts ttl shard now = (R.2.2, .err .OlderTimestamp)) ∨
       (∃ old, lookup k R.2.2.entries = some old ∧ old.ts < R.1 ∧ replaceEntry R.2.2 k old E = none ∧
          doInsert s k v ts ttl shard now = (R.2.2, .err .OutOfMemory)) ∨
       (∃ old s2, lookup k R.2.2.entries = some old ∧ old.ts < R.1 ∧ replaceEntry R.2.2 k old E = some s2 ∧
          doInsert s k v ts ttl shard now = (observePublished s2 shard R.1 R.2.1, .okBool false)) ∨
       (lookup k R.2.2.entries = none ∧ createEntry R.2.2 k E = none ∧
          doInsert s k v ts ttl shard now = (R.2.2, .err .OutOfMemory)) ∨
       (∃ s2, lookup k R.2.2.entries = none ∧ createEntry R.2.2 k E = some s2 ∧
          doInsert s k v ts ttl shard now = (observePublished s2 shard R.1 R.2.1, .okBool true)))) := by
  intro R E
  unfold doInsert
  cases h1 : validNewKey s.cfg k with
  | false => left; exact ⟨.InvalidKeySize, by simp, Or.inl rfl⟩
  | true =>
  cases h2 : validValue v with
  | false => left; exact ⟨.InvalidValueSize, by simp, Or.inr rfl⟩
  | true =>
  right
  refine ⟨rfl, rfl, ?_⟩
  simp only [Bool.not_true, Bool.false_eq_true, ↓reduceIte]
  show _ ∨ _ ∨ _ ∨ _ ∨ _
  cases hl : lookup k R.2.2.entries with
  | none =>
    cases hr : createEntry R.2.2 k E with
    | none => right; right; right; left; exact ⟨rfl, rfl, by first | rfl | (simp only [R] at hl hr ⊢; simp [hl, E, R, hr])⟩
    | some s2 => right; right; right; right; exact ⟨s2, rfl, rfl, by first | rfl | (simp only [R] at hl hr ⊢; simp [hl, E, R, hr])⟩
  | some old =>
    by_cases hle : R.1 ≤ old.ts
    · left; exact ⟨old, rfl, hle, by simp only [R] at hl hle ⊢; simp [hl, hle]⟩
    · have hlt : old.ts < R.1 := by omega
      cases hr : replaceEntry R.2.2 k old E with
      | none => right; left; exact ⟨old, rfl, hlt, hr, by simp only [R] at hl hle hr ⊢; simp [hl, hle, E, R, hr]⟩
      | some s2 =>
        right; right; left
        exact ⟨old, s2, rfl, hlt, hr, by simp only [R] at hl hle hr ⊢; simp [hl, hle, E, R, hr]⟩

/-- an insert that returns an error changed nothing but (possibly) the version clock -/
theorem doInsert_error_frame {s : State} {k v : Bytes} {ts : Option Nat} {ttl shard now : Nat} {er : Err}
    (h : (doInsert s k v ts ttl shard now).2 = .err er) : Frame s (doInsert s k v ts ttl shard now).1 := by
  have hf := resolveTs_frame s ts shard now
  rcases doInsert_cases s k v ts ttl shard now with ⟨e, he, _⟩ | ⟨_, _, hc⟩
  · rw [he]; exact Frame.refl s
  · rcases hc with ⟨_, _, _, he⟩ | ⟨_, _, _, _, he⟩ | ⟨_, _, _, _, _, he⟩ | ⟨_, _, he⟩ | ⟨_, _, _, he⟩
    · rw [he]; exact hf
    · rw [he]; exact hf
    · rw [he] at h; cases h
    · rw [he]; exact hf
    · rw [he] at h; cases h

theorem doDelete_error_frame {s : State} {k : Bytes} {ts : Option Nat} {shard now : Nat} {er : Err}
    (h : (doDelete s k ts shard now).2 = .err er) : Frame s (doDelete s k ts shard now).1 := by
  have hf := resolveTs_frame s ts shard now
  unfold doDelete at h ⊢
  cases h1 : validKey k with
  | false => simp; exact Frame.refl s
  | true =>
    simp only [h1, Bool.not_true, Bool.false_eq_true, ↓reduceIte] at h ⊢
    cases hl : lookup k (resolveTs s ts shard now).2.2.entries with
    | none => simp only; exact hf
    | some old =>
      simp only [hl] at h ⊢
      by_cases hle : (resolveTs s ts shard now).1 ≤ old.ts
      · simp only [hle, ↓reduceIte]; exact hf
      · simp [hle] at h

theorem doCas_error_frame {s : State} {k e n : Bytes} {ts : Option Nat} {ttl shard now : Nat} {er : Err}
    (h : (doCas s k e n ts ttl shard now).2 = .err er) : Frame s (doCas s k e n ts ttl shard now).1 := by
  have hf := resolveTs_frame s ts shard now
  unfold doCas at h ⊢
  cases h0 : (decide (ttl > 0) && !ttlWriteSupported s.cfg) with
  | true => simp; exact Frame.refl s
  | false =>
  cases h1 : validNewKey s.cfg k with
  | false => simp; exact Frame.refl s
  | true =>
  cases h2 : validValue n with
  | false => simp; exact Frame.refl s
  | true =>
  simp only [h0, h1, h2, Bool.not_true, Bool.false_eq_true, ↓reduceIte] at h ⊢
  cases hl : lookup k s.entries with
  | none => simp only; exact Frame.refl s
  | some old =>
    simp only [hl] at h ⊢
    cases h3 : hidden s now old with
    | true => simp only [↓reduceIte]; exact Frame.refl s
    | false =>
    cases h4 : (old.val != e) with
    | true => simp only [Bool.false_eq_true, ↓reduceIte]; exact Frame.refl s
    | false =>
    simp only [h3, h4, Bool.false_eq_true, ↓reduceIte] at h ⊢
    by_cases hle : (resolveTs s ts shard now).1 ≤ old.ts
    · simp only [hle, ↓reduceIte]; exact hf
    · simp only [hle, ↓reduceIte] at h ⊢
      cases hr : replaceEntry (resolveTs s ts shard now).2.2 k old
          ⟨n, (resolveTs s ts shard now).1, ttlExpiry (resolveTs s ts shard now).1 ttl⟩ with
      | none => simp only; exact hf
      | some s2 => simp [hr] at h

theorem doIfAbsent_error_frame {s : State} {k v : Bytes} {shard now : Nat} {er : Err}
    (h : (doIfAbsent s k v shard now).2 = .err er) : (doIfAbsent s k v shard now).1 = s := by
  unfold doIfAbsent at h ⊢
  cases h1 : validNewKey s.cfg k with
  | false => simp
  | true =>
  cases h2 : validValue v with
  | false => simp
  | true =>
  simp only [h1, h2, Bool.not_true, Bool.false_eq_true, ↓reduceIte] at h ⊢
  cases hl : lookup k s.entries with
  | some _ => simp
  | none =>
    simp only [hl] at h ⊢
    cases hr : reserve s (recBytes s.cfg k v.length) with
    | none => simp
    | some s1 => simp [hr] at h

theorem doPatch_error_frame {s : State} {k : Bytes} {ts : Option Nat} {shard now : Nat} {p : Option Bytes} {er : Err}
    (h : (doPatch s k ts shard now p).2 = .err er) : Frame s (doPatch s k ts shard now p).1 := by
  have hf := resolveTs_frame s ts shard now
  unfold doPatch at h ⊢
  cases h1 : validKey k with
  | false => simp; exact Frame.refl s
  | true =>
  simp only [h1, Bool.not_true, Bool.false_eq_true, ↓reduceIte] at h ⊢
  cases hl : lookup k (resolveTs s ts shard now).2.2.entries with
  | none => simp only; exact hf
  | some old =>
    simp only [hl] at h ⊢
    by_cases hle : (resolveTs s ts shard now).1 ≤ old.ts
    · simp only [hle, ↓reduceIte]; exact hf
    · simp only [hle, ↓reduceIte] at h ⊢
      cases h3 : hidden (resolveTs s ts shard now).2.2 now old with
      | true => simp only [↓reduceIte]; exact hf
      | false =>
      simp only [h3, Bool.false_eq_true, ↓reduceIte] at h ⊢
      cases p with
      | none => simp only; exact hf
      | some nv =>
        simp only at h ⊢
        cases h4 : validNewKey (resolveTs s ts shard now).2.2.cfg k with
        | false => simp only [Bool.not_false, ↓reduceIte]; exact hf
        | true =>
        cases h5 : validValue nv with
        | false => simp only [Bool.not_true, Bool.false_eq_true, Bool.not_false, ↓reduceIte]; exact hf
        | true =>
        simp only [h4, h5, Bool.not_true, Bool.false_eq_true, ↓reduceIte] at h ⊢
        cases hr : replaceEntry (resolveTs s ts shard now).2.2 k old ⟨nv, (resolveTs s ts shard now).1, 0⟩ with
        | none => simp only; exact hf
        | some s2 => simp [hr] at h

theorem doUpdateTtl_error_frame {s : State} {k : Bytes} {ttl shard now : Nat} {er : Err}
    (h : (doUpdateTtl s k ttl shard now).2 = .err er) : Frame s (doUpdateTtl s k ttl shard now).1 := by
  have hf := clockNext_frame s shard now
  unfold doUpdateTtl at h ⊢
  cases h0 : s.cfg.ttlOn with
  | false => simp; exact Frame.refl s
  | true =>
  cases h1 : ttlWriteSupported s.cfg with
  | false => simp; exact Frame.refl s
  | true =>
  cases h2 : validKey k with
  | false => simp; exact Frame.refl s
  | true =>
  simp only [h0, h1, h2, Bool.not_true, Bool.false_eq_true, ↓reduceIte] at h ⊢
  cases hl : lookup k s.entries with
  | none => simp only; exact Frame.refl s
  | some old =>
    simp only [hl] at h ⊢
    cases h3 : (decide (old.expiry > 0) && decide (now > old.expiry)) with
    | true => simp only [↓reduceIte]; exact Frame.refl s
    | false =>
    simp only [h3, Bool.false_eq_true, ↓reduceIte] at h ⊢
    by_cases h4 : old.ts + 1 > U64MAX
    · simp only [h4, ↓reduceIte]; exact hf
    · simp [h4] at h

end Feox.Kv
