import Feox.Fmt.Migrate
/-!
# C15 — offline migration is a faithful, verified, non-destructive copy

Theorems about `Feox.Fmt.migrateModel` (data) and `Feox.Fmt.runGuard` (destination path).
The byte-level faithfulness of the produced file is tied by the `fmt` engine: the Lean reader
recovers both the legacy source and the v3 destination the real `migrate` wrote and their
keys, values, timestamps and absolute expiries must coincide.
-/
namespace Feox.C15
open Feox.Fmt Feox.Gen

/-- **The source is never written**: a read-only open issues no device write, whatever the
image holds (active journals and pending retirements are masked in memory, not replayed) -/
theorem source_untouched (img : Image) (size : Nat) (o : Opts) (hro : o.readOnly = true) :
    (recoverImage img size o).io = [] := by
  unfold recoverImage
  simp only [hro, Bool.not_true, Bool.and_false, Bool.false_eq_true, ↓reduceIte, Outcome.fail]
  repeat' (first | rfl | split)

theorem migrate_source_untouched (img : Image) (size : Nat) (amb : Bool) (rs : Nat) :
    (migrateModel img size amb rs).2 = [] := by
  have h := source_untouched img size (sourceOpts amb rs) rfl
  unfold migrateModel
  simp only
  split <;> (try split) <;> (try split) <;> (try split) <;> exact h

/-- **Exactly the records a recovery of the source yields**: on success the copied set *is* the
read-only recovery's live set — expired newest generations included (TTL is off for the source
open, so nothing is dropped after winner selection and no older value can reappear) -/
theorem faithful (img : Image) (size : Nat) (amb : Bool) (rs : Nat) (m : Migrated)
    (h : (migrateModel img size amb rs).1 = .ok m) :
    ∃ r, (recoverImage img size (sourceOpts amb rs)).result = .ok r ∧ m.records = r.live ∧
      r.version < 3 ∧ (∀ l ∈ m.records, l.key.length ≤ MAX_RECOVERABLE_KEY_SIZE) ∧
      m.destinationSize ≤ MAX_DEVICE_SIZE ∧ size ≤ m.destinationSize := by
  unfold migrateModel at h
  simp only at h
  split at h
  · cases h
  · cases h
  · rename_i r hr
    split at h
    · cases h
    · rename_i hv
      split at h
      · cases h
      · rename_i hk
        split at h
        · cases h
        · rename_i hd
          simp only [Except.ok.injEq] at h
          subst h
          refine ⟨r, hr, rfl, by omega, ?_, ?_, Nat.le_max_left _ _⟩
          · intro l hl
            simp only [List.any_eq_true, decide_eq_true_eq, not_exists, not_and, Nat.not_lt] at hk
            exact hk l hl
          · show max size _ ≤ MAX_DEVICE_SIZE
            omega

/-- a current-format source is refused, and so is a v1 key that v3 cannot recover -/
theorem refuses_current_and_oversized (img : Image) (size : Nat) (amb : Bool) (rs : Nat) (r : Recovered)
    (hr : (recoverImage img size (sourceOpts amb rs)).result = .ok r) :
    (r.version ≥ 3 → (migrateModel img size amb rs).1 = .error .CurrentFormat) ∧
    (r.version < 3 → (∃ l ∈ r.live, l.key.length > MAX_RECOVERABLE_KEY_SIZE) →
      (migrateModel img size amb rs).1 = .error .KeyTooLarge) := by
  constructor
  · intro hv
    unfold migrateModel
    simp [hr, hv]
  · intro hv ⟨l, hl, hk⟩
    unfold migrateModel
    have : ¬ r.version ≥ 3 := by omega
    have hany : r.live.any (fun l => decide (l.key.length > MAX_RECOVERABLE_KEY_SIZE)) = true := by
      simp only [List.any_eq_true, decide_eq_true_eq]; exact ⟨l, hl, hk⟩
    simp [hr, this, hany]

/-- **Ambiguous legacy markers need the opt-in**: without it the model's scan stops with
`AmbiguousLegacyTombstone`, which `migrate` reports as `AmbiguousLegacyRecovery` -/
theorem ambiguous_needs_optin (img : Image) (size : Nat) (rs : Nat)
    (h : (recoverImage img size (sourceOpts false rs)).result = .error .AmbiguousLegacyTombstone) :
    (migrateModel img size false rs).1 = .error .AmbiguousLegacyRecovery := by
  unfold migrateModel
  simp [h]

/-! ### destination path -/

def allEnvs : List Env :=
  ([none, some 0, some 1, some 2, some 3, some 4, some 5, some 6, some 7].flatMap fun f =>
    [true, false].flatMap fun r => [true, false].map fun c => ⟨f, r, c⟩)

/-- **Fails leaving nothing / never overwrites**: for every failure point (each step of the
guard, or none), with or without a foreign file appearing at the destination meanwhile, and
whether or not the copy succeeds: (1) an existing destination is left exactly as it was and the
migration fails; (2) starting from a free path, the temporary file never survives, a failed
migration leaves no file of ours at the destination, a foreign file that appeared is never
removed or replaced, and success means our file is at the destination. -/
theorem guard_table :
    ∀ e ∈ allEnvs,
      (runGuard ⟨some .foreign, none⟩ e) = (⟨some .foreign, none⟩, false) ∧
      (runGuard ⟨some .ours, none⟩ e) = (⟨some .ours, none⟩, false) ∧
      (let r := runGuard ⟨none, none⟩ e
       r.1.temp = none ∧
       (r.2 = false → r.1.dest ≠ some .ours) ∧
       (e.race = true → e.failAt ≠ some 0 → e.failAt ≠ some 1 → r.1.dest = some .foreign ∧ r.2 = false) ∧
       (r.2 = true → r.1.dest = some .ours)) := by
  decide

/-- the table above is the whole space: every environment with a failure point in 0..7 is in it -/
theorem allEnvs_complete (e : Env) (h : e.failAt = none ∨ ∃ n, n ≤ 7 ∧ e.failAt = some n) : e ∈ allEnvs := by
  obtain ⟨f, r, c⟩ := e
  simp only at h
  rcases h with h | ⟨n, hn, h⟩
  · subst h; cases r <;> cases c <;> decide
  · subst h
    have : n = 0 ∨ n = 1 ∨ n = 2 ∨ n = 3 ∨ n = 4 ∨ n = 5 ∨ n = 6 ∨ n = 7 := by omega
    rcases this with h | h | h | h | h | h | h | h <;> subst h <;> cases r <;> cases c <;> decide

end Feox.C15
