import Feox.Conc.InFlight
import Feox.Conc.Pin
import Feox.Conc.Epoch
import Feox.Gen.Epoch
/-!
# C20 — the safe API is memory safe  *(partial: the ownership protocols the `unsafe` code relies on)*

What a Lean model can carry here is the logic that decides *when memory may be freed*:
* `InFlightBuffers` (io_uring write buffers): a buffer the kernel may still read is never freed;
* the extent pin word: pins and releases balance, so a guard never outlives its count
  (`Feox.Conc.Pin`, shared with C08).
* the ordered-index slot (`TreeSlot`): with the reclamation mode the translator reads off
  `TreeSlot::store` (`tools/gen_epoch.py` → `Feox.Gen.treeSlotStoreMode`), no reader that loads
  under a pin ever dereferences a destroyed object (`Feox.Conc.Epoch`, crossbeam-epoch's
  `defer_destroy` guarantee taken as the library's semantics).
Machine-level memory safety of the compiled `unsafe` blocks (`AlignedBuffer`, the epoch
library itself) is outside the model; the check re-runs the schedule and fault engines under
AddressSanitizer as a search for a concrete failing input.
-/
namespace Feox.C20
open Feox.Conc.InFlight

/-- states reachable by the submission protocol -/
def Reachable (s : Set) (k : Kernel) : Prop :=
  ∃ es, AllAllowed {} es ∧ runEvs {} {} es = (s, k)

theorem reachable_good {s : Set} {k : Kernel} (h : Reachable s k) : Good s k := by
  obtain ⟨es, ha, hr⟩ := h
  have := good_run es good_init ha
  rw [hr] at this
  exact this

/-- **A buffer the kernel may still be using is never freed**: dropping the set at any point of
any protocol trace releases buffer `i` iff it exists and the kernel does not hold it; a held
buffer is leaked instead. -/
theorem inflight_never_freed {s : Set} {k : Kernel} (h : Reachable s k) (i : Nat) :
    released s i = (decide (i < s.n) && !k.held i) := by
  have := (reachable_good h).same i
  simp [released, this]

theorem held_is_leaked {s : Set} {k : Kernel} (h : Reachable s k) (i : Nat) (hh : k.held i = true) :
    released s i = false := by
  rw [inflight_never_freed h i, hh]; simp

/-- … and nothing else leaks: a buffer whose write never reached the kernel, or whose completion
was consumed, is released by the drop -/
theorem unheld_is_released {s : Set} {k : Kernel} (h : Reachable s k) (i : Nat) (hi : i < s.n) (hh : k.held i = false) :
    released s i = true := by
  rw [inflight_never_freed h i, hh]; simp [hi]

/-- `mark_complete` tells a first completion from a duplicate or foreign one: it returns true
exactly when the kernel held the buffer, so `completed_count` counts every write once -/
theorem mark_complete_counts_once {s : Set} {k : Kernel} (h : Reachable s k) (i : Nat) :
    (step s (.markComplete i)).2 = k.held i := by
  simp [step, (reachable_good h).same i]

/-- the set's own bookkeeping, for any call sequence at all (also outside the protocol): the bit
of `i` is set iff the last mark call on `i` was `mark_in_flight` -/
theorem bit_is_last_mark (s : Set) (o : Op) (i : Nat) :
    (step s o).1.bit i =
      match o with
      | .push => s.bit i
      | .markInFlight j => if i = j then true else s.bit i
      | .markUnqueued j => if i = j then false else s.bit i
      | .markComplete j => if i = j then false else s.bit i := by
  cases o <;> simp [step, upd]

/-- pins and releases of the extent word balance in every reachable state (no guard outlives its
count, the count never underflows) -/
theorem extent_pin_guard_balanced {s : Feox.Conc.Pin.State} (es : List Feox.Conc.Pin.Ev)
    (h : Feox.Conc.Pin.run? {} es = some s) : s.readers = s.pinned + s.reading :=
  (Feox.Conc.Pin.run_inv es Feox.Conc.Pin.inv_init h).count

/-- **No range scan, recovery walk or migration walk ever dereferences a destroyed index object**:
under the reclamation mode of the current source, for any number of readers and any interleaving
of pins, loads, dereferences, unpins / repins, writers' swaps and collector runs -/
theorem tree_slot_no_use_after_free (n : Nat) (evs : List Feox.Conc.Epoch.Ev) :
    (Feox.Conc.Epoch.run Feox.Gen.treeSlotStoreMode { n := n } evs).uaf = false := by
  have hm : Feox.Gen.treeSlotStoreMode = .deferred := by decide
  rw [hm]; exact Feox.Conc.Epoch.deferred_is_safe n evs

/-- the reference `TreeSlot::load` returns cannot outlive the pin (lifetime signature, enforced by
the borrow checker): the model's `unpin` may clear what the reader holds -/
theorem tree_slot_load_tied_to_guard : Feox.Gen.treeSlotLoadTiedToGuard = true := by decide

/-- destroying the replaced object at the swap (`unprotected()` guard, plain drop) is unsafe -/
theorem immediate_destruction_is_unsafe :
    (Feox.Conc.Epoch.run .immediate { n := 1 } [.pin 0, .load 0, .store, .deref 0]).uaf = true :=
  Feox.Conc.Epoch.immediate_is_not

/-! ### non-vacuity -/
example : AllAllowed {} [.push, .push, .submitOk 0, .submitFail 1, .complete 0] := by
  simp [AllAllowed, Allowed, kstep, upd]

example : let r := runEvs {} {} [.push, .push, .submitOk 0, .submitFail 1]
    (released r.1 0, released r.1 1) = (false, true) := by decide

end Feox.C20
