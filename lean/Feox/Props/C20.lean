import Feox.Conc.InFlight
import Feox.Conc.Pin
import Feox.Conc.Epoch
import Feox.Gen.Epoch
import Feox.Gen.Unsafe
/-!
# C20 — the safe API is memory safe  *(partial: the ownership protocols the `unsafe` code relies on)*

What a Lean model can carry here is the logic that decides *when memory may be freed*:
* `InFlightBuffers` (io_uring write buffers): a buffer the kernel may still read is never freed;
* the extent pin word: pins and releases balance, so a guard never outlives its count
  (`Feox.Conc.Pin`, shared with C08).
* the ordered-index slot (`TreeSlot`): with the reclamation mode the translator reads off
  `TreeSlot::store` (`tools/gen_epoch.py` → `Feox.Gen.treeSlotStoreMode`), no reader that loads
  under a pin ever dereferences a destroyed object (`Feox.Conc.Epoch`, crossbeam-epoch's
  `defer_destroy` guarantee taken as the library's semantics).
Machine-level memory safety of the compiled `unsafe` blocks (`AlignedBuffer`, the epoch
library itself) is outside the model; the check re-runs the schedule and fault engines under
AddressSanitizer as a search for a concrete failing input.
-/
namespace Feox.C20
open Feox.Conc.InFlight

/-- states reachable by the submission protocol -/
def Reachable (s : Set) (k : Kernel) : Prop :=
  ∃ es, AllAllowed {} es ∧ runEvs {} {} es = (s, k)

theorem reachable_good {s : Set} {k : Kernel} (h : Reachable s k) : Good s k := by
  obtain ⟨es, ha, hr⟩ := h
  have := good_run es good_init ha
  rw [hr] at this
  exact this

/-- **A buffer the kernel may still be using is never freed**: dropping the set at any point of
any protocol trace releases buffer `i` iff it exists and the kernel does not hold it; a held
buffer is leaked instead. -/
theorem inflight_never_freed {s : Set} {k : Kernel} (h : Reachable s k) (i : Nat) :
    released s i = (decide (i < s.n) && !k.held i) := by
  have := (reachable_good h).same i
  simp [released, this]

theorem held_is_leaked {s : Set} {k : Kernel} (h : Reachable s k) (i : Nat) (hh : k.held i = true) :
    released s i = false := by
  rw [inflight_never_freed h i, hh]; simp

/-- … and nothing else leaks: a buffer whose write never reached the kernel, or whose completion
was consumed, is released by the drop -/
theorem unheld_is_released {s : Set} {k : Kernel} (h : Reachable s k) (i : Nat) (hi : i < s.n) (hh : k.held i = false) :
    released s i = true := by
  rw [inflight_never_freed h i, hh]; simp [hi]

/-- `mark_complete` tells a first completion from a duplicate or foreign one: it returns true
exactly when the kernel held the buffer, so `completed_count` counts every write once -/
theorem mark_complete_counts_once {s : Set} {k : Kernel} (h : Reachable s k) (i : Nat) :
    (step s (.markComplete i)).2 = k.held i := by
  simp [step, (reachable_good h).same i]

/-- the set's own bookkeeping, for any call sequence at all (also outside the protocol): the bit
of `i` is set iff the last mark call on `i` was `mark_in_flight` -/
theorem bit_is_last_mark (s : Set) (o : Op) (i : Nat) :
    (step s o).1.bit i =
      match o with
      | .push => s.bit i
      | .markInFlight j => if i = j then true else s.bit i
      | .markUnqueued j => if i = j then false else s.bit i
      | .markComplete j => if i = j then false else s.bit i := by
  cases o <;> simp [step, upd]

/-- pins and releases of the extent word balance in every reachable state (no guard outlives its
count, the count never underflows) -/
theorem extent_pin_guard_balanced {s : Feox.Conc.Pin.State} (es : List Feox.Conc.Pin.Ev)
    (h : Feox.Conc.Pin.run? {} es = some s) : s.readers = s.pinned + s.reading :=
  (Feox.Conc.Pin.run_inv es Feox.Conc.Pin.inv_init h).count

/-- **No range scan, recovery walk or migration walk ever dereferences a destroyed index object**:
under the reclamation mode of the current source, for any number of readers and any interleaving
of pins, loads, dereferences, unpins / repins, writers' swaps and collector runs -/
theorem tree_slot_no_use_after_free (n : Nat) (evs : List Feox.Conc.Epoch.Ev) :
    (Feox.Conc.Epoch.run Feox.Gen.treeSlotStoreMode { n := n } evs).uaf = false := by
  have hm : Feox.Gen.treeSlotStoreMode = .deferred := by decide
  rw [hm]; exact Feox.Conc.Epoch.deferred_is_safe n evs

/-- the reference `TreeSlot::load` returns cannot outlive the pin (lifetime signature, enforced by
the borrow checker): the model's `unpin` may clear what the reader holds -/
theorem tree_slot_load_tied_to_guard : Feox.Gen.treeSlotLoadTiedToGuard = true := by decide

/-- destroying the replaced object at the swap (`unprotected()` guard, plain drop) is unsafe -/
theorem immediate_destruction_is_unsafe :
    (Feox.Conc.Epoch.run .immediate { n := 1 } [.pin 0, .load 0, .store, .deref 0]).uaf = true :=
  Feox.Conc.Epoch.immediate_is_not

/-! ### non-vacuity -/
example : AllAllowed {} [.push, .push, .submitOk 0, .submitFail 1, .complete 0] := by
  simp [AllAllowed, Allowed, kstep, upd]

example : let r := runEvs {} {} [.push, .push, .submitOk 0, .submitFail 1]
    (released r.1 0, released r.1 1) = (false, true) := by decide

/-! ### the inventory of `unsafe`

No Lean model covers the crate's own `unsafe` code; it is the part of C20 that is exercised (under
AddressSanitizer) rather than proved.  What *is* checked on every run is that this code is where
it was when it was read: `tools/gen_unsafe.py` lists every function of `src/` (test modules, `bin/`
and the verification hooks aside) that contains `unsafe { }` blocks or is an `unsafe fn`, and every
`unsafe impl`; the list below is what was audited — the epoch-protected slot (`TreeSlot::load /
store / drop`, modelled in `Conc.Epoch`), `Send`/`Sync` for `Record`, the raw read / write / fsync /
io_uring submission calls of `DiskIO`, the hardware CRC32C kernels and their dispatchers, the
aligned-buffer allocator, the AES key hash, `lseek(SEEK_DATA)`.  A site outside it (a new lock-free
fast path, say: seeded change C20-5), or more blocks in a site than were read, breaks the
obligation; edits inside an audited block are the sanitizer runs' business. -/

/-- (site id, blocks, unsafe fn) as audited -/
def auditedUnsafe : List (Nat × Nat × Nat) := [
  (229085882564, 1, 0),   -- src/core/record.rs :: drop
  (792672844161, 1, 0),   -- src/core/record.rs :: load
  (95327842651, 1, 0),   -- src/core/record.rs :: store
  (183281217547, 1, 0),   -- src/core/record.rs :: unsafe impl Send for Record
  (395258912441, 1, 0),   -- src/core/record.rs :: unsafe impl Sync for Record
  (609007006387, 1, 0),   -- src/core/store/persistence.rs :: sparse_file_has_no_data
  (713505917982, 2, 0),   -- src/storage/io.rs :: batch_write_inner
  (994673069474, 1, 0),   -- src/storage/io.rs :: flush
  (179384805537, 2, 0),   -- src/storage/io.rs :: read_sectors_sync
  (615224192955, 1, 0),   -- src/storage/io.rs :: write_retirement_extent_direct
  (805201918180, 2, 0),   -- src/storage/io.rs :: write_sectors_sync
  (665071778080, 0, 1),   -- src/storage/seq_token.rs :: crc32c_arm
  (768659070182, 1, 0),   -- src/storage/seq_token.rs :: crc32c_arm_dispatch
  (97529156329, 0, 1),   -- src/storage/seq_token.rs :: crc32c_x86
  (761874568843, 1, 0),   -- src/storage/seq_token.rs :: crc32c_x86_dispatch
  (557873581436, 2, 0),   -- src/utils/allocator.rs :: allocate_aligned
  (223099423551, 2, 0),   -- src/utils/allocator.rs :: allocate_large
  (787280133635, 1, 0),   -- src/utils/allocator.rs :: allocate_small
  (197571463853, 1, 0),   -- src/utils/allocator.rs :: as_mut_slice
  (672018909126, 1, 0),   -- src/utils/allocator.rs :: as_slice
  (542943685723, 2, 0),   -- src/utils/allocator.rs :: deallocate_aligned
  (460059091253, 2, 0),   -- src/utils/allocator.rs :: deallocate_large
  (717350713368, 1, 0),   -- src/utils/allocator.rs :: deallocate_small
  (1060476114823, 1, 0),   -- src/utils/hash.rs :: hash_key_aes_safe
  (1045480647295, 0, 1)   -- src/utils/hash.rs :: hash_key_aes_unsafe
]

def siteAudited (s : Nat × Nat × Nat) : Bool :=
  auditedUnsafe.any fun a => a.1 == s.1 && decide (s.2.1 ≤ a.2.1) && decide (s.2.2 ≤ a.2.2)

theorem unsafe_sites_audited : Feox.Gen.unsafeSites.all siteAudited = true := by decide

/-- the check is not vacuous: a site that was never read is refused -/
example : siteAudited (42, 1, 0) = false := by decide
example : Feox.Gen.unsafeSites.length ≥ 20 := by decide

end Feox.C20
