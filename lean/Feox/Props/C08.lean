import Feox.Conc.Pin
import Feox.Props.C10
/-!
# C08 — reads racing with flush, retirement and reuse return only genuine values

Two layers.
* `Feox.Conc.Pin`: the reader-pin / retired-bit handshake on `Record::extent_state`, for any
  number of anonymous readers and any interleaving with the retirer: a device read under a pin
  sees the generation's own bytes, and the blocks are overwritten (markers, reuse) only with no
  reader inside.
* `Feox.Fmt`: the post-read identity check `sector_holds_record` — what it accepts has the key,
  the value length and the timestamp of the generation asked for, and it rejects a retirement
  marker block and zero padding.
-/
namespace Feox.C08
open Feox.Conc.Pin Feox.Fmt Feox.Gen

/-- the states reachable by any event sequence -/
def Reachable (s : State) : Prop := ∃ es, run? {} es = some s

theorem reachable_inv {s : State} (h : Reachable s) : Inv s := by
  obtain ⟨es, hr⟩ := h
  exact run_inv es inv_init hr

/-- **A read under a pin sees the generation's own bytes** — never markers, never another
key's record, in every reachable state of every interleaving. -/
theorem pread_sees_data {s s' : State} {c : Content} (h : Reachable s) (hs : step? s .pread = some (s', .saw c)) :
    c = .data := by
  have hi := reachable_inv h
  simp only [step?] at hs
  split at hs
  · rename_i hp
    cases hs
    by_cases hne : s.content = .data
    · exact hne
    · rcases hi.intact hne with hw | hw
      · have := (hi.past (Or.inr (Or.inl hw))).1; have := hi.count; omega
      · have := (hi.past (Or.inr (Or.inr hw))).1; have := hi.count; omega
  · cases hs

/-- **The blocks of a generation are not overwritten while a reader is reading them**: the
marker write and the reuse of the freed blocks are enabled only with no reader inside. -/
theorem no_overwrite_while_pinned {s s' : State} {e : Ev} {o : Out} (h : Reachable s)
    (he : e = .mark ∨ e = .reuse) (hs : step? s e = some (s', o)) :
    s.readers = 0 ∧ s.pinned = 0 ∧ s.reading = 0 := by
  have hi := reachable_inv h
  have key : s.w = .cleared ∨ s.w = .marked ∨ s.w = .freed := by
    rcases he with rfl | rfl <;> simp only [step?] at hs <;> split at hs <;> simp_all
  have := (hi.past key).1
  have := hi.count
  omega

/-- once the retired bit is set no reader gets in any more (`acquire_extent` returns `None`,
the caller sees `StaleExtent` and re-resolves the key), and the bit is never cleared -/
theorem retired_refuses_and_stays {s s' : State} {e : Ev} {o : Out} (hr : s.retired = true) (hs : step? s e = some (s', o)) :
    s'.retired = true ∧ (e = .acquire → o = .refused ∧ s' = s) := by
  cases e <;> simp only [step?] at hs <;> (try split at hs) <;> (try split at hs) <;> simp_all
  all_goals (first | (cases hs; simp_all) | (obtain ⟨rfl, rfl⟩ := hs; simp_all))

/-- the retirer writes markers only after it has seen the reader count at zero *with the bit
already set* (the order that makes the handshake work) -/
theorem mark_needs_cleared {s s' : State} {o : Out} (hs : step? s .mark = some (s', o)) : s.w = .cleared := by
  simp only [step?] at hs; split at hs <;> simp_all

/-! ### the identity check -/

/-- what `sector_holds_record` accepts carries the key, value length and timestamp asked for -/
theorem identity_check_sound (data key : Bytes) (valueLen ts : Nat) (h : sectorHoldsRecord data key valueLen ts = true) :
    rd (slice data 0 2) = SECTOR_MARKER ∧
    rd (slice data SECTOR_HEADER_SIZE 2) = key.length ∧
    slice data (SECTOR_HEADER_SIZE + 2) key.length = key ∧
    rd (slice data (SECTOR_HEADER_SIZE + 2 + key.length) 8) = valueLen ∧
    rd (slice data (SECTOR_HEADER_SIZE + 2 + key.length + 8) 8) = ts := by
  unfold sectorHoldsRecord at h
  split at h; · simp at h
  split at h; · simp at h
  rename_i h1
  simp only at h
  split at h; · simp at h
  rename_i h2
  split at h; · simp at h
  split at h; · simp at h
  rename_i h3
  split at h; · simp at h
  rename_i h4
  have e2 : rd (slice data SECTOR_HEADER_SIZE 2) = key.length := by simpa using h2
  refine ⟨by simpa using h1, e2, ?_, ?_, ?_⟩
  · rw [e2] at h3; simpa using h3
  · rw [e2] at h4; simpa using h4
  · rw [e2] at h; simpa using h

/-- a retirement-marker block is rejected by the identity check, whatever record is asked for -/
theorem marker_fails_identity_check (sector remaining state : Nat) (key : Bytes) (valueLen ts : Nat) :
    sectorHoldsRecord (markerBlock sector remaining state) key valueLen ts = false := by
  unfold sectorHoldsRecord
  split
  · rfl
  · have := C10.marker_not_head sector remaining state
    simp [this]

/-- zero padding / a never-written block is rejected too -/
theorem zeros_fail_identity_check (n : Nat) (key : Bytes) (valueLen ts : Nat) :
    sectorHoldsRecord (zeros n) key valueLen ts = false := by
  unfold sectorHoldsRecord
  split
  · rfl
  · have := (C10.zero_is_neither n).2
    simp [this]

/-! ### non-vacuity -/
example : run? {} [.acquire, .setBit, .check, .pread, .release, .setBit, .check, .mark, .recheck, .reuse] =
    some { readers := 0, retired := true, pinned := 0, reading := 0, content := .reused, w := .freed } := by decide
example : (step? { retired := true } .acquire).map (·.2) = some .refused := by decide

end Feox.C08
