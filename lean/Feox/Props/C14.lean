import Feox.Kv.StepAcc
import Feox.Conc.Range
/-!
# C14 — range queries: exactly the live keys in range, ordered, current values

Theorems about `Feox.Kv.rangeScan` (the model of `range_query`'s loop over the ordered
index) for all key sets, bounds, limits and times.
-/
namespace Feox.C14
open Feox.Kv Feox.Fmt

/-- the live, unexpired entries inside the inclusive bounds -/
def inRange (s : State) (a b : Bytes) (now : Nat) (ke : Bytes × Entry) : Bool :=
  bytesLe a ke.1 && bytesLe ke.1 b && !hidden s now ke.2

theorem filter_nil_of_above {s : State} {a b : Bytes} {now : Nat} {l : List (Bytes × Entry)}
    (h : ∀ x ∈ l, bytesLt b x.1 = true) : l.filter (inRange s a b now) = [] := by
  apply List.filter_eq_nil_iff.mpr
  intro x hx
  simp [inRange, bytesLe, h x hx]

/-- **Exactly the live unexpired keys in range, the smallest `limit` of them, with their
current values**: the scan equals "filter the sorted index by (in bounds ∧ not expired), take
`limit`".  Skipped (expired) entries do not consume the limit. -/
theorem range_spec (s : State) (a b : Bytes) (limit now : Nat) (l : List (Bytes × Entry)) (hs : Sorted l) :
    rangeScan s a b limit now l = ((l.filter (inRange s a b now)).take limit).map (fun ke => (ke.1, ke.2.val)) := by
  induction l generalizing limit with
  | nil => simp [rangeScan]
  | cons x xs ih =>
    obtain ⟨k, e⟩ := x
    unfold Sorted at hs
    rw [List.pairwise_cons] at hs
    unfold rangeScan
    split
    · rename_i h0
      have : limit = 0 := by simpa using h0
      subst this; simp
    · rename_i hlim
      split
      · rename_i hlt
        have : inRange s a b now (k, e) = false := by simp [inRange, bytesLe, hlt]
        rw [List.filter_cons_of_neg (by simp [this])]
        exact ih limit hs.2
      · rename_i hge
        split
        · rename_i hgt
          -- everything from here on is above the upper bound
          have hall : ∀ x ∈ (k, e) :: xs, bytesLt b x.1 = true := by
            intro x hx
            rcases List.mem_cons.mp hx with rfl | hx'
            · exact hgt
            · exact bytesLt_trans hgt (hs.1 x hx')
          rw [filter_nil_of_above hall]; simp
        · rename_i hle
          split
          · rename_i hhid
            have : inRange s a b now (k, e) = false := by simp [inRange, hhid]
            rw [List.filter_cons_of_neg (by simp [this])]
            exact ih limit hs.2
          · rename_i hvis
            have hin : inRange s a b now (k, e) = true := by
              simp only [inRange, bytesLe]
              simp at hge hle hvis
              simp [hge, hle, hvis]
            rw [List.filter_cons_of_pos hin]
            have hl : limit = (limit - 1) + 1 := by
              have : limit ≠ 0 := by simpa using hlim
              omega
            rw [ih (limit - 1) hs.2]
            conv => rhs; rw [hl, List.take_succ_cons]
            simp

/-- corollaries: at most `limit` results, keys strictly ascending, all within the inclusive
bounds, none expired, each value the key's current value -/
theorem range_props (s : State) (a b : Bytes) (limit now : Nat) (hs : Sorted s.entries) :
    let r := rangeScan s a b limit now s.entries
    r.length ≤ limit ∧
    r.Pairwise (fun x y => bytesLt x.1 y.1 = true) ∧
    (∀ p ∈ r, bytesLe a p.1 = true ∧ bytesLe p.1 b = true ∧
      ∃ e, lookup p.1 s.entries = some e ∧ e.val = p.2 ∧ hidden s now e = false) := by
  intro r
  have hr : r = ((s.entries.filter (inRange s a b now)).take limit).map (fun ke => (ke.1, ke.2.val)) :=
    range_spec s a b limit now s.entries hs
  refine ⟨?_, ?_, ?_⟩
  · rw [hr]; simp; exact Nat.min_le_left _ _
  · rw [hr]
    rw [List.pairwise_map]
    exact ((hs.filter _).sublist (List.take_sublist _ _))
  · intro p hp
    rw [hr] at hp
    obtain ⟨ke, hke, rfl⟩ := List.mem_map.mp hp
    have hmem := List.mem_of_mem_take hke
    obtain ⟨hin, hpred⟩ := List.mem_filter.mp hmem
    simp only [inRange, Bool.and_eq_true, Bool.not_eq_true'] at hpred
    refine ⟨hpred.1.1, hpred.1.2, ke.2, lookup_of_mem_sorted hs hin, rfl, hpred.2⟩

/-- `start > end` gives nothing; `limit = 0` gives nothing -/
theorem range_empty (s : State) (a b : Bytes) (limit now : Nat) (hs : Sorted s.entries) :
    (bytesLt b a = true → rangeScan s a b limit now s.entries = []) ∧
    rangeScan s a b 0 now s.entries = [] := by
  constructor
  · intro hba
    rw [range_spec s a b limit now s.entries hs]
    have : s.entries.filter (inRange s a b now) = [] := by
      apply List.filter_eq_nil_iff.mpr
      intro x _ hin
      simp only [inRange, bytesLe, Bool.and_eq_true, Bool.not_eq_true'] at hin
      obtain ⟨⟨h1, h2⟩, _⟩ := hin
      have h1' : bytesLt x.1 a = false := by simpa using h1
      have h2' : bytesLt b x.1 = false := by simpa using h2
      rcases bytesLt_total x.1 a with h | h | h
      · rw [h] at h1'; cases h1'
      · rw [← h] at hba; rw [hba] at h2'; cases h2'
      · have := bytesLt_trans hba h; rw [this] at h2'; cases h2'
    rw [this]; simp
  · rw [range_spec s a b 0 now s.entries hs]; simp

/-- a live, unexpired key inside the bounds is returned whenever the limit is not exhausted
before it: with `limit ≥ #entries` nothing in range is missing -/
theorem range_complete (s : State) (a b : Bytes) (now : Nat) (hs : Sorted s.entries) {k : Bytes} {e : Entry}
    (hl : lookup k s.entries = some e) (ha : bytesLe a k = true) (hb : bytesLe k b = true)
    (hv : hidden s now e = false) :
    (k, e.val) ∈ rangeScan s a b s.entries.length now s.entries := by
  rw [range_spec s a b _ now s.entries hs]
  apply List.mem_map.mpr
  refine ⟨(k, e), ?_, rfl⟩
  have hmem : (k, e) ∈ s.entries.filter (inRange s a b now) :=
    List.mem_filter.mpr ⟨mem_of_lookup hl, by simp [inRange, ha, hb, hv]⟩
  have hlen : (s.entries.filter (inRange s a b now)).length ≤ s.entries.length := List.length_filter_le _ _
  rw [List.take_of_length_le hlen]
  exact hmem

/-- both indexes agree in the model by construction (one sorted list); what this buys is the
uniqueness and order of keys in every reachable state, the hypothesis of the theorems above -/
theorem reachable_sorted (c : Cfg) (ops : List Op) : Sorted (run { cfg := c } ops).1.entries :=
  (run_acc (acc_init c) ops).sorted

/-! ### under concurrent writers (model `Feox.Conc.Range`)

The index may change arbitrarily between any two iterations of the scan.  `hist` lists, per
iteration, the index at that instant and which entries resolve to a value. -/
section Concurrent
open Feox.Conc.Range

/-- **Everything the statement promises about a scan racing with writers**, for every start
index, every history of index changes, every bounds and limit:
results strictly ascending (hence no key twice), inside the bounds, at most `limit`, each was in
the index at some instant of the scan, and a key that is in the index and readable at *every*
instant of the scan and that the scan has moved beyond is in the result. -/
theorem concurrent_scan (lo hi limit : Nat) (ix0 : List Nat) (hist : List (List Nat × (Nat → Bool)))
    (present stable : Nat → Prop) (hp0 : ∀ k ∈ ix0, present k) (hs0 : ∀ k, stable k → k ∈ ix0)
    (hf : Fits present stable hist) :
    let s := Feox.Conc.Range.run hi limit (start ix0 lo) hist
    s.out.Pairwise (· < ·) ∧ (∀ k ∈ s.out, lo ≤ k ∧ k ≤ hi) ∧ s.out.length ≤ limit ∧
    (∀ k ∈ s.out, present k) ∧ (∀ k, stable k → lo ≤ k → passed s k → k ∈ s.out) := by
  have h := inv_run (lo := lo) (hi := hi) (limit := limit) hist _ (inv_start ix0 hp0 hs0) hf
  exact ⟨h.sorted, h.bounds, h.short, h.genuine.1, h.complete⟩

/-- **A key deleted before the query began never appears**: a key that is in no index of the
scan's history is not in the result. -/
theorem absent_never_appears (lo hi limit : Nat) (ix0 : List Nat) (hist : List (List Nat × (Nat → Bool))) (k : Nat)
    (h0 : k ∉ ix0) (hh : ∀ st ∈ hist, k ∉ st.1) :
    k ∉ (Feox.Conc.Range.run hi limit (start ix0 lo) hist).out := by
  intro hk
  have := (concurrent_scan lo hi limit ix0 hist (fun x => x ∈ ix0 ∨ ∃ st ∈ hist, x ∈ st.1) (fun _ => False)
    (fun x hx => Or.inl hx) (fun _ hf => hf.elim)
    (fun st hst => ⟨fun x hx => Or.inr ⟨st, hst, hx⟩, fun _ hf => hf.elim⟩)).2.2.2.1 k hk
  rcases this with h | ⟨st, hst, hx⟩
  · exact h0 h
  · exact hh st hst hx

/-- **A stable key is never missing or duplicated**: a key in every index of the history and
readable throughout, at or above the lower bound, that the scan has moved beyond, occurs in the
result exactly once. -/
theorem stable_key_exactly_once (lo hi limit : Nat) (ix0 : List Nat) (hist : List (List Nat × (Nat → Bool))) (k : Nat)
    (h0 : k ∈ ix0) (hh : ∀ st ∈ hist, k ∈ st.1 ∧ st.2 k = true) (hlo : lo ≤ k)
    (hp : passed (Feox.Conc.Range.run hi limit (start ix0 lo) hist) k) :
    (Feox.Conc.Range.run hi limit (start ix0 lo) hist).out.count k = 1 := by
  have h := concurrent_scan lo hi limit ix0 hist (fun _ => True) (fun x => x = k)
    (fun _ _ => trivial) (fun x hx => hx ▸ h0) (fun st hst => ⟨fun _ _ => trivial, fun x hx => hx ▸ hh st hst⟩)
  have hmem := h.2.2.2.2 k rfl hlo hp
  have hnd : (Feox.Conc.Range.run hi limit (start ix0 lo) hist).out.Nodup :=
    h.1.imp (fun hab => Nat.ne_of_lt hab)
  rw [hnd.count]; simp [hmem]

/- non-vacuity: key 5 is removed after the scan has left it, key 7 appears behind the scan,
key 9 stays: the scan returns 3, 5, 9 -/
example : (Feox.Conc.Range.run 100 10 (start [3, 5, 9] 0)
    [([3, 5, 9], fun _ => true), ([3, 9], fun _ => true), ([3, 4, 9], fun _ => true), ([3, 4, 9], fun _ => true)]).out = [3, 5, 9] := by
  decide

end Concurrent

end Feox.C14
