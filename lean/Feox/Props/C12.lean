import Feox.Kv.Shapes
/-!
# C12 — automatic versions strictly increase per key across writes and restarts

Theorems about the version clock of `Feox.Kv.Spec`.  `sh` is the (random, per store handle)
map from keys to clock shards; an operation is well-formed when it carries `sh key` as its
shard.  `Headroom` is the statement's "unless pinned at the maximum" made precise: the shard
clock is below `u64::MAX` (see the known findings F1/F2 in DESIGN.md for what happens at
the excluded points in the real code).
-/
namespace Feox.C12
open Feox.Kv Feox.Fmt Feox.Gen

def ClockOk (s : State) : Prop := s.clock.length = VERSION_CLOCK_SHARDS

/-- every timestamp carried by a live entry has been folded into its key's shard clock
(except the terminal value, which `observe` skips) -/
def ClockInv (sh : Bytes → Nat) (s : State) : Prop :=
  ∀ k e, lookup k s.entries = some e → e.ts = U64MAX ∨ e.ts ≤ clockGet s (sh k)

theorem clockGet_set_same {s : State} {i v : Nat} (hc : ClockOk s) (hi : i < VERSION_CLOCK_SHARDS) :
    clockGet { s with clock := s.clock.set i v } i = v := by
  unfold clockGet ClockOk at *
  simp [List.getD, hc, hi]

theorem clockGet_set_other {s : State} {i j v : Nat} (h : i ≠ j) :
    clockGet { s with clock := s.clock.set i v } j = clockGet s j := by
  unfold clockGet
  simp [List.getD, List.getElem?_set, h]

/-- **`next` is strictly above the shard clock** (below the maximum), becomes the new clock
value, and never moves any clock backwards -/
theorem next_strict {s : State} {shard now : Nat} (hc : ClockOk s) (hi : shard < VERSION_CLOCK_SHARDS)
    (hh : clockGet s shard < U64MAX) :
    clockGet s shard < (clockNext s shard now).1 ∧
    clockGet (clockNext s shard now).2 shard = (clockNext s shard now).1 ∧
    now ≤ (clockNext s shard now).1 ∧
    (∀ j, clockGet s j ≤ clockGet (clockNext s shard now).2 j) := by
  unfold clockNext
  simp only
  have hset := clockGet_set_same (s := s) (v := if now > clockGet s shard then now else satAdd (clockGet s shard) 1) hc hi
  refine ⟨?_, hset, ?_, ?_⟩
  · split
    · assumption
    · unfold satAdd; omega
  · split
    · omega
    · unfold satAdd; omega
  · intro j
    by_cases hj : shard = j
    · subst hj; rw [hset]; split
      · omega
      · unfold satAdd; omega
    · rw [clockGet_set_other hj]; exact Nat.le_refl _

theorem observe_ge {s : State} {shard ts : Nat} (hc : ClockOk s) (hi : shard < VERSION_CLOCK_SHARDS) :
    (ts = U64MAX ∨ ts ≤ clockGet (clockObserve s shard ts) shard) ∧
    (∀ j, clockGet s j ≤ clockGet (clockObserve s shard ts) j) ∧ ClockOk (clockObserve s shard ts) := by
  unfold clockObserve
  split
  · rename_i h; exact ⟨Or.inl (by simpa using h), fun _ => Nat.le_refl _, hc⟩
  · split
    · rename_i hgt
      refine ⟨Or.inr (by rw [clockGet_set_same hc hi]; exact Nat.le_refl _), ?_, by unfold ClockOk at *; simp [hc]⟩
      intro j
      by_cases hj : shard = j
      · subst hj; rw [clockGet_set_same hc hi]; omega
      · rw [clockGet_set_other hj]; exact Nat.le_refl _
    · rename_i hle
      exact ⟨Or.inr (by omega), fun _ => Nat.le_refl _, hc⟩

/-- **An automatically timestamped insert is never rejected as older** (absent concurrent
writers), as long as the key's shard clock has headroom and the key was not pinned at the
terminal timestamp -/
theorem auto_insert_never_older {sh : Bytes → Nat} {s : State} {k v : Bytes} {ttl now : Nat}
    (hinv : ClockInv sh s) (hc : ClockOk s) (hi : sh k < VERSION_CLOCK_SHARDS)
    (hh : clockGet s (sh k) < U64MAX) (hpin : ∀ e, lookup k s.entries = some e → e.ts ≠ U64MAX) :
    (doInsert s k v none ttl (sh k) now).2 ≠ .err .OlderTimestamp := by
  unfold doInsert
  split
  · simp
  · split
    · simp
    · simp only [resolveTs]
      have hn := next_strict (now := now) hc hi hh
      have hf := clockNext_frame s (sh k) now
      split
      · rename_i old hl
        rw [hf.1] at hl
        have hlt : ¬ (clockNext s (sh k) now).1 ≤ old.ts := by
          rcases hinv k old hl with h | h
          · exact absurd h (hpin old hl)
          · omega
        simp only [hlt, ↓reduceIte]
        split <;> simp
      · split <;> simp

/-- the same for delete -/
theorem auto_delete_never_older {sh : Bytes → Nat} {s : State} {k : Bytes} {now : Nat}
    (hinv : ClockInv sh s) (hc : ClockOk s) (hi : sh k < VERSION_CLOCK_SHARDS)
    (hh : clockGet s (sh k) < U64MAX) (hpin : ∀ e, lookup k s.entries = some e → e.ts ≠ U64MAX) :
    (doDelete s k none (sh k) now).2 ≠ .err .OlderTimestamp := by
  unfold doDelete
  split
  · simp
  · simp only [resolveTs]
    have hn := next_strict (now := now) hc hi hh
    have hf := clockNext_frame s (sh k) now
    split
    · simp
    · rename_i old hl
      rw [hf.1] at hl
      have hlt : ¬ (clockNext s (sh k) now).1 ≤ old.ts := by
        rcases hinv k old hl with h | h
        · exact absurd h (hpin old hl)
        · omega
      simp [hlt]

/-- the same for compare-and-swap -/
theorem auto_cas_never_older {sh : Bytes → Nat} {s : State} {k ex nv : Bytes} {ttl now : Nat}
    (hinv : ClockInv sh s) (hc : ClockOk s) (hi : sh k < VERSION_CLOCK_SHARDS)
    (hh : clockGet s (sh k) < U64MAX) (hpin : ∀ e, lookup k s.entries = some e → e.ts ≠ U64MAX) :
    (doCas s k ex nv none ttl (sh k) now).2 ≠ .err .OlderTimestamp := by
  unfold doCas
  split
  · simp
  · split
    · simp
    · split
      · simp
      · split
        · simp
        · rename_i old hl
          split
          · simp
          · split
            · simp
            · simp only [resolveTs]
              have hn := next_strict (now := now) hc hi hh
              have hlt : ¬ (clockNext s (sh k) now).1 ≤ old.ts := by
                rcases hinv k old hl with h | h
                · exact absurd h (hpin old hl)
                · omega
              simp only [hlt, ↓reduceIte]
              split <;> simp

/-- a TTL change always gets a version above the one it replaces -/
theorem update_ttl_strict {s : State} {k : Bytes} {e : Entry} {ttl shard now : Nat}
    (hl : lookup k s.entries = some e) (hpin : e.ts ≠ U64MAX) (he : e.ts ≤ U64MAX) :
    (doUpdateTtl s k ttl shard now).2 ≠ .err .OlderTimestamp := by
  unfold doUpdateTtl
  split
  · simp
  · split
    · simp
    · split
      · simp
      · simp only [hl]
        split
        · simp
        · have : ¬ (e.ts + 1 > U64MAX) := by omega
          simp [this]

/-- shape of an insert with an explicit timestamp: it either fails leaving the state untouched,
or publishes and then folds exactly that timestamp into the shard clock -/
theorem doInsert_explicit {s : State} {k v : Bytes} {t ttl shard now : Nat} (ht : t ≠ 0) :
    (∃ er, doInsert s k v (some t) ttl shard now = (s, .err er)) ∨
    (∃ s2 b, doInsert s k v (some t) ttl shard now = (clockObserve s2 shard t, .okBool b) ∧ s2.clock = s.clock) := by
  have hb : (t != 0) = true := by simp [ht]
  have hR : resolveTs s (some t) shard now = (t, true, s) := by simp [resolveTs, hb]
  have hcases := doInsert_cases s k v (some t) ttl shard now
  simp only [hR] at hcases
  rcases hcases with ⟨e, he, _⟩ | ⟨_, _, hc⟩
  · left; exact ⟨e, he⟩
  · rcases hc with ⟨_, _, _, he⟩ | ⟨_, _, _, _, he⟩ | ⟨o, s2, _, _, hr, he⟩ | ⟨_, _, he⟩ | ⟨s2, _, hr, he⟩
    · left; exact ⟨_, he⟩
    · left; exact ⟨_, he⟩
    · right; exact ⟨s2, false, by rw [he]; simp [observePublished], (replaceEntry_entries hr).2.1⟩
    · left; exact ⟨_, he⟩
    · right; exact ⟨s2, true, by rw [he]; simp [observePublished], (createEntry_entries hr).2.1⟩

/-- **An explicit timestamp carried by a call that fails is never absorbed into the clock**:
a failing insert with an explicit timestamp leaves the whole state, clock included, exactly
as it was -/
theorem failed_explicit_insert_not_absorbed {s : State} {k v : Bytes} {t ttl shard now : Nat} {er : Err}
    (ht : t ≠ 0) (h : (doInsert s k v (some t) ttl shard now).2 = .err er) :
    (doInsert s k v (some t) ttl shard now).1 = s := by
  rcases doInsert_explicit (s := s) (k := k) (v := v) (ttl := ttl) (shard := shard) (now := now) ht with ⟨e, he⟩ | ⟨s2, b, he, _⟩
  · rw [he]
  · rw [he] at h; cases h

/-- … and the same for a failing delete -/
theorem failed_explicit_delete_not_absorbed {s : State} {k : Bytes} {t shard now : Nat} {er : Err}
    (ht : t ≠ 0) (h : (doDelete s k (some t) shard now).2 = .err er) :
    (doDelete s k (some t) shard now).1 = s := by
  have hb : (t != 0) = true := by simp [ht]
  unfold doDelete at h ⊢
  cases h1 : validKey k with
  | false => simp
  | true =>
  simp only [h1, Bool.not_true, Bool.false_eq_true, ↓reduceIte, resolveTs, hb] at h ⊢
  cases hl : lookup k s.entries with
  | none => simp
  | some old =>
    simp only [hl] at h ⊢
    by_cases hle : t ≤ old.ts
    · simp [hle]
    · simp [hle] at h

/-- an accepted explicit timestamp *is* folded into the key's shard clock, so later automatic
versions exceed it -/
theorem accepted_explicit_insert_observed {sh : Bytes → Nat} {s : State} {k v : Bytes} {t ttl now : Nat} {b : Bool}
    (hc : ClockOk s) (hi : sh k < VERSION_CLOCK_SHARDS) (ht : t ≠ 0)
    (h : (doInsert s k v (some t) ttl (sh k) now).2 = .okBool b) :
    t = U64MAX ∨ t ≤ clockGet (doInsert s k v (some t) ttl (sh k) now).1 (sh k) := by
  rcases doInsert_explicit (s := s) (k := k) (v := v) (ttl := ttl) (shard := sh k) (now := now) ht with ⟨e, he⟩ | ⟨s2, b', he, hclk⟩
  · rw [he] at h; cases h
  · rw [he]
    have hc2 : ClockOk s2 := by unfold ClockOk at *; rw [hclk]; exact hc
    exact (observe_ge hc2 hi).1

/-- **Restart**: after a clean reopen every recovered timestamp (other than the terminal one) is
at or below its key's new shard clock — the clock invariant is re-established from the disk
contents, under the new handle's own shard map -/
theorem reopen_clock_dominates (s : State) (hp : s.cfg.memoryOnly = false) (ttlOn : Bool) (now : Nat)
    (shards : List (Bytes × Nat)) (hs : Sorted s.entries)
    (hsh : ∀ ke ∈ s.entries, (shards.lookup ke.1).getD 0 < VERSION_CLOCK_SHARDS) :
    ∀ ke ∈ s.entries, ke.2.ts = U64MAX ∨
      ke.2.ts ≤ (doReopen s ttlOn now shards).clock.getD ((shards.lookup ke.1).getD 0) 0 := by
  unfold doReopen
  simp only [hp, Bool.false_eq_true, ↓reduceIte]
  -- generalise over the fold
  suffices h : ∀ (l : List (Bytes × Entry)) (c : List Nat), c.length = VERSION_CLOCK_SHARDS →
      (∀ ke ∈ l, (shards.lookup ke.1).getD 0 < VERSION_CLOCK_SHARDS) →
      let c' := l.foldl (fun (c : List Nat) (ke : Bytes × Entry) =>
        if ke.2.ts == U64MAX then c else if ke.2.ts > c.getD ((shards.lookup ke.1).getD 0) 0
          then c.set ((shards.lookup ke.1).getD 0) ke.2.ts else c) c
      c'.length = VERSION_CLOCK_SHARDS ∧ (∀ j, c.getD j 0 ≤ c'.getD j 0) ∧
      (∀ ke ∈ l, ke.2.ts = U64MAX ∨ ke.2.ts ≤ c'.getD ((shards.lookup ke.1).getD 0) 0) by
    exact (h s.entries (List.replicate VERSION_CLOCK_SHARDS 0) (by simp) hsh).2.2
  intro l
  induction l with
  | nil => intro c hc _; exact ⟨hc, fun _ => Nat.le_refl _, by simp⟩
  | cons x xs ih =>
    intro c hc hshx
    simp only [List.foldl_cons]
    have hx := hshx x List.mem_cons_self
    have hrest := fun ke hke => hshx ke (List.mem_cons_of_mem _ hke)
    split
    · rename_i hmax
      obtain ⟨h1, h2, h3⟩ := ih c hc hrest
      refine ⟨h1, h2, ?_⟩
      intro ke hke
      rcases List.mem_cons.mp hke with rfl | hke'
      · left; simpa using hmax
      · exact h3 ke hke'
    · split
      · rename_i hgt
        have hc' : (c.set ((shards.lookup x.1).getD 0) x.2.ts).length = VERSION_CLOCK_SHARDS := by simp [hc]
        obtain ⟨h1, h2, h3⟩ := ih _ hc' hrest
        refine ⟨h1, ?_, ?_⟩
        · intro j
          refine Nat.le_trans ?_ (h2 j)
          by_cases hj : (shards.lookup x.1).getD 0 = j
          · subst hj
            simp only [List.getD, List.getElem?_set, hc, hx, ↓reduceIte, Option.getD_some]
            simp only [List.getD] at hgt
            omega
          · simp [List.getD, List.getElem?_set, hj]
        · intro ke hke
          rcases List.mem_cons.mp hke with rfl | hke'
          · right
            refine Nat.le_trans ?_ (h2 _)
            simp [List.getD, List.getElem?_set, hc, hx]
          · exact h3 ke hke'
      · rename_i hle
        obtain ⟨h1, h2, h3⟩ := ih c hc hrest
        refine ⟨h1, h2, ?_⟩
        intro ke hke
        rcases List.mem_cons.mp hke with rfl | hke'
        · right; exact Nat.le_trans (by omega) (h2 _)
        · exact h3 ke hke'

/-! ### the statement without its hypotheses is false — of the model and of the code alike
(known findings F1 and F2; the same histories are replayed on the implementation by the check) -/

/-- **F1**: an accepted explicit timestamp `u64::MAX - 1` removes the shard's headroom: the second
automatic write after it is rejected as older -/
theorem F1_witness :
    (run {} [.insert [1] [1] (some (U64MAX - 1)) 0 false 0 100, .insert [1] [2] none 0 false 0 200,
      .insert [1] [3] none 0 false 0 300]).2 = [.okBool true, .okBool false, .err .OlderTimestamp] := by decide

/-- **F2**: a delete's explicit timestamp leaves no trace on disk: after a reopen an automatic write
gets a version below it, so an older explicit write (`F+5 < F+10`) is accepted on top -/
theorem F2_witness :
    (run { cfg := { memoryOnly := false } } [.insert [2] [1] (some 5000) 0 false 0 100, .delete [2] (some 5010) 0 200,
      .reopen false 300 [], .insert [2] [2] none 0 false 0 400, .insert [2] [3] (some 5005) 0 false 0 500]).2 =
      [.okBool true, .okUnit, .okUnit, .okBool true, .okBool false] := by decide

/-! ### non-vacuity -/

example : (run {} [.insert [1] [7] (some 5000) 0 false 3 100, .insert [1] [8] none 0 false 3 200,
    .delete [1] none 3 300]).2 = [.okBool true, .okBool false, .okUnit] := by decide

end Feox.C12
