import Feox.Props.C10
import Feox.Fmt.JournalOpen
import Feox.Fmt.WriteRead
import Feox.Fmt.Commit
import Feox.Fmt.CleanCheck
/-!
# C10 (continued) — the writer's bytes are what the reader accepts

`Props/C10.lean` has the round trips of the single codecs.  Here the writer and the recovery loop
meet: an image holding `encodeExtent` in the blocks of an extent satisfies every test the loop makes
before it accepts a record there (`Fmt.IsHead`), a block written by retirement is a marker the loop
accepts (`Fmt.IsMark`), an all-zero block is stepped over (`Fmt.LooksFree`).  So a data area built
from the writers' outputs *represents* (`Fmt.Rep`) its own labelling, and by `C03.byte_scan_of_tiled`
the independent reader finds exactly the records that were written — the flush clause of C10 as
far as a theorem can carry it (that the real store issues these writes is the correspondence).
-/
namespace Feox.C10
open Feox.Fmt Feox.Gen

/-- **Write → read, at the level of the recovery scan.** -/
theorem written_record_is_accepted (img : Image) (v sector : Nat) (m : RecMeta) (value : Bytes) (hw : WfRec v m value)
    (hk : m.key.length ≤ MAX_KEY_SIZE) (hv0 : 0 < m.valueLen) (hvmax : m.valueLen ≤ MAX_VALUE_SIZE)
    (hh : HoldsExtent img sector (encodeExtent v sector m value) (extentBlocks v m.key.length m.valueLen)) :
    IsHead img v sector m (extentBlocks v m.key.length m.valueLen) :=
  encoded_extent_is_head img v sector m value hw hk hv0 hvmax hh

theorem written_marker_is_accepted (v sector remaining : Nat) (h : remaining < 2 ^ 64) (hr : 0 < remaining) :
    IsMark v sector (markerBlock sector remaining RETIREMENT_COMPLETE) remaining :=
  marker_is_mark v sector remaining h hr

theorem blank_block_is_free : LooksFree (zeros BSZ) := zero_block_looks_free

/-- the hypotheses are satisfiable: the two example records of `Props/C10` are within the store's limits -/
example : (⟨[107, 49], 5, 1700000000, 0⟩ : RecMeta).key.length ≤ MAX_KEY_SIZE ∧ 0 < (5 : Nat) ∧ 5 ≤ MAX_VALUE_SIZE := by decide

/-- **An independent reader of a flushed and closed file**: when the run-time decision `openCleanB`
accepts a device file together with the store's index (evaluated on every such file of the
correspondence runs), the whole open of the documented layout — `recoverImage`: size, metadata copies,
journal, scan, retirement, tail — succeeds without writing a byte and shows one entry per index entry,
newest-wins over exactly the records of the index. -/
theorem clean_file_reads_back_as_its_index {img : Image} {size : Nat} {lives : List Live} {o : Opts}
    (hro : o.readOnly = false)
    (hexp : o.ttlOn = true → ∀ l ∈ lives, (decide (l.expiry > 0) && decide (o.now > l.expiry)) = false)
    (h : openCleanB img size lives = true) :
    ∃ (r : Recovered) (L : List Feox.Proto.Rec), (recoverImage img size o).result = .ok r ∧ (recoverImage img size o).io = [] ∧
      r.image = img ∧ L.length = lives.length ∧
      r.live = L.foldl (fun lv r => absorbLive lv (liveOf (infoOf lives) r)) [] :=
  openCleanB_sound hro hexp h

end Feox.C10
