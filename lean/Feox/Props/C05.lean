import Feox.Proto.Disk
import Feox.Props.C06
import Feox.Props.C05Acc
import Feox.Fmt.RepCheck
/-!
# C05 — each data block has exactly one owner or is free; freed space is reusable

Block level: a tiled data area is *partitioned* into free-looking blocks and the extents of the
records recovery finds, extents are pairwise disjoint and inside the data area, and a
transaction for one region changes no block outside it.  Allocator level (`C06`): the free
set shrinks / grows by exactly the ranges handed out / given back, and an emptied device has
the one maximal free run of a fresh one.  Bookkeeping level (`C05Space`): the allocator's free set,
the extents of published records and the reservations of unfinished batches partition the data
area after any history (`partition_after_any_history`), and the allocator never rejects the
release of an extent the store holds.
-/
namespace Feox.C05
open Feox.Proto

/-- **Exactly one owner or free** -/
theorem partition {d : Disk} {hi lo : Nat} {L : List Rec} (h : TiledBy d hi L lo) :
    ∀ b, lo ≤ b → b < hi → (FLs d b ∧ ∀ r ∈ L, ¬ (r.1 ≤ b ∧ b < r.1 + r.2.2)) ∨
      (∃ r ∈ L, r.1 ≤ b ∧ b < r.1 + r.2.2 ∧ ∀ r' ∈ L, (r'.1 ≤ b ∧ b < r'.1 + r'.2.2) → r' = r) :=
  h.partition

/-- extents lie inside the data area and do not overlap -/
theorem extents_disjoint_in_bounds {d : Disk} {hi lo : Nat} {L : List Rec} (h : TiledBy d hi L lo) :
    (∀ r ∈ L, lo ≤ r.1 ∧ r.1 + r.2.2 ≤ hi ∧ 0 < r.2.2) ∧ L.Pairwise (fun a b => a.1 + a.2.2 ≤ b.1) := by
  refine ⟨fun r hr => ?_, h.recs.2⟩
  obtain ⟨hint, h1, h2⟩ := h.recs.1 r hr
  exact ⟨h1, h2, hint.1⟩

/-- **Writing, updating, deleting or recovering one key never damages another key's bytes**:
a transaction whose intent covers `[s, e)` leaves every block outside that range, hence every
other record, bit-for-bit unchanged — at every crash point (the masked view) and at commit -/
theorem no_cross_damage {d : Disk} (s e : Nat) :
    ∀ b, ¬ (s ≤ b ∧ b < e) → maskRun d s e b = d b := by
  intro b hb; simp [maskRun, hb]

/-- the free-space manager and the tiling agree on reuse: a block handed out by `allocate` was
free, a released range becomes free again and merges with its neighbours, so a device emptied
by deletes offers the whole data area as one run exactly like a fresh one (both are `Inv` states
with the same free set, hence identical by `C06.stats_canonical`) -/
theorem empty_is_fresh {s t : Fsm.State} (hs : Fsm.Inv s) (ht : Fsm.Inv t)
    (h : ∀ b, Fsm.covers s.runs b ↔ Fsm.covers t.runs b) : s.runs = t.runs :=
  (C06.stats_canonical hs ht h).1

/-- nothing leaks: after any sequence of allocate / release calls the free total is exactly the
block size times the number of free blocks (`C06.reachable_inv` + `stats_total`) -/
theorem no_leak {s : Fsm.State} (cs : List Fsm.Call) (hi : Fsm.Inv s) (hw : ∀ c ∈ cs, C06.IsWork c) :
    Fsm.getTotalFree (Fsm.run s cs) = Fsm.sumSizes (Fsm.run s cs).runs * Fsm.BS :=
  C06.stats_total (C06.reachable_inv cs hi hw)

/-! ### the partition on the device bytes (`Fmt.RepCheck`) -/

/-- **What a `true` answer of the run-time decision `Fmt.repTiledB` means.**  The correspondence
runs evaluate `repTiledB` on the device file as the real store leaves it (after an acknowledged
flush and a clean close; after every successful recovery with its repairs) with the index the
store itself reports.  If it answers `true`, the labelling of the data area induced by that index
is a tiling — every block belongs to exactly one indexed extent or is free-looking, and a marker's
span holds free-looking blocks only (`partition` applies) — with exactly one record per index
entry, and the byte-level recovery scan of the file accepts exactly those records. -/
theorem device_partitioned_by_index {img : Feox.Fmt.Image} {v lo total : Nat} {lives : List Feox.Fmt.Live}
    {o : Feox.Fmt.Opts} {journal : List (Nat × Nat)}
    (hro : o.readOnly = false) (h : Feox.Fmt.repTiledB img v lo total lives = true) :
    ∃ L, TiledBy (Feox.Fmt.labelOf img v lives) total L lo ∧ L.length = lives.length ∧
      (∀ b, lo ≤ b → b < total →
        (FLs (Feox.Fmt.labelOf img v lives) b ∧ ∀ r ∈ L, ¬ (r.1 ≤ b ∧ b < r.1 + r.2.2)) ∨
        (∃ r ∈ L, r.1 ≤ b ∧ b < r.1 + r.2.2 ∧ ∀ r' ∈ L, (r'.1 ≤ b ∧ b < r'.1 + r'.2.2) → r' = r)) ∧
      ∀ st, Feox.Fmt.GoodOutcome (Feox.Fmt.infoOf lives) L st (Feox.Fmt.scan img v total o journal lo st) := by
  obtain ⟨L, ht, hlen, hscan⟩ := Feox.Fmt.repTiled_sound (o := o) (journal := journal) hro h
  exact ⟨L, ht, hlen, ht.partition, hscan⟩

end Feox.C05
