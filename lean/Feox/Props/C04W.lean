import Feox.Props.C04
import Feox.Fmt.Idem
/-!
# C04 (continued) — recovery's repair writes change nothing a key shows, on the bytes

Recovery retires (writes markers over) the extents of generations that lost the newest-timestamp
comparison.  `retire_region` says what the device image represents afterwards; `fold_filter_same` says
that dropping generations other than the one a key shows does not change what the key shows.  Together:
a later recovery of the repaired device — or of any prefix of the repair, region by region — shows
every key exactly as the first one did.
-/
namespace Feox.C04
open Feox.Fmt Feox.Proto Feox.Gen

/-- the records a retirement of `[s, e)` leaves, as table entries -/
def keepLive (s e : Nat) (l : Live) : Bool := decide (l.sector + l.blocks ≤ s ∨ e ≤ l.sector)

theorem map_filter_outside (info : Gen → RecMeta) (s e : Nat) (L : List Rec) :
    (L.filter (outside s e)).map (liveOf info) = (L.map (liveOf info)).filter (keepLive s e) := by
  induction L with
  | nil => rfl
  | cons r L ih =>
    have : keepLive s e (liveOf info r) = outside s e r := rfl
    simp only [List.filter_cons, List.map_cons, this]
    split <;> simp [ih]

/-- **A second recovery shows every key as the first did** after one region of losers has been
retired on the device: both scans succeed or fail only in the free-space manager, and on success
they show the same entry (same generation: key, timestamp, expiry, length, sector) for every key. -/
theorem loser_retirement_invisible_on_bytes {img : Image} {v lo total : Nat} {info : Gen → RecMeta} {d : Disk} {L : List Rec}
    (hrep : Rep img v lo total info d) (ht : TiledBy d total L lo) (htot : total ≤ img.size) (h64 : total < 2 ^ 64)
    (s e : Nat) (hse : s < e) (hlo : lo ≤ s) (he : e ≤ total) (hal : Aligned L s e)
    (hlosers : ∀ k w, findLive k ((L.map (liveOf info)).foldl absorbLive []) = some w → keepLive s e w = true)
    (o : Opts) (journal : List (Nat × Nat)) (hro : o.readOnly = false) (st : ScanSt) (hst : st.live = []) (k : Bytes) :
    match scan img v total o journal lo st, scan (writeBlocks img s (markerBlocks s (e - s) (e - s))) v total o journal lo st with
    | .ok a, .ok b => findLive k b.live = findLive k a.live
    | .error x, _ => NotFormatErr x
    | _, .error y => NotFormatErr y := by
  have hA := scan_rep_tiled (o := o) (journal := journal) hro hrep (total - lo) lo L st (Nat.le_refl _) (Nat.le_refl _) ht
  obtain ⟨_, _, hB'⟩ := retire_region hrep ht htot h64 s e hse hlo he hal
  have hB := hB' o journal st hro
  generalize scan img v total o journal lo st = ra at hA ⊢
  generalize scan (writeBlocks img s (markerBlocks s (e - s) (e - s))) v total o journal lo st = rb at hB ⊢
  cases ra with
  | error x => exact hA
  | ok a =>
    cases rb with
    | error y => exact hB
    | ok b =>
      simp only [GoodOutcome] at hA hB ⊢
      rw [hA.2, hB.2, hst, ← List.foldl_map (f := liveOf info) (g := absorbLive),
        ← List.foldl_map (f := liveOf info) (g := absorbLive), map_filter_outside]
      exact fold_filter_same k _ (keepLive s e) (hlosers k)

end Feox.C04
