import Feox.Props.C04
import Feox.Fmt.Idem
import Feox.Fmt.Open
import Feox.Fmt.Twice
/-!
# C04 (continued) — recovery's repair writes change nothing a key shows, on the bytes

Recovery retires (writes markers over) the extents of generations that lost the newest-timestamp
comparison.  `retire_region` says what the device image represents afterwards; `fold_filter_same` says
that dropping generations other than the one a key shows does not change what the key shows.  Together:
a later recovery of the repaired device — or of any prefix of the repair, region by region — shows
every key exactly as the first one did.
-/
namespace Feox.C04
open Feox.Fmt Feox.Proto Feox.Gen

/-- the records a retirement of `[s, e)` leaves, as table entries -/
def keepLive (s e : Nat) (l : Live) : Bool := decide (l.sector + l.blocks ≤ s ∨ e ≤ l.sector)

theorem map_filter_outside (info : Gen → RecMeta) (s e : Nat) (L : List Rec) :
    (L.filter (outside s e)).map (liveOf info) = (L.map (liveOf info)).filter (keepLive s e) := by
  induction L with
  | nil => rfl
  | cons r L ih =>
    have : keepLive s e (liveOf info r) = outside s e r := rfl
    simp only [List.filter_cons, List.map_cons, this]
    split <;> simp [ih]

/-- **A second recovery shows every key as the first did** after one region of losers has been
retired on the device: both scans succeed or fail only in the free-space manager, and on success
they show the same entry (same generation: key, timestamp, expiry, length, sector) for every key. -/
theorem loser_retirement_invisible_on_bytes {img : Image} {v lo total : Nat} {info : Gen → RecMeta} {d : Disk} {L : List Rec}
    (hrep : Rep img v lo total info d) (ht : TiledBy d total L lo) (htot : total ≤ img.size) (h64 : total < 2 ^ 64)
    (s e : Nat) (hse : s < e) (hlo : lo ≤ s) (he : e ≤ total) (hal : Aligned L s e)
    (hlosers : ∀ k w, findLive k ((L.map (liveOf info)).foldl absorbLive []) = some w → keepLive s e w = true)
    (o : Opts) (journal : List (Nat × Nat)) (hro : o.readOnly = false) (st : ScanSt) (hst : st.live = []) (k : Bytes) :
    match scan img v total o journal lo st, scan (writeBlocks img s (markerBlocks s (e - s) (e - s))) v total o journal lo st with
    | .ok a, .ok b => findLive k b.live = findLive k a.live
    | .error x, _ => NotFormatErr x
    | _, .error y => NotFormatErr y := by
  have hA := scan_rep_tiled (o := o) (journal := journal) hro hrep (total - lo) lo L st (Nat.le_refl _) (Nat.le_refl _) ht
  obtain ⟨_, _, hB'⟩ := retire_region hrep ht htot h64 s e hse hlo he hal
  have hB := hB' o journal st hro
  generalize scan img v total o journal lo st = ra at hA ⊢
  generalize scan (writeBlocks img s (markerBlocks s (e - s) (e - s))) v total o journal lo st = rb at hB ⊢
  cases ra with
  | error x => exact hA
  | ok a =>
    cases rb with
    | error y => exact hB
    | ok b =>
      simp only [GoodOutcome] at hA hB ⊢
      rw [hA.2, hB.2, hst, ← List.foldl_map (f := liveOf info) (g := absorbLive),
        ← List.foldl_map (f := liveOf info) (g := absorbLive), map_filter_outside]
      exact fold_filter_same k _ (keepLive s e) (hlosers k)

/-- **Opening a clean device is pure**: `recoverImage` — the whole open, compared with the real one on
every image — of a device with valid metadata, a clear journal and a data area that represents a tiling
by records with pairwise different keys and complete markers (what `repfile` finds after every
acknowledged flush + clean close) returns `.ok`, issues no device write, leaves the image as it is, and
shows the newest-wins table over exactly the tiling's records.  Opening it again is therefore the same
computation on the same bytes: any number of opens without a write yield the same contents. -/
theorem open_of_clean_device_is_pure (img : Image) (size : Nat) (o : Opts) (info : Gen → RecMeta) (d : Disk) (L : List Rec)
    (md : Meta) (js : JournalState)
    (hro : o.readOnly = false)
    (hsize : validDeviceSize size = true) (himg : img.size * BSZ = size) (hnz : imageAllZero img = false)
    (hsig : slice (selectMeta (blockAt img FEOX_METADATA_BLOCK) (blockAt img FEOX_METADATA_BACKUP_BLOCK)) 0 FEOX_SIGNATURE_SIZE = FEOX_SIGNATURE)
    (hmd : Meta.decode (selectMeta (blockAt img FEOX_METADATA_BLOCK) (blockAt img FEOX_METADATA_BACKUP_BLOCK)) = some md)
    (hjs : decodeJournal ((List.range ALLOCATION_JOURNAL_BLOCKS).flatMap fun i => blockAt img (ALLOCATION_JOURNAL_START_BLOCK + i)) (size / BSZ) = .ok js)
    (hclear : js.extents = [])
    (hrep : Rep img md.version FEOX_DATA_START_BLOCK (size / BSZ) info d) (ht : TiledBy d (size / BSZ) L FEOX_DATA_START_BLOCK)
    (hmarks : MarksClean img FEOX_DATA_START_BLOCK (size / BSZ) d)
    (hnd : (L.map (fun r => (info r.2.1).key)).Nodup)
    (hexp : o.ttlOn = true → ∀ l ∈ L.foldl (fun lv r => absorbLive lv (liveOf info r)) [],
      (decide (l.expiry > 0) && decide (o.now > l.expiry)) = false) :
    ∃ r, (recoverImage img size o).result = .ok r ∧ (recoverImage img size o).io = [] ∧ r.image = img ∧
      r.version = md.version ∧ r.live = L.foldl (fun lv r => absorbLive lv (liveOf info r)) [] ∧
      recoverImage r.image size o = recoverImage img size o := by
  obtain ⟨r, h1, h2, h3, h4, h5⟩ := recover_clean_image img size o info d L md js hro hsize himg hnz hsig hmd hjs hclear hrep ht hmarks hnd hexp
  exact ⟨r, h1, h2, h3, h4, h5, by rw [h3]⟩

end Feox.C04
