import Feox.Props.C02
import Feox.Props.C03
import Feox.Proto.DurLive
/-!
# C09 — I/O failures are reported, contained and never destroy durable data

In the model an I/O failure is the *absence* of the event it would have produced: a write
transaction whose data write or fsync fails emits no `durable`, a retirement whose marker write
fails emits no `retire`, a `flush()` whose worker reported an error emits no `ack`.  So every
trace with faults is a trace of the same machines, and the invariants of C02 / C03 hold for the
device "as it stands" after any fault sequence.  The specific obligations of the fault paths:
-/
namespace Feox.C09
open Feox.Proto Feox.Proto.Dur

/-- **flush() = Ok only if everything accepted before it is durable**: `ack` is the only event
that moves `lastAck`, and it is enabled only when nothing is queued -/
theorem ack_implies_durable {k k' : Key} {e : Ev} (h : step? k e = some k') (hmove : k'.lastAck ≠ k.lastAck) :
    e = .ack ∧ k.pending = [] ∧ (isValue k (latest k) = true → latest k ∈ k.dur) := by
  cases e with
  | accept s => simp only [step?, Option.some.injEq] at h; subst h; exact absurd rfl hmove
  | skip i => simp only [step?] at h; split at h <;> (try cases h) <;> exact absurd rfl hmove
  | durable i => simp only [step?] at h; split at h <;> (try cases h) <;> exact absurd rfl hmove
  | retire i => simp only [step?] at h; split at h <;> (try cases h) <;> exact absurd rfl hmove
  | ack =>
    obtain ⟨h1, _, h3⟩ := ack_enabled_only_when_drained h
    exact ⟨rfl, h1, h3⟩

/-- **A failure never destroys the last durable generation**: whatever events do or do not happen
(any fault sequence), a durable generation disappears only through `retire`, which needs a
durable successor or a later delete -/
theorem failure_never_destroys_durable {k k' : Key} {e : Ev} {i : Nat} (h : step? k e = some k')
    (hi : i ∈ k.dur) (hgone : i ∉ k'.dur) :
    e = .retire i ∧ ((∃ j ∈ k.dur, i < j) ∨ ∃ j, j < k.hist.length ∧ i < j ∧ isValue k j = false) := by
  cases e with
  | accept s => simp only [step?, Option.some.injEq] at h; subst h; exact absurd hi hgone
  | skip j => simp only [step?] at h; split at h <;> (try cases h) <;> exact absurd hi hgone
  | durable j =>
    simp only [step?] at h
    split at h
    · cases h; exact absurd (List.mem_cons_of_mem _ hi) hgone
    · cases h
  | retire j =>
    have hs := retire_needs_safe_successor h
    simp only [step?] at h
    split at h
    · cases h
      have hij : i = j := by
        by_cases hij : i = j
        · exact hij
        · exact absurd (List.mem_filter.mpr ⟨hi, by simp [hij]⟩) hgone
      subst hij
      exact ⟨rfl, hs.2⟩
    · cases h
  | ack => simp only [step?] at h; split at h <;> (try cases h) <;> exact absurd hi hgone

/-- **A failed data write and its clean-up leave the recoverable set unchanged**: the allocated
region was free-looking; after arbitrary partial writes inside it (`d'`) the clean-up writes
complete markers over it (the masked view made durable) — the disk is tiled by the same
records as before, so recovery of the device as it stands returns what it returned before -/
theorem failed_write_cleanup_safe {d d' : Disk} {hi lo : Nat} {L : List Rec} (h : TiledBy d hi L lo)
    (s n : Nat) (hn : 0 < n) (hb : s + n ≤ hi) (hfree : ∀ q, s ≤ q → q < s + n → FLs d q)
    (houtside : ∀ b, ¬ (s ≤ b ∧ b < s + n) → d b = d' b) :
    TiledBy (maskRun d' s (s + n)) hi L lo := by
  obtain ⟨hal, hfil⟩ := h.aligned_of_fls s (s + n) (by omega) hfree
  have hm := h.mask s (s + n) hb hal
  rw [hfil] at hm
  rw [← maskRun_ignores houtside]
  exact hm

/-- the invariants of C02 hold along every accepted trace, with or without faults -/
theorem inv_under_faults (evs : List Ev) (k : Key) (h : evs.foldlM step? {} = some k) : Inv k :=
  run_inv evs {} k inv_init h

/-- **Once the device works again a flush can always succeed**: from every state any sequence of
accepted events reaches — whatever failed in between, a failure being the absence of an event —
worker events alone (skip the superseded queued generations, write the latest, retire the stale
durable ones; no further API call) lead to a state in which `flush()` is acknowledged for the
latest accepted state of the key.  The automaton has no dead ends. -/
theorem device_recovers_flush_succeeds (evs : List Ev) (k : Key) (h : evs.foldlM step? {} = some k) :
    ∃ (more : List Ev) (k' : Key), (∀ e ∈ more, ∀ s, e ≠ .accept s) ∧ (more ++ [Ev.ack]).foldlM step? k = some k' ∧
      k'.lastAck = latest k ∧ k'.hist = k.hist ∧ k'.pending = [] :=
  reachable_can_flush evs k h

/-- the hypotheses are met, and the construction is the expected one: two writes queued, the older
one durable and acknowledged — skip nothing, write the newest, retire the old one, acknowledge -/
example : ([.accept (some 1), .durable 1, .ack, .accept (some 2), .accept (some 3)] : List Ev).foldlM step? {} =
      some { hist := [none, some 1, some 2, some 3], dur := [1], pending := [2, 3], lastAck := 1 } ∧
    ([.skip 2, .durable 3, .retire 1, .ack] : List Ev).foldlM step?
      { hist := [none, some 1, some 2, some 3], dur := [1], pending := [2, 3], lastAck := 1 } =
      some { hist := [none, some 1, some 2, some 3], dur := [3], pending := [], lastAck := 3 } := by
  decide

end Feox.C09
