import Feox.Fmt.Winner
import Feox.Kv.StepAcc
import Feox.Props.C14
import Feox.Conc.Sweep
/-!
# C11 — expiry is exact: never visible after, never lost before, stable over restart

Theorems about `Feox.Kv.Spec` with the wall clock an explicit input.  "Expired" is
`now > expiry` with `expiry ≠ 0`, as everywhere in the code.
-/
namespace Feox.C11
open Feox.Kv Feox.Fmt

/-- **Never visible after**: once the expiry instant has passed, `get` answers not-found -/
theorem get_never_after {s : State} {k : Bytes} {e : Entry} {now : Nat} (httl : s.cfg.ttlOn = true)
    (hl : lookup k s.entries = some e) (hx : e.expiry > 0) (hnow : now > e.expiry) :
    doGet s k now = .err .KeyNotFound ∨ doGet s k now = .err .InvalidKeySize := by
  unfold doGet
  split
  · right; rfl
  · left; simp [hl, hidden, expired, httl, hx, hnow]

/-- … a range query never lists it -/
theorem range_never_after {s : State} (hs : Sorted s.entries) {k : Bytes} {e : Entry} {a b : Bytes} {limit now : Nat}
    (httl : s.cfg.ttlOn = true) (hl : lookup k s.entries = some e) (hx : e.expiry > 0) (hnow : now > e.expiry) :
    ∀ v, (k, v) ∉ rangeScan s a b limit now s.entries := by
  intro v hmem
  obtain ⟨_, _, hall⟩ := C14.range_props s a b limit now hs
  obtain ⟨_, _, e', hl', _, hvis⟩ := hall (k, v) hmem
  rw [hl] at hl'
  cases hl'
  simp [hidden, expired, httl, hx, hnow] at hvis

/-- … compare-and-swap does not swap (it reports `false`, or rejects the arguments) -/
theorem cas_never_after {s : State} {k ex nv : Bytes} {e : Entry} {ts : Option Nat} {ttl shard now : Nat}
    (httl : s.cfg.ttlOn = true) (hl : lookup k s.entries = some e) (hx : e.expiry > 0) (hnow : now > e.expiry) :
    (doCas s k ex nv ts ttl shard now).1 = s ∧ (doCas s k ex nv ts ttl shard now).2 ≠ .okBool true := by
  unfold doCas
  split
  · exact ⟨rfl, by simp⟩
  · split
    · exact ⟨rfl, by simp⟩
    · split
      · exact ⟨rfl, by simp⟩
      · simp [hl, hidden, expired, httl, hx, hnow]

/-- … `update_ttl` / `persist` cannot resurrect it -/
theorem update_ttl_never_after {s : State} {k : Bytes} {e : Entry} {ttl shard now : Nat}
    (hl : lookup k s.entries = some e) (hx : e.expiry > 0) (hnow : now > e.expiry) :
    (doUpdateTtl s k ttl shard now).1 = s ∧ ∃ er, (doUpdateTtl s k ttl shard now).2 = .err er := by
  unfold doUpdateTtl
  split
  · exact ⟨rfl, _, rfl⟩
  · split
    · exact ⟨rfl, _, rfl⟩
    · split
      · exact ⟨rfl, _, rfl⟩
      · simp [hl, hx, hnow]

/-- … JSON patch never applies to it -/
theorem patch_never_after {s : State} {k : Bytes} {e : Entry} {ts : Option Nat} {shard now : Nat} {p : Option Bytes}
    (httl : s.cfg.ttlOn = true) (hl : lookup k s.entries = some e) (hx : e.expiry > 0) (hnow : now > e.expiry) :
    ∃ er, (doPatch s k ts shard now p).2 = .err er := by
  unfold doPatch
  split
  · exact ⟨_, rfl⟩
  · have hf := resolveTs_frame s ts shard now
    have hl1 : lookup k (resolveTs s ts shard now).2.2.entries = some e := by rw [hf.1]; exact hl
    have hc : (resolveTs s ts shard now).2.2.cfg.ttlOn = true := by rw [hf.2.2.2]; exact httl
    simp only [hl1]
    split
    · exact ⟨_, rfl⟩
    · simp [hidden, expired, hc, hx, hnow]

/-- … and an increment starts the counter afresh from `delta` instead of adding to the expired
value -/
theorem incr_reinitialises {s : State} {k : Bytes} {e : Entry} {d : Int} {ttl shard now : Nat}
    (httl : s.cfg.ttlOn = true) (hl : lookup k s.entries = some e) (hx : e.expiry > 0) (hnow : now > e.expiry)
    (hk : validNewKey s.cfg k = true) (hsup : (decide (ttl > 0) && !ttlWriteSupported s.cfg) = false) :
    ∀ v, (doIncr s k d none ttl shard now).2 = .okInt v → v = d := by
  intro v hv
  unfold doIncr at hv
  simp only [hsup, hk, Bool.not_true, Bool.false_eq_true, ↓reduceIte, hl, explicitOf, explicitOlder,
    httl, hx, hnow, decide_true, Bool.and_self] at hv
  unfold incrCreate at hv
  simp only at hv
  split at hv
  · cases hv
  · split at hv
    · cases hv
    · simp at hv; exact hv.symm

/-- **Never hidden before**: while the latest generation is unexpired (or has no expiry) `get`
returns its value -/
theorem get_never_before {s : State} {k : Bytes} {e : Entry} {now : Nat} (hk : validKey k = true)
    (hl : lookup k s.entries = some e) (hx : e.expiry = 0 ∨ now ≤ e.expiry) :
    doGet s k now = .okBytes e.val := by
  unfold doGet
  have : hidden s now e = false := by
    unfold hidden expired
    rcases hx with h | h
    · simp [h]
    · have : ¬ now > e.expiry := by omega
      simp [this]
  simp [hk, hl, this]

theorem lookup_foldl_sweep (now : Nat) (k : Bytes) :
    ∀ (rest : List (Bytes × Entry)) (acc : State),
      rest.Pairwise (fun x y => x.1 ≠ y.1) →
      (∀ ke ∈ rest, lookup ke.1 acc.entries = some ke.2) →
      Sorted acc.entries →
      (∀ e, lookup k acc.entries = some e → ¬ (e.expiry > 0 ∧ e.expiry < now) →
        lookup k (rest.foldl (fun acc (ke : Bytes × Entry) =>
          if ke.2.expiry > 0 && ke.2.expiry < now then removeEntry acc ke.1 ke.2 else acc) acc).entries = some e) := by
  intro rest
  induction rest with
  | nil => intro acc _ _ _ e hl _; exact hl
  | cons x xs ih =>
    intro acc hnd hpres hsorted e hl hne
    rw [List.pairwise_cons] at hnd
    simp only [List.foldl_cons]
    split
    · rename_i hcond
      have hxk : x.1 ≠ k := by
        intro heq
        have := hpres x List.mem_cons_self
        rw [heq, hl] at this
        cases this
        simp at hcond
        exact hne hcond
      apply ih _ hnd.2
      · intro ke hke
        simp only [removeEntry]
        rw [lookup_erase_other _ (fun e => (hnd.1 ke hke) e.symm)]
        exact hpres ke (List.mem_cons_of_mem _ hke)
      · exact sorted_erase hsorted
      · simp only [removeEntry]
        rw [lookup_erase_other _ (fun e => hxk e.symm)]
        exact hl
      · exact hne
    · exact ih _ hnd.2 (fun ke hke => hpres ke (List.mem_cons_of_mem _ hke)) hsorted e hl hne

/-- … the sweeper (and lazy retirement) removes nothing that has not expired: an entry with no
expiry, or whose expiry instant is `≥ now`, survives any sweep at `now` unchanged -/
theorem sweep_never_before {s : State} (hs : Sorted s.entries) {k : Bytes} {e : Entry} {now : Nat}
    (hl : lookup k s.entries = some e) (hx : ¬ (e.expiry > 0 ∧ e.expiry < now)) :
    lookup k (sweepAll s now).entries = some e := by
  unfold sweepAll
  exact lookup_foldl_sweep now k s.entries s (hs.imp (fun {a b} hab => bytesLt_ne hab))
    (fun ke hke => lookup_of_mem_sorted hs hke) hs e hl hx

theorem lookup_filter {l : List (Bytes × Entry)} (hs : Sorted l) (p : Bytes × Entry → Bool) {k : Bytes} {e : Entry}
    (hl : lookup k l = some e) (hp : p (k, e) = true) : lookup k (l.filter p) = some e :=
  lookup_of_mem_sorted (hs.filter p) (List.mem_filter.mpr ⟨mem_of_lookup hl, hp⟩)

/-- **Stable over restart**: a clean reopen of a persistent store keeps every unexpired entry
with its value, timestamp and absolute expiry instant unchanged -/
theorem survives_restart {s : State} (hs : Sorted s.entries) (hp : s.cfg.memoryOnly = false) {k : Bytes} {e : Entry}
    {ttlOn : Bool} {now : Nat} {sh : List (Bytes × Nat)}
    (hl : lookup k s.entries = some e) (hx : e.expiry = 0 ∨ now ≤ e.expiry) :
    lookup k (doReopen s ttlOn now sh).entries = some e := by
  unfold doReopen
  simp only [hp, Bool.false_eq_true, ↓reduceIte]
  split
  · apply lookup_filter hs _ hl
    rcases hx with h | h
    · simp [h]
    · have : ¬ now > e.expiry := by omega
      simp [this]
  · exact hl

/-- … and drops every entry that has expired by then (when TTL is enabled on the new handle) -/
theorem restart_drops_expired {s : State} (hs : Sorted s.entries) (hp : s.cfg.memoryOnly = false) {k : Bytes}
    {e : Entry} {now : Nat} {sh : List (Bytes × Nat)}
    (hl : lookup k s.entries = some e) (hx : e.expiry > 0) (hnow : now > e.expiry) :
    lookup k (doReopen s true now sh).entries = none := by
  unfold doReopen
  simp only [hp, Bool.false_eq_true, ↓reduceIte]
  cases hq : lookup k (s.entries.filter fun ke => !(decide (ke.2.expiry > 0) && decide (now > ke.2.expiry))) with
  | none => rfl
  | some e' =>
    have hm := mem_of_lookup hq
    obtain ⟨hin, hpred⟩ := List.mem_filter.mp hm
    have := lookup_of_mem_sorted hs hin
    rw [hl] at this
    cases this
    simp [hx, hnow] at hpred

/-- **Expiry arithmetic**: an insert with a TTL stores `timestamp + ttl·10⁹` saturating at
`u64::MAX` — from the record's own timestamp; `update_ttl` counts from `now` -/
theorem expiry_arith (t ttl now : Nat) :
    ttlExpiry t 0 = 0 ∧ (0 < ttl → ttlExpiry t ttl = min (t + min (ttl * NS) U64MAX) U64MAX) ∧
    ttlExpiry now ttl ≤ U64MAX := by
  refine ⟨rfl, ?_, ?_⟩
  · intro h
    have : (ttl == 0) = false := by simp; omega
    simp [ttlExpiry, this, satAdd, satMul]
  · unfold ttlExpiry
    split
    · simp [U64MAX]
    · simp [satAdd]; omega

/-- a TTL-only update keeps the value (and the key) intact -/
theorem ttl_only_update_keeps_value {s : State} {k : Bytes} {e : Entry} {ttl shard now : Nat}
    (hl : lookup k s.entries = some e) (h : (doUpdateTtl s k ttl shard now).2 = .okUnit) :
    ∃ e', lookup k (doUpdateTtl s k ttl shard now).1.entries = some e' ∧ e'.val = e.val ∧
      e'.expiry = ttlExpiry now ttl ∧ e'.ts > e.ts := by
  unfold doUpdateTtl at h ⊢
  split
  · rename_i h1; simp [h1] at h
  · rename_i h1
    split
    · rename_i h2; simp [h1, h2] at h
    · rename_i h2
      split
      · rename_i h3; simp [h1, h2, h3] at h
      · rename_i h3
        simp only [hl] at h ⊢
        split
        · rename_i h4; simp [h1, h2, h3, h4] at h
        · rename_i h4
          simp only [h1, h2, h3, h4, Bool.false_eq_true, ↓reduceIte] at h
          split
          · rename_i h5; simp [h5] at h
          · rename_i h5
            refine ⟨_, lookup_put_same _ _ _, rfl, rfl, ?_⟩
            simp only
            omega

/-! ### non-vacuity -/

example : (run { cfg := { ttlOn := true } } [.insert [1] [7] none 5 true 0 1000, .get [1] (1000 + 5 * NS),
    .get [1] (1001 + 5 * NS)]).2 = [.okBool true, .okBytes [7], .err .KeyNotFound] := by decide

/-! ### no resurrection at recovery (byte-level model `Feox.Fmt.recoverImage`) -/

/-- **The recovery scan keeps the newest accepted generation of every key**, whatever the order
of the extents on the device: for every record the scan accepted (`clock`), the live table shows
for that key an entry with a timestamp at least as large. -/
theorem recovery_keeps_newest (img : Feox.Fmt.Image) (v total : Nat) (o : Feox.Fmt.Opts) (journal : List (Nat × Nat))
    (sector : Nat) (st0 st : Feox.Fmt.ScanSt) (h0 : st0.clock = [])
    (hs : Feox.Fmt.scan img v total o journal sector st0 = .ok st) : Feox.Fmt.Dominates st :=
  Feox.Fmt.scan_dominates img v total o journal sector st0 st hs (by intro p hp; rw [h0] at hp; cases hp)

/-- **An expired newest generation is not replaced by an older one**: after the removal of
expired winners nothing is in the table that the scan's table did not show (so only winners
remain), and the key of every winner expired at recovery time is absent. -/
theorem recovery_no_resurrection (img : Feox.Fmt.Image) (v total : Nat) (o : Feox.Fmt.Opts) (journal : List (Nat × Nat))
    (sector : Nat) (st0 st st2 : Feox.Fmt.ScanSt) (h0 : st0.clock = [])
    (hs : Feox.Fmt.scan img v total o journal sector st0 = .ok st) (hr : Feox.Fmt.removeExpired o st = .ok st2) :
    (∀ x ∈ st2.live, x ∈ st.live) ∧
    (∀ l ∈ st.live, (l.expiry > 0 && o.now > l.expiry) = true → ∀ x ∈ st2.live, x.key ≠ l.key) := by
  have := Feox.Fmt.no_resurrection img v total o journal sector st0 st st2
    (by intro p hp; rw [h0] at hp; cases hp) hs hr
  exact ⟨this.2.1, this.2.2⟩

/-! ### the background sweeper against concurrent writers -/

/-- **The sweeper never hides or removes a key whose latest generation is unexpired**: in any
interleaving of writers (replace, delete, re-create), clock ticks, the sweeper's lock-free sample
and its guarded removal, everything it removed was the key's current generation at that moment
and expired at that moment -/
theorem sweeper_removes_only_expired_current (evs : List Feox.Conc.Sweep.Ev) (hg : ∀ e ∈ evs, Feox.Conc.Sweep.Guarded e) :
    ∀ r ∈ (Feox.Conc.Sweep.run {} evs).removed, r.2.2 = some r.1 ∧ Feox.Conc.Sweep.expiredAt r.1 r.2.1 = true :=
  Feox.Conc.Sweep.removed_was_current_and_expired evs hg

/-- what the identity check under the bucket guard is for -/
theorem sweeper_needs_identity_check :
    let s := Feox.Conc.Sweep.run {} [.put 5, .tick 10, .sample, .put 1000, .remove false]
    s.cur = none ∧ s.removed = [(⟨0, 5⟩, 10, some ⟨1, 1000⟩)] ∧ Feox.Conc.Sweep.expiredAt ⟨1, 1000⟩ 10 = false :=
  Feox.Conc.Sweep.unguarded_sweeper_removes_live_key

end Feox.C11
