import Feox.Conc.Seq
/-!
# C07 — concurrent operations on a key are atomic and timestamp-ordered (linearizable)

Model: `Feox.Conc` (one key; any number of threads; get / insert / delete / compare-and-swap /
increment / insert-if-absent / JSON patch with automatic and explicit timestamps; every shared
access outside a bucket-entry guard is a separate step; a scheduler interleaves the threads'
steps arbitrarily).  `states` is the sequence of states a sequential observer sees, one per
action; `log` the returned calls.

The theorems say: every returned call has a linearisation point inside its own
invocation–response interval at which its response and its effect are exactly those of the
sequential last-writer-wins specification `Spec.apply` — or it is one of the two permitted
conservative refusals, which change nothing; and the observer's state changes at no other
moment.  Ordering the calls by their linearisation points therefore gives a sequential execution
that respects real-time order (a call that returned before another was invoked has the smaller
point).
-/
namespace Feox.C07
open Feox.Conc

/-- **Linearisation points.**  For every schedule and every returned call `e`:
`invAt ≤ linAt ≤ retAt`, and with `s0 / s1` the observer's state before / after the returning step
* `exact`   — `linAt = retAt` and `Spec.apply s0 op = (s1, resp)`;
* `stale`   — nothing changes and `Spec.apply sl op = (sl, resp)` for the state `sl` at `linAt`
              (a read-only answer about the generation the call read);
* `refused` — nothing changes and the response is `OlderTimestamp` or CAS-`false`. -/
theorem linearization_points (n : Nat) (as : List Action) :
    ∀ e ∈ ((Sys.init n).exec as).log, EventOk ((Sys.init n).exec as).states e :=
  fun e he => ((reachable_inv n as).ev e he).1

/-- **Nothing else moves the state**: between two consecutive positions the observer's state is
unchanged unless a call took effect (`exact`) exactly there. -/
theorem state_changes_only_at_commits (n : Nat) (as : List Action) (k : Nat) (hk : k < ((Sys.init n).exec as).pos) :
    ((Sys.init n).exec as).states[k + 1]? = ((Sys.init n).exec as).states[k]? ∨
    ∃ e ∈ ((Sys.init n).exec as).log, e.retAt = k ∧ e.how = .exact :=
  (reachable_inv n as).silent k hk

/-- **Real-time order**: if `a` returned before `b` was invoked, `a`'s linearisation point is
strictly before `b`'s. -/
theorem real_time_order (n : Nat) (as : List Action) (a b : Event)
    (ha : a ∈ ((Sys.init n).exec as).log) (hb : b ∈ ((Sys.init n).exec as).log) (h : a.retAt < b.invAt) :
    a.linAt < b.linAt := by
  have h1 := linearization_points n as a ha
  have h2 := linearization_points n as b hb
  exact Nat.lt_of_le_of_lt h1.2.1 (Nat.lt_of_lt_of_le h h2.1)

/-- **Linearizability.**  For any number of threads, any programs and any schedule there is a
sequential order `lin` of the returned calls — a permutation of the log — which
* the sequential last-writer-wins specification replays call by call (`replay`: every call that
  is not a permitted refusal gets exactly its recorded response; refusals change nothing),
  ending in the state the concurrent system is in;
* is sorted by linearisation point, hence respects real time: no call stands before one that
  had already returned when it was invoked. -/
theorem linearizable (n : Nat) (as : List Action) :
    ∃ lin : List Event,
      lin.Perm ((Sys.init n).exec as).log ∧
      replay none lin = some (abs ((Sys.init n).exec as).sh) ∧
      lin.Pairwise (fun a b => a.linAt ≤ b.linAt) ∧
      lin.Pairwise (fun a b => ¬ b.retAt < a.invAt) := by
  have hI := reachable_inv n as
  generalize (Sys.init n).exec as = s at hI
  refine ⟨linUpTo s.log s.pos, ?_, ?_, linUpTo_sorted _ _, ?_⟩
  · -- every returned call is linearised before the current position
    have hall : s.log.filter (fun e => decide (e.linAt < s.pos)) = s.log := by
      apply List.filter_eq_self.mpr
      intro e he
      have := hI.ev e he
      have h2 := this.1.2.1
      simp only [decide_eq_true_eq]
      exact Nat.lt_of_le_of_lt h2 this.2
    have := linUpTo_perm s.log s.pos
    rw [hall] at this
    exact this
  · obtain ⟨st, h1, h2⟩ := replay_linUpTo hI s.pos (Nat.le_refl _)
    rw [hI.last] at h1
    cases h1
    exact h2
  · refine (linUpTo_sorted s.log s.pos).imp_of_mem ?_
    intro a b ha hb hab hlt
    -- b returned before a was invoked, yet a is not after b: impossible
    have hma : a ∈ s.log := (linUpTo_perm s.log s.pos).mem_iff.mp ha |> fun h => (List.mem_filter.mp h).1
    have hmb : b ∈ s.log := (linUpTo_perm s.log s.pos).mem_iff.mp hb |> fun h => (List.mem_filter.mp h).1
    have h1 := (hI.ev a hma).1.1
    have h2 := (hI.ev b hmb).1.2.1
    omega

/-- **Permitted refusals only** (one step, any state): a refusal leaves the key as it is, and is
either `OlderTimestamp` with an accepted delete of an equal-or-newer timestamp on record, or a
compare-and-swap that finds another generation than the one it read. -/
theorem refusal_is_permitted {sh : Shared} (wall : Nat) (pc : Pc) (hwf : WF sh) (hpc : PcInv sh pc)
    {op : Op} {resp : Resp} (hret : (step sh wall pc).ret = some (op, resp)) (hhow : (step sh wall pc).how = .refused) :
    abs (step sh wall pc).sh = abs sh ∧
    ((resp = .older ∧ (opTs op = 0 ∨ ∃ j : Nat, j < sh.gens.length ∧ opTs op ≤ genRet sh j)) ∨
     (resp = .notSwapped ∧ ∃ obs c, casObs pc = some obs ∧ sh.cur = some c ∧ c ≠ obs)) := by
  have := step_sim wall pc hwf hpc
  simp only [StepOk, hret, hhow] at this
  exact this

/-- **An accepted write never lands on an equal or newer timestamp**: whenever the specification
step of a call replaces a present state, the new timestamp is strictly larger. -/
theorem never_lands_on_newer (e e' : Entry) (op : Op) (r : Resp) (h : Spec.apply (some e) op = (some e', r)) :
    e' = e ∨ e.ts < e'.ts := by
  cases op <;> simp only [Spec.apply] at h
  · simp at h; exact Or.inl h.1.symm
  · split at h <;> simp at h
    · exact Or.inl h.1.symm
    · rename_i hlt; right; rw [← h.1]; exact Nat.lt_of_not_le hlt
  · split at h <;> simp at h
    exact Or.inl h.1.symm
  · split at h
    · simp at h; exact Or.inl h.1.symm
    · split at h <;> simp at h
      · exact Or.inl h.1.symm
      · rename_i hlt; right; rw [← h.1]; exact Nat.lt_of_not_le hlt
  · split at h
    · simp at h; exact Or.inl h.1.symm
    · split at h
      · simp at h; exact Or.inl h.1.symm
      · split at h <;> simp at h
        · exact Or.inl h.1.symm
        · rename_i hlt; right; rw [← h.1]; exact Nat.lt_of_not_le hlt
  · simp at h; exact Or.inl h.1.symm
  · split at h
    · simp at h; exact Or.inl h.1.symm
    · split at h <;> simp at h
      · exact Or.inl h.1.symm
      · rename_i hlt _; right; rw [← h.1]; exact Nat.lt_of_not_le hlt

/-- **No lost increment** (specification level, hence for every linearised history): an
increment that succeeds returns exactly the previous counter plus its delta (saturating), and
that is the new state. -/
theorem incr_adds (s : Option Entry) (d : Int) (ts : Nat) (expl : Bool) (n : Int) (s' : Option Entry)
    (h : Spec.apply s (.incr d ts expl) = (s', .counter n)) :
    s' = some ⟨ts, ⟨.num, n⟩⟩ ∧ (match s with | none => n = d | some e => n = satAdd e.v.n d) := by
  cases s with
  | none => simp [Spec.apply] at h; simp [← h.1, ← h.2]
  | some e =>
    simp only [Spec.apply] at h
    split at h
    · simp at h
    · split at h
      · simp at h
      · split at h <;> simp at h
        simp [← h.1, ← h.2]

/-- **Exactly one of several racing `insert_if_absent` wins**: in the specification the call
succeeds iff the key is absent, and afterwards it is present — so between two successes a delete
must have been linearised. -/
theorem if_absent_single_winner (s : Option Entry) (v : V) (ts : Nat) :
    ((Spec.apply s (.ifAbsent v ts)).2 = .swapped ↔ s = none) ∧ (Spec.apply s (.ifAbsent v ts)).1 ≠ none := by
  cases s <;> simp [Spec.apply]

/-- **Exactly one of several racing compare-and-swaps on the same expected state wins**: a
successful swap installs a strictly newer generation, so a second swap expecting the same
*generation* is refused in the model (`casGuard` compares generations, not values). -/
theorem cas_success_changes_generation {sh : Shared} (wall : Nat) (exp new : V) (ts : Nat) (expl : Bool) (obs : Nat)
    (hwf : WF sh) (h : (step sh wall (.casGuard exp new ts expl obs)).ret = some (.cas exp new ts, .swapped)) :
    sh.cur = some obs ∧ (step sh wall (.casGuard exp new ts expl obs)).sh.cur = some sh.gens.length ∧ obs < sh.gens.length := by
  simp only [step] at h ⊢
  split at h
  · rename_i c hc
    split at h
    · simp at h
    · rename_i hne
      have : c = obs := by simpa using hne
      subst this
      split at h
      · simp at h
      · rename_i hts
        simp [hc, replace, (hwf c hc).1, hts]
  · simp at h

/-! ### non-vacuity: a concrete interleaving with a refusal -/

/-- thread 0 inserts with an explicit timestamp 5, thread 1 deletes with timestamp 9 between
thread 0's read and its guarded step; then thread 0's second insert (timestamp 7) that had read
the old generation is refused as older -/
def demo : List Action :=
  [ .call 0 (.insTs ⟨.raw, 1⟩ (some 5)), .run 0 0, .run 0 0, .run 0 0,       -- insert(ts 5) → created
    .call 0 (.insTs ⟨.raw, 2⟩ (some 7)), .run 0 0, .run 0 0,                 -- reads generation 0
    .call 1 (.delTs (some 9)), .run 1 0, .run 1 0,                           -- delete(ts 9) → deleted
    .run 0 0 ]                                                               -- guarded step: refused

example : (((Sys.init 2).exec demo).log.map fun e => (e.tid, e.resp, e.how)) =
    [(0, .created, .exact), (1, .deleted, .exact), (0, .older, .refused)] := by decide

end Feox.C07
