import Feox.Props.C02
import Feox.Fmt.Found
import Feox.Props.C03W
/-!
# C02 (continued) — acknowledged data on the bytes

`Props/C02.lean` proves the acknowledgement discipline on the per-key durability automaton.  What an
acknowledgement buys on the *device* is the byte-level crash theorem of `Props/C03W`: a record that is
part of the durable tiling and lies outside the region a later transaction journals is returned by
recovery from every crash image of that transaction.
-/
namespace Feox.C02
open Feox.Fmt Feox.Proto Feox.Gen

/-- **Once durable, a record survives every later crash that only touches a journalled region it is
outside of** (an overwrite of the key journals the *new* extent — a free region — and later the old
one; the acknowledged generation is outside the first and, until its successor is durable, never inside
the second: `retire_needs_successor`). -/
theorem acknowledged_record_survives_crash {img0 img : Image} {v lo total : Nat} {info : Gen → RecMeta} {d0 : Disk} {L : List Rec}
    (hrep : Rep img0 v lo total info d0) (ht : TiledBy d0 total L lo) (htot0 : total ≤ img0.size) (htot : total ≤ img.size)
    (h64 : total < 2 ^ 64) (s e : Nat) (hse : s < e) (hlo : lo ≤ s) (he : e ≤ total) (hal : Aligned L s e)
    (hagree : ∀ p, ¬ (s ≤ p ∧ p < e) → blockAt img p = blockAt img0 p)
    (r : Rec) (hr : r ∈ L) (hout : r.1 + r.2.2 ≤ s ∨ e ≤ r.1)
    (o : Opts) (journal : List (Nat × Nat)) (st : ScanSt) (hro : o.readOnly = false) :
    match scan (applyIo img (retireUnjournaled [(s, e - s)])) v total o journal lo st with
    | .ok st' => ((info r.2.1).key, (info r.2.1).ts) ∈ st'.clock
    | .error err => NotFormatErr err :=
  Feox.C03.acknowledged_record_survives_crash hrep ht htot0 htot h64 s e hse hlo he hal hagree r hr hout o journal st hro

end Feox.C02
