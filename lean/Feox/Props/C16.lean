import Feox.Cache.Model
import Feox.Kv.Tiers
import Feox.Kv.TtlCarry
/-!
# C16 — the read cache's accounting is exact and a hit is only ever for the right generation

Theorems about `Feox.Cache` (the model of `ClockCache`), for all sequences of
insert / get / remove / evict / clear / adjust operations with and without record tags.
(Store-level transparency — cache on ≡ cache off — is tied by the `kv` engine, which runs
every configuration against the same reference map.)
-/
namespace Feox.C16
open Feox.Cache Feox.Fmt

def bsize (b : List CEntry) : Nat := (b.map (·.size)).sum

def total (s : State) : Nat := (s.buckets.toList.map bsize).sum

/-- **Accounting invariant**: the reported cache memory equals the total size of the entries
held; the bucket array has its nominal length -/
structure Inv (s : State) : Prop where
  mem : s.mem = total s
  len : s.buckets.size = s.nb
  pos : 0 < s.nb

theorem sum_set {α : Type} (f : α → Nat) (l : List α) (i : Nat) (x : α) (h : i < l.length) :
    ((l.set i x).map f).sum + f (l.getD i x) = (l.map f).sum + f x := by
  induction l generalizing i with
  | nil => simp at h
  | cons y ys ih =>
    cases i with
    | zero => simp [List.set, List.getD]; omega
    | succ j =>
      have := ih j (by simpa using h)
      simp only [List.set, List.map_cons, List.sum_cons, List.getD_cons_succ] at this ⊢
      omega

theorem mem_le_sum {α : Type} (f : α → Nat) {l : List α} {x : α} (h : x ∈ l) : f x ≤ (l.map f).sum := by
  induction l with
  | nil => simp at h
  | cons y ys ih =>
    rcases List.mem_cons.mp h with rfl | h'
    · simp
    · have := ih h'; simp only [List.map_cons, List.sum_cons]; omega

theorem getD_le_total (s : State) (i : Nat) : bsize (getBucket s i) ≤ total s := by
  unfold getBucket total
  by_cases h : i < s.buckets.size
  · have hm : s.buckets[i] ∈ s.buckets.toList := by simp
    simp only [Array.getD, h, ↓reduceDIte]
    exact mem_le_sum bsize hm
  · simp [Array.getD, h, bsize]

theorem total_setBucket (s : State) (i : Nat) (b : List CEntry) (h : i < s.buckets.size) :
    total (setBucket s i b) + bsize (getBucket s i) = total s + bsize b := by
  unfold total setBucket getBucket
  simp only [Array.toList_setIfInBounds]
  have := sum_set bsize s.buckets.toList i b (by simpa using h)
  have hg : s.buckets.toList.getD i b = s.buckets.getD i [] := by
    simp [Array.getD, h, List.getD]
  rw [hg] at this
  exact this

theorem bucket_lt {s : State} (hi : Inv s) (key : Bytes) : bucketOf s key < s.buckets.size := by
  unfold bucketOf; rw [hi.len]; exact Nat.mod_lt _ hi.pos

theorem setBucket_inv_of {s : State} (hi : Inv s) (i : Nat) (b : List CEntry) (h : i < s.buckets.size)
    (m : Nat) (hm : m + bsize (getBucket s i) = s.mem + bsize b) :
    Inv { setBucket s i b with mem := m } := by
  have ht := total_setBucket s i b h
  refine ⟨?_, ?_, hi.pos⟩
  · show m = total (setBucket s i b)
    have := hi.mem; omega
  · show (s.buckets.setIfInBounds i b).size = s.nb
    simp [hi.len]

/-! ### buckets -/

theorem getIn_size {key : Bytes} {want : Option Nat} {b b' : List CEntry} {v : Bytes}
    (h : getIn key want b = some (v, b')) : bsize b' = bsize b := by
  induction b generalizing b' with
  | nil => simp [getIn] at h
  | cons e rest ih =>
    unfold getIn at h
    split at h
    · cases h; simp [bsize]
    · cases hr : getIn key want rest with
      | none => simp [hr] at h
      | some vr =>
        simp only [hr, Option.map_some, Option.some.injEq, Prod.mk.injEq] at h
        obtain ⟨h1, rfl⟩ := h
        have hvr : vr = (v, vr.2) := by cases vr; simp_all
        have := ih (b' := vr.2) (by rw [hr, ← hvr])
        simp only [bsize, List.map_cons, List.sum_cons] at this ⊢; omega

/-- **A hit is only ever for the reader's own generation**: `get_for_record(key, g)` returns a
value only from an entry stored under that key *and tagged with exactly that generation* -/
theorem hit_is_own_generation {key : Bytes} {g : Nat} {b b' : List CEntry} {v : Bytes}
    (h : getIn key (some g) b = some (v, b')) : ∃ e ∈ b, e.key = key ∧ e.gen = some g ∧ e.value = v := by
  induction b generalizing b' with
  | nil => simp [getIn] at h
  | cons e rest ih =>
    unfold getIn at h
    split at h
    · rename_i hc
      cases h
      simp only [Bool.and_eq_true, beq_iff_eq] at hc
      refine ⟨e, by simp, hc.1, ?_, rfl⟩
      have := hc.2
      unfold genMatches at this
      split at this
      · rename_i g' c h1 h2
        cases h1; simp at this; rw [h2, this]
      · simp at this
      · rename_i h1; simp at h1
    · cases hr : getIn key (some g) rest with
      | none => simp [hr] at h
      | some vr =>
        simp only [hr, Option.map_some, Option.some.injEq, Prod.mk.injEq] at h
        obtain ⟨h1, _⟩ := h
        have hvr : vr = (v, vr.2) := by cases vr; simp_all
        obtain ⟨e', he', hk⟩ := ih (b' := vr.2) (by rw [hr, ← hvr])
        exact ⟨e', List.mem_cons_of_mem _ he', hk⟩

theorem findKey_mem {key : Bytes} {b : List CEntry} {e : CEntry} (h : findKey key b = some e) :
    e ∈ b ∧ e.size ≤ bsize b := by
  induction b with
  | nil => simp [findKey] at h
  | cons x rest ih =>
    unfold findKey at h
    split at h
    · cases h; exact ⟨by simp, by simp [bsize]⟩
    · obtain ⟨h1, h2⟩ := ih h
      exact ⟨List.mem_cons_of_mem _ h1, by simp only [bsize, List.map_cons, List.sum_cons] at h2 ⊢; omega⟩

theorem replaceAt_size {key : Bytes} {b : List CEntry} {e e' : CEntry} (h : findKey key b = some e) :
    bsize (replaceAt b key e') + e.size = bsize b + e'.size := by
  induction b with
  | nil => simp [findKey] at h
  | cons x rest ih =>
    unfold findKey at h
    unfold replaceAt
    split at h
    · rename_i hk
      cases h
      simp only [hk, ↓reduceIte, bsize, List.map_cons, List.sum_cons]; omega
    · rename_i hk
      have := ih h
      simp only [hk, Bool.false_eq_true, ↓reduceIte, bsize, List.map_cons, List.sum_cons] at this ⊢; omega

theorem removeMatching_size {key : Bytes} {want : Option Nat} {b b' : List CEntry} {e : CEntry}
    (h : removeMatching key want b = some (e, b')) : bsize b' + e.size = bsize b := by
  induction b generalizing b' with
  | nil => simp [removeMatching] at h
  | cons x rest ih =>
    unfold removeMatching at h
    split at h
    · cases h; simp [bsize]; omega
    · cases hr : removeMatching key want rest with
      | none => simp [hr] at h
      | some er =>
        simp only [hr, Option.map_some, Option.some.injEq, Prod.mk.injEq] at h
        obtain ⟨h1, rfl⟩ := h
        have her : er = (e, er.2) := by cases er; simp_all
        have := ih (b' := er.2) (by rw [hr, ← her])
        simp only [bsize, List.map_cons, List.sum_cons] at this ⊢; omega

/-- the CLOCK sweep of one bucket debits exactly what it evicts -/
theorem sweepBucket_size (low : Nat) (b : List CEntry) (u ev : Nat) (h : bsize b ≤ u) :
    (sweepBucket low b u ev).2.1 + bsize b = u + bsize (sweepBucket low b u ev).1 := by
  induction b generalizing u ev with
  | nil => simp [sweepBucket, bsize]
  | cons e rest ih =>
    unfold sweepBucket
    simp only [bsize, List.map_cons, List.sum_cons] at h
    split
    · split
      · simp [bsize]
      · have := ih u ev (by simp only [bsize]; omega)
        simp only [bsize, List.map_cons, List.sum_cons] at this ⊢; omega
    · simp only
      split
      · simp only [bsize, List.map_cons, List.sum_cons]; omega
      · have := ih (u - e.size) (ev + 1) (by simp only [bsize]; omega)
        simp only [bsize, List.map_cons, List.sum_cons] at this ⊢; omega

/-- **Second chance**: an entry whose reference bit is set survives the sweep of its bucket (with
the bit cleared); only unreferenced entries are evicted -/
theorem second_chance (low : Nat) (b : List CEntry) (u ev : Nat) (e : CEntry) (he : e ∈ b) (hr : e.refBit = true) :
    ({ e with refBit := false } ∈ (sweepBucket low b u ev).1) ∨ (e ∈ (sweepBucket low b u ev).1) := by
  induction b generalizing u ev with
  | nil => cases he
  | cons x rest ih =>
    unfold sweepBucket
    rcases List.mem_cons.mp he with rfl | hmem
    · simp only [hr, if_true]
      split <;> exact Or.inl List.mem_cons_self
    · split
      · split
        · exact Or.inr (List.mem_cons_of_mem _ hmem)
        · rcases ih u ev hmem with h | h
          · exact Or.inl (List.mem_cons_of_mem _ h)
          · exact Or.inr (List.mem_cons_of_mem _ h)
      · simp only
        split
        · exact Or.inr hmem
        · exact ih (u - x.size) (ev + 1) hmem

/-- what the sweep removes was unreferenced: every entry of the bucket that is not in the
result (in either form) had its reference bit clear -/
theorem evicted_was_unreferenced (low : Nat) (b : List CEntry) (u ev : Nat) (e : CEntry) (he : e ∈ b)
    (hgone : e ∉ (sweepBucket low b u ev).1 ∧ { e with refBit := false } ∉ (sweepBucket low b u ev).1) :
    e.refBit = false := by
  cases hr : e.refBit with
  | false => rfl
  | true =>
    rcases second_chance low b u ev e he hr with h | h
    · exact absurd h hgone.2
    · exact absurd h hgone.1

/-! ### operations -/

theorem get_inv {s : State} (hi : Inv s) (key : Bytes) (want : Option Nat) : Inv (Cache.get s key want).1 := by
  unfold Cache.get
  simp only
  split
  · rename_i v b hg
    have hlt := bucket_lt hi key
    exact setBucket_inv_of hi (bucketOf s key) b hlt s.mem (by rw [getIn_size hg])
  · exact hi

theorem evictPass_inv {s : State} (hi : Inv s) (n : Nat) : Inv (evictPass s n) := by
  induction n generalizing s with
  | zero => exact hi
  | succ n ih =>
    unfold evictPass
    simp only
    have hlt : s.hand % s.nb < s.buckets.size := by rw [hi.len]; exact Nat.mod_lt _ hi.pos
    have hle : bsize (getBucket s (s.hand % s.nb)) ≤ s.mem := by rw [hi.mem]; exact getD_le_total s _
    have hsz := sweepBucket_size s.low (getBucket s (s.hand % s.nb)) s.mem s.evictions hle
    have hinv : Inv { setBucket s (s.hand % s.nb) (sweepBucket s.low (getBucket s (s.hand % s.nb)) s.mem s.evictions).1 with
        hand := s.hand + 1, mem := (sweepBucket s.low (getBucket s (s.hand % s.nb)) s.mem s.evictions).2.1,
        evictions := (sweepBucket s.low (getBucket s (s.hand % s.nb)) s.mem s.evictions).2.2 } := by
      have := setBucket_inv_of hi (s.hand % s.nb) (sweepBucket s.low (getBucket s (s.hand % s.nb)) s.mem s.evictions).1 hlt
        (sweepBucket s.low (getBucket s (s.hand % s.nb)) s.mem s.evictions).2.1 hsz
      exact ⟨this.mem, this.len, this.pos⟩
    split
    · exact hinv
    · exact ih hinv

theorem evictScans_inv {s : State} (hi : Inv s) (k : Nat) : Inv (evictScans s k) := by
  induction k generalizing s with
  | zero => exact hi
  | succ k ih =>
    unfold evictScans
    split
    · exact hi
    · exact ih (evictPass_inv hi s.nb)

theorem evict_inv {s : State} (hi : Inv s) : Inv (evict s) := by
  unfold evict
  split
  · exact hi
  · exact evictScans_inv hi _

theorem insertAt_inv {s : State} (hi : Inv s) (i : Nat) (hlt : i < s.buckets.size) (key value : Bytes)
    (g : Option Nat) (size : Nat) : Inv (insertAt s i key value g size) := by
  unfold insertAt
  have hle : bsize (getBucket s i) ≤ s.mem := by rw [hi.mem]; exact getD_le_total s _
  split
  · rename_i e hf
    split
    · exact hi
    · obtain ⟨_, hes⟩ := findKey_mem hf
      have hrs := replaceAt_size (e' := ⟨key, value, g, true, size⟩) hf
      dsimp only at hrs
      apply setBucket_inv_of hi i _ hlt
      split <;> omega
  · apply setBucket_inv_of hi i _ hlt
    simp [bsize]; omega

theorem insert_inv {s : State} (hi : Inv s) (key value : Bytes) (g : Option Nat) : Inv (Cache.insert s key value g) := by
  unfold Cache.insert
  simp only
  split
  · exact hi
  · have hi1 : Inv (if s.mem + (key.length + value.length + s.entryOverhead) > s.high then evict s else s) := by
      split
      · exact evict_inv hi
      · exact hi
    exact insertAt_inv hi1 _ (bucket_lt hi1 key) _ _ _ _

theorem remove_inv {s : State} (hi : Inv s) (key : Bytes) (want : Option Nat) : Inv (remove s key want) := by
  unfold remove
  simp only
  split
  · rename_i e b hr
    have hlt := bucket_lt hi key
    have hsz := removeMatching_size hr
    have hle : bsize (getBucket s (bucketOf s key)) ≤ s.mem := by rw [hi.mem]; exact getD_le_total s _
    exact setBucket_inv_of hi (bucketOf s key) b hlt (s.mem - e.size) (by omega)
  · exact hi

theorem clear_inv {s : State} (hi : Inv s) : Inv (clear s) := by
  unfold clear
  refine ⟨?_, by simp, hi.pos⟩
  have h1 : heldBytes s = total s := rfl
  have h2 : total { s with buckets := Array.replicate s.nb [], hand := 0, mem := s.mem - heldBytes s } = 0 := by
    unfold total
    simp only [Array.toList_replicate, List.map_replicate, bsize, List.map_nil, List.sum_nil]
    induction s.nb with
    | zero => rfl
    | succ n ih => simp [List.replicate_succ, ih]
  rw [h2]
  show s.mem - heldBytes s = 0
  rw [h1, hi.mem]; omega

theorem adjust_inv {s : State} (hi : Inv s) (h l : Nat) : Inv (adjust s h l) := by
  unfold adjust
  simp only
  split
  · have hi1 : Inv { s with high := h * Gen.MB, low := l * Gen.MB } := ⟨hi.mem, hi.len, hi.pos⟩
    split
    · exact evict_inv hi1
    · exact hi1
  · exact hi

/-- the operations of the cache -/
inductive Op
  | insert (key value : Bytes) (g : Option Nat)
  | get (key : Bytes) (want : Option Nat)
  | remove (key : Bytes) (want : Option Nat)
  | evict
  | clear
  | adjust (highMb lowMb : Nat)
  | setGen (id : Nat) (info : GenInfo)

def apply (s : State) : Op → State
  | .insert k v g => Cache.insert s k v g
  | .get k w => (Cache.get s k w).1
  | .remove k w => remove s k w
  | .evict => evict s
  | .clear => clear s
  | .adjust h l => adjust s h l
  | .setGen id info => setGen s id info

theorem init_inv (nb over : Nat) (hash : Bytes → Nat) (h : 0 < nb) : Inv (mkState nb over hash) := by
  refine ⟨?_, by simp [mkState], h⟩
  unfold total mkState
  simp only [Array.toList_replicate, List.map_replicate, bsize, List.map_nil, List.sum_nil]
  induction nb with
  | zero => rfl
  | succ n ih => simp [List.replicate_succ]

/-- **The cache's reported memory always equals the total size of the entries it holds**, after
every sequence of operations (for any number of buckets; the real cache has `CACHE_BUCKETS`) -/
theorem accounting (nb over : Nat) (hash : Bytes → Nat) (hnb : 0 < nb) (ops : List Op) :
    let s := ops.foldl apply (mkState nb over hash)
    s.mem = total s := by
  have h : ∀ (s : State), Inv s → Inv (ops.foldl apply s) := by
    induction ops with
    | nil => intro s hs; exact hs
    | cons op ops ih =>
      intro s hs
      simp only [List.foldl_cons]
      apply ih
      cases op with
      | insert k v g => exact insert_inv hs k v g
      | get k w => exact get_inv hs k w
      | remove k w => exact remove_inv hs k w
      | evict => exact evict_inv hs
      | clear => exact clear_inv hs
      | adjust h l => exact adjust_inv hs h l
      | setGen id info => exact ⟨hs.mem, hs.len, hs.pos⟩
  exact (h _ (init_inv nb over hash hnb)).mem

theorem real_bucket_count_positive : 0 < Gen.CACHE_BUCKETS := by decide

/-- values larger than a quarter of the high watermark are never cached -/
theorem large_values_rejected (s : State) (key value : Bytes) (g : Option Nat)
    (h : key.length + value.length + s.entryOverhead > s.high / 4) : Cache.insert s key value g = s := by
  unfold Cache.insert
  simp [h]

/-- a retired generation (`refcount = 0`) can never displace what is cached for its key -/
theorem retired_generation_never_replaces (s : State) (cached : Option Nat) (g : Nat)
    (h : (genInfo s g).current = false) : canReplace s cached (some g) = false := by
  unfold canReplace
  simp [h]

/-- … and a live cached generation is displaced only by the same generation or a strictly
newer one (so a re-creation with a lower timestamp cannot be masked by a stale read) -/
theorem replace_needs_newer (s : State) (c g : Nat) (hne : c ≠ g)
    (hc : (genInfo s c).alive = true ∧ (genInfo s c).current = true)
    (h : canReplace s (some c) (some g) = true) : (genInfo s c).ts < (genInfo s g).ts := by
  unfold canReplace at h
  simp only at h
  split at h
  · cases h
  · have : (c == g) = false := by simp [hne]
    simpa [this, hc.1, hc.2] using h

/-! ### non-vacuity -/

example : (Cache.insert (mkState 4 72 (fun _ => 1)) [1] [2, 3] none).mem = 75 := by
  decide

/-! ### store level: the cache is transparent -/

/-- **Cache fills and evictions are invisible**: in every state reachable by API calls and tier
moves, filling the cache from the device or dropping any entry changes no read, of any key -/
theorem cache_moves_invisible (l : List Feox.Kv.Tiers.Step) (hr : Feox.Kv.Tiers.Run Feox.Kv.Tiers.init l)
    (st : Feox.Kv.Tiers.Step) (hst : (∃ k, st = .cacheFill k) ∨ (∃ i, st = .cacheDrop i))
    (he : Feox.Kv.Tiers.enabled (Feox.Kv.Tiers.runFrom Feox.Kv.Tiers.init l) st) (k : Feox.Kv.Tiers.Key) :
    Feox.Kv.Tiers.read (Feox.Kv.Tiers.apply (Feox.Kv.Tiers.runFrom Feox.Kv.Tiers.init l) st) k =
      Feox.Kv.Tiers.read (Feox.Kv.Tiers.runFrom Feox.Kv.Tiers.init l) k := by
  have hi := Feox.Kv.Tiers.run_inv l _ Feox.Kv.Tiers.inv_init hr
  have hi' := Feox.Kv.Tiers.step_inv st hi he
  rw [Feox.Kv.Tiers.read_abs hi' k, Feox.Kv.Tiers.read_abs hi k]
  have : Feox.Kv.Tiers.abs (Feox.Kv.Tiers.apply (Feox.Kv.Tiers.runFrom Feox.Kv.Tiers.init l) st) k =
      Feox.Kv.Tiers.abs (Feox.Kv.Tiers.runFrom Feox.Kv.Tiers.init l) k := by
    rcases hst with ⟨k', rfl⟩ | ⟨i, rfl⟩
    · exact Feox.Kv.Tiers.move_abs _ _ he trivial k
    · exact Feox.Kv.Tiers.move_abs _ _ he trivial k
  rw [this]

/-- **A cached value is served only for the generation it was read for**: an entry whose tag is
the indexed generation's identity holds that generation's value; entries of other generations are
never consulted (the read path looks the tag up) -/
theorem cached_value_is_current (l : List Feox.Kv.Tiers.Step) (hr : Feox.Kv.Tiers.Run Feox.Kv.Tiers.init l)
    (e : Feox.Kv.Tiers.CEntry) (he : e ∈ (Feox.Kv.Tiers.runFrom Feox.Kv.Tiers.init l).cache)
    (g : Feox.Kv.Tiers.Gen) (hg : (Feox.Kv.Tiers.runFrom Feox.Kv.Tiers.init l).index e.key = some g) (ht : g.id = e.tag) :
    e.val = g.val :=
  (Feox.Kv.Tiers.run_inv l _ Feox.Kv.Tiers.inv_init hr).cache e he g hg ht

/-! ### a TTL change is never masked by a stale entry -/

/-- **`update_ttl` carries the value over whatever the cache holds** — entries of the current
generation, entries of generations long gone (late fills by readers that raced with a
replacement), nothing at all: after any history of writes, deletes, timely and late cache fills,
evictions and TTL changes the key reads what its last write stored (`Kv.TtlCarry`: the slot is
picked by exact generation) -/
theorem ttl_change_carries_the_value {s t : Kv.TtlCarry.St} {es : List Kv.TtlCarry.Ev}
    (hr : Kv.TtlCarry.Run s es t) (h : Kv.TtlCarry.Inv s) :
    Kv.TtlCarry.value t = es.foldl Kv.TtlCarry.specStep (Kv.TtlCarry.value s) :=
  (Kv.TtlCarry.run_value hr h).2

/-- picking "any slot the new generation may take over" instead (seeded change C16-5): a late fill
of the first generation, then a TTL change — and the replaced value is back -/
theorem loose_pick_resurrects :
    let evs : List Kv.TtlCarry.Ev := [.put 7, .put 9, .lateFill 0 7, .ttlUpdate]
    Kv.TtlCarry.value (evs.foldl (Kv.TtlCarry.step .loose) {}) = some 7 ∧ evs.foldl Kv.TtlCarry.specStep none = some 9 ∧
    Kv.TtlCarry.value (evs.foldl (Kv.TtlCarry.step .exact) {}) = some 9 :=
  Kv.TtlCarry.loose_pick_resurrects

end Feox.C16
