import Feox.Proto.Dur
import Feox.Proto.Disk
/-!
# C02 — acknowledged data survives any later crash

The per-key durability machine `Feox.Proto.Dur` (accept / skip / durable / retire / ack, with
the code's enabling conditions) and its invariant: whatever set of durable generations a crash
leaves, the newest of them — what recovery returns, `Feox.Proto.scan_tiled` + newest-timestamp
wins — is a state of the key's own history at or after the last acknowledged one; if none is
left, "absent" is such a state.  The block-level half (which generations a crash can leave
intact) is `Feox.Props.C03`.
-/
namespace Feox.C02
open Feox.Proto.Dur

/-- **Acknowledged data survives**: along every trace the machine accepts, at every point,
every durable generation is at or after the last acknowledgement, and if nothing is durable some
state at or after it is "absent" -/
theorem ack_durable (evs : List Ev) (k : Key) (h : evs.foldlM step? {} = some k) :
    (∀ j ∈ k.dur, k.lastAck ≤ j ∧ j < k.hist.length ∧ isValue k j = true) ∧
    (k.dur = [] → ∃ j, k.lastAck ≤ j ∧ j < k.hist.length ∧ isValue k j = false) := by
  have hi := run_inv evs {} k inv_init h
  exact ⟨fun j hj => ⟨(hi.durIn j hj).2.2, (hi.durIn j hj).1, (hi.durIn j hj).2.1⟩, hi.absentOk⟩

/-- an acknowledged delete never comes back: right after an acknowledgement whose latest state
is "absent", nothing is durable -/
theorem acked_delete_gone {k k' : Key} (h : step? k .ack = some k') (hdel : isValue k (latest k) = false)
    (hi : Inv k) : k'.dur = [] := by
  obtain ⟨_, hd, _⟩ := ack_enabled_only_when_drained h
  simp only [step?] at h
  split at h
  · cases h
    cases hdur : k.dur with
    | nil => rfl
    | cons j rest =>
      have hj : j ∈ k.dur := by rw [hdur]; exact List.mem_cons_self
      have := hd j hj
      have hv := (hi.durIn j hj).2.1
      rw [this, hdel] at hv; cases hv
  · cases h

/-- an acknowledged value is never replaced by an older generation: right after an
acknowledgement the only durable generation is the latest state -/
theorem acked_value_is_the_only_durable {k k' : Key} (h : step? k .ack = some k') :
    ∀ j ∈ k'.dur, j = k'.lastAck := by
  obtain ⟨_, hd, _⟩ := ack_enabled_only_when_drained h
  simp only [step?] at h
  split at h
  · cases h; exact hd
  · cases h

theorem ack_needs_drained {k k' : Key} (h : step? k .ack = some k') :
    k.pending = [] ∧ (∀ j ∈ k.dur, j = latest k) ∧ (isValue k (latest k) = true → latest k ∈ k.dur) :=
  ack_enabled_only_when_drained h

theorem retire_needs_successor {k k' : Key} {i : Nat} (h : step? k (.retire i) = some k') :
    i ∈ k.dur ∧ ((∃ j ∈ k.dur, i < j) ∨ ∃ j, j < k.hist.length ∧ i < j ∧ isValue k j = false) :=
  retire_needs_safe_successor h

end Feox.C02
