import Feox.Props.C09
import Feox.Fmt.CrashedTxn
/-!
# C09 on the bytes — the device "as it stands" after I/O failures inside a transaction

An I/O failure inside a write transaction leaves the device in one of the states a crash of that
transaction can leave: the intent is durable (otherwise no data-area write was issued), and of the
transaction's own writes any subset failed, landed, or landed in part.  All of them lie inside the
journalled extents, so the image differs from the last durable one only there — the hypothesis of
`Fmt.recover_crashed_front_write`.  The same holds for a failing retirement (`recover_crashed_retirement`).
-/
namespace Feox.C09
open Feox.Fmt Feox.Gen Feox.Proto

/-- **A failed write transaction never destroys a durable record, on the bytes.**  `img0`: the device
after the last acknowledged flush (markers complete); the failing transaction journalled extents that were
free, each from the front of a free run; of its data-area writes any subset reached the device, whole or
in part (`hagree`: nothing outside the journalled extents changed).  Recovering the device as it stands
succeeds and shows exactly the records of `img0`: per key, the last acknowledged state. -/
theorem failed_write_keeps_durable_records_on_bytes (img0 img : Image) (size : Nat) (o : Opts) (info : Gen → RecMeta) (d0 : Disk)
    (L : List Rec) (md : Meta) (js : JournalState) (co : List (Nat × Nat))
    (hro : o.readOnly = false)
    (hsize : validDeviceSize size = true) (himg : img.size * BSZ = size) (hnz : imageAllZero img = false)
    (hsig : slice (selectMeta (blockAt img FEOX_METADATA_BLOCK) (blockAt img FEOX_METADATA_BACKUP_BLOCK)) 0 FEOX_SIGNATURE_SIZE = FEOX_SIGNATURE)
    (hmd : Meta.decode (selectMeta (blockAt img FEOX_METADATA_BLOCK) (blockAt img FEOX_METADATA_BACKUP_BLOCK)) = some md)
    (hjs : decodeJournal ((List.range ALLOCATION_JOURNAL_BLOCKS).flatMap fun i => blockAt img (ALLOCATION_JOURNAL_START_BLOCK + i)) (size / BSZ) = .ok js)
    (hne : js.extents.isEmpty = false) (hco : coalesceExtents js.extents = some co)
    (hrep : Rep img0 md.version FEOX_DATA_START_BLOCK (size / BSZ) info d0) (ht : TiledBy d0 (size / BSZ) L FEOX_DATA_START_BLOCK)
    (htot0 : size / BSZ ≤ img0.size)
    (hclean : MarksClean img0 FEOX_DATA_START_BLOCK (size / BSZ) d0)
    (hx : ∀ e ∈ js.extents, 0 < e.2 ∧ FEOX_DATA_START_BLOCK ≤ e.1 ∧ e.1 + e.2 ≤ size / BSZ ∧
      (∀ q, e.1 ≤ q → q < e.1 + e.2 → FLs d0 q) ∧
      (e.1 = FEOX_DATA_START_BLOCK ∨ ¬ FLs d0 (e.1 - 1) ∨ inExt js.extents (e.1 - 1)))
    (hagree : ∀ q, FEOX_DATA_START_BLOCK ≤ q → ¬ inExt js.extents q → blockAt img q = blockAt img0 q)
    (hnd : (L.map (fun r => (info r.2.1).key)).Nodup)
    (hexp : o.ttlOn = true → ∀ l ∈ L.foldl (fun lv r => absorbLive lv (liveOf info r)) [],
      (decide (l.expiry > 0) && decide (o.now > l.expiry)) = false) :
    ∃ r, (recoverImage img size o).result = .ok r ∧ r.live = L.foldl (fun lv r => absorbLive lv (liveOf info r)) [] := by
  obtain ⟨r, _, h1, _, _, _, h5⟩ := recover_crashed_front_write img0 img size o info d0 L md js co hro hsize himg hnz hsig hmd hjs
    hne hco hrep ht htot0 hclean hx hagree hnd hexp
  exact ⟨r, h1, h5⟩

end Feox.C09
