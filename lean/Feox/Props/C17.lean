import Feox.Fmt.Lemmas
import Feox.Fmt.Recover
/-!
# C17 — opening arbitrary or damaged files fails cleanly

Theorems about `Feox.Fmt.recoverImage` and the decoders it uses, for *all* byte images:
the bounds facts that license every unchecked slice of the Rust decoders (from the
regenerated constants), absence of the `panic` outcome in the slot decoder, the error kinds
the scan can produce, and "rejected for size / metadata reasons ⇒ nothing written".
Termination ("never loops") is the Lean termination checker accepting `scan`,
`retireWrites`, `toBlocks`, `chunks`, `coalesceSorted` — each is an audited obligation.
-/
namespace Feox.C17
open Feox.Fmt Feox.Gen

/-- bounds that make the unchecked indexing of `decode_slot` safe for every header that
passed its field checks -/
theorem bounds_journal (count : Nat) (h : count ≤ ALLOCATION_JOURNAL_MAX_ENTRIES) :
    JOURNAL_HEADER_SIZE ≤ JOURNAL_SLOT_SIZE ∧
    journalImageSize count ≤ JOURNAL_SLOT_SIZE ∧
    JOURNAL_HEADER_SIZE + count * JOURNAL_ENTRY_SIZE ≤ JOURNAL_SLOT_SIZE ∧
    JOURNAL_HEADER_SIZE + count * JOURNAL_ENTRY_SIZE ≤ journalImageSize count := by
  have hM : ALLOCATION_JOURNAL_MAX_ENTRIES = 1024 := rfl
  have hH : JOURNAL_HEADER_SIZE = 40 := rfl
  have hE : JOURNAL_ENTRY_SIZE = 8 := rfl
  have hS : JOURNAL_SLOT_SIZE = 12288 := rfl
  have hB : BSZ = 4096 := rfl
  rw [hM] at h
  unfold journalImageSize divCeil
  rw [hH, hE, hS, hB]
  refine ⟨by omega, ?_, by omega, ?_⟩
  · have : (40 + count * 8 + 4096 - 1) / 4096 ≤ 3 := by omega
    calc (40 + count * 8 + 4096 - 1) / 4096 * 4096 ≤ 3 * 4096 := Nat.mul_le_mul_right _ this
      _ = 12288 := rfl
  · have := Nat.div_add_mod (40 + count * 8 + 4096 - 1) 4096
    have := Nat.mod_lt (40 + count * 8 + 4096 - 1) (by decide : 4096 > 0)
    omega

/-- metadata, marker and record-head fields lie inside what is read before they are indexed -/
theorem bounds_fixed :
    RESERVED_OFFSET + RESERVED_SIZE ≤ METADATA_ENCODED_SIZE ∧
    LAST_UPDATE_TIME_OFFSET + 8 ≤ RESERVED_OFFSET ∧
    CHECKSUM_COMPLEMENT_OFFSET + 4 ≤ RESERVED_SIZE ∧ GENERATION_OFFSET + 8 ≤ RESERVED_SIZE ∧
    CHECKSUM_DATA_OFFSET ≤ RESERVED_SIZE ∧
    DELETION_MARKER_SIZE ≤ FEOX_BLOCK_SIZE ∧ 18 < DELETION_MARKER_SIZE ∧
    (FEOX_METADATA_BACKUP_BLOCK + 1) * FEOX_BLOCK_SIZE ≥ FEOX_METADATA_BACKUP_BLOCK * FEOX_BLOCK_SIZE + FEOX_BLOCK_SIZE ∧
    SECTOR_HEADER_SIZE + 2 ≤ FEOX_BLOCK_SIZE := by
  decide

/-- **The slot decoder never indexes out of range**: for every slot-sized byte string the
outcome is a state or "invalid", never `panic` -/
theorem decodeSlot_no_panic (data : Bytes) (total slot : Nat) (h : data.length = JOURNAL_SLOT_SIZE) :
    (decodeSlot data total slot).isPanic = false := by
  have hS : JOURNAL_SLOT_SIZE = 12288 := rfl
  have hH : JOURNAL_HEADER_SIZE = 40 := rfl
  unfold decodeSlot
  have c0 : ¬ data.length < JOURNAL_HEADER_SIZE := by rw [h, hS, hH]; omega
  simp only [c0, ↓reduceIte]
  split
  · rfl
  · split
    · rfl
    · split
      · rfl
      · rename_i hfields
        have hcount : rd (slice data 28 4) ≤ ALLOCATION_JOURNAL_MAX_ENTRIES := by
          simp only [Bool.or_eq_true, decide_eq_true_eq, not_or] at hfields
          omega
        obtain ⟨_, b2, b3, _⟩ := bounds_journal _ hcount
        split
        · rfl
        · have hclen : (if (rd (slice data 8 4) == FULL_SLOT_CHECKSUM_VERSION) = true then JOURNAL_SLOT_SIZE
              else journalImageSize (rd (slice data 28 4))) ≤ data.length := by
            split
            · omega
            · omega
          have hs : slice? data 0 (if (rd (slice data 8 4) == FULL_SLOT_CHECKSUM_VERSION) = true then JOURNAL_SLOT_SIZE
              else journalImageSize (rd (slice data 28 4))) ≠ none := by
            unfold slice?
            simp only [Nat.zero_add, hclen, ↓reduceIte]
            intro hh; cases hh
          split
          · rename_i hnone; exact absurd hnone hs
          · split
            · rfl
            · have : ¬ (JOURNAL_HEADER_SIZE + rd (slice data 28 4) * JOURNAL_ENTRY_SIZE > data.length) := by omega
              simp only [this, ↓reduceIte]
              split
              · rfl
              · split <;> rfl

/-- the journal area decoder never indexes out of range either -/
theorem decodeJournal_no_panic (data : Bytes) (total : Nat) :
    ∀ w, decodeJournal data total ≠ .error (.panic w) := by
  intro w
  unfold decodeJournal
  split
  · intro h; cases h
  · rename_i hlen
    simp only [bne_iff_ne, ne_eq, Decidable.not_not] at hlen
    have hB : ALLOCATION_JOURNAL_BLOCKS * BSZ = 24576 := rfl
    have hS : JOURNAL_SLOT_SIZE = 12288 := rfl
    have l0 : (slice data 0 JOURNAL_SLOT_SIZE).length = JOURNAL_SLOT_SIZE :=
      slice_length (by rw [hlen, hB, hS]; omega)
    have l1 : (slice data JOURNAL_SLOT_SIZE JOURNAL_SLOT_SIZE).length = JOURNAL_SLOT_SIZE :=
      slice_length (by rw [hlen, hB, hS]; omega)
    have p0 := decodeSlot_no_panic (slice data 0 JOURNAL_SLOT_SIZE) total 0 l0
    have p1 := decodeSlot_no_panic (slice data JOURNAL_SLOT_SIZE JOURNAL_SLOT_SIZE) total 1 l1
    simp only
    generalize hr0 : (if allZero (slice data 0 JOURNAL_SLOT_SIZE) = true then SlotRes.invalid
      else decodeSlot (slice data 0 JOURNAL_SLOT_SIZE) total 0) = r0
    generalize hr1 : (if allZero (slice data JOURNAL_SLOT_SIZE JOURNAL_SLOT_SIZE) = true then SlotRes.invalid
      else decodeSlot (slice data JOURNAL_SLOT_SIZE JOURNAL_SLOT_SIZE) total 1) = r1
    have q0 : r0.isPanic = false := by
      rw [← hr0]; split
      · rfl
      · exact p0
    have q1 : r1.isPanic = false := by
      rw [← hr1]; split
      · rfl
      · exact p1
    cases r0 <;> cases r1 <;> simp [SlotRes.isPanic] at q0 q1 ⊢
    · split <;> (try split) <;> (intro h; cases h)

theorem insertFree_err_kind (s : Fsm.State) (r : Fsm.Run) (e : Fsm.Err) (h : Fsm.insertFree s r = .error e) :
    e = .InvalidArgument ∨ e = .DuplicateKey := by
  unfold Fsm.insertFree at h
  split at h
  · cases h; left; rfl
  · split at h
    · cases h; left; rfl
    · split at h
      · cases h; right; rfl
      · cases h

/-- a release on the free-space model fails only as `InvalidArgument` or `DuplicateKey` -/
theorem release_err_kind (f : Fsm.State) (a n : Nat) (e : RErr) (h : releaseFsm f a n = .error e) :
    e = .InvalidArgument ∨ e = .DuplicateKey := by
  unfold releaseFsm at h
  generalize hr : Fsm.release f a n = r at h
  obtain ⟨res, f'⟩ := r
  cases res with
  | ok u => simp at h
  | error fe =>
    simp only [Except.error.injEq] at h
    subst h
    have key : fe = .InvalidArgument ∨ fe = .DuplicateKey := by
      unfold Fsm.release at hr
      split at hr
      · simp at hr; left; exact hr.1.symm
      · split at hr
        · simp at hr; left; exact hr.1.symm
        · split at hr
          · simp at hr; left; exact hr.1.symm
          · simp only at hr
            split at hr
            · simp at hr; right; exact hr.1.symm
            · split at hr
              · simp at hr; right; exact hr.1.symm
              · split at hr
                · simp at hr
                · rename_i e' hins
                  simp at hr
                  rw [← hr.1]
                  exact insertFree_err_kind _ _ _ hins
    rcases key with k | k <;> subst k
    · left; rfl
    · right; rfl

/-- **Rejected for size ⇒ untouched**: a file whose size is not a valid device size is
rejected as `InvalidDevice` before anything is written -/
theorem invalid_size_rejected (img : Image) (size : Nat) (o : Opts) (h : validDeviceSize size = false) :
    (recoverImage img size o).result = .error .InvalidDevice ∧ (recoverImage img size o).io = [] := by
  unfold recoverImage
  simp [h, Outcome.fail]

/-- **Not recognisably a FeOx device ⇒ rejected, untouched**: when the metadata copy that is
read does not start with the signature, or does not validate, the open fails as
`InvalidMetadata` with no write issued (the all-zero file, which is initialised as a fresh
device, is the only exception and is not "non-empty content") -/
theorem bad_metadata_rejected (img : Image) (size : Nat) (o : Opts)
    (hsz : validDeviceSize size = true) (himg : img.size * BSZ = size)
    (hnz : (imageAllZero img && !o.readOnly) = false)
    (hbad : slice (selectMeta (blockAt img FEOX_METADATA_BLOCK) (blockAt img FEOX_METADATA_BACKUP_BLOCK)) 0
        FEOX_SIGNATURE_SIZE ≠ FEOX_SIGNATURE ∨
      Meta.decode (selectMeta (blockAt img FEOX_METADATA_BLOCK) (blockAt img FEOX_METADATA_BACKUP_BLOCK)) = none) :
    (recoverImage img size o).result = .error .InvalidMetadata ∧ (recoverImage img size o).io = [] := by
  unfold recoverImage
  have c2 : ¬ (img.size * BSZ != size) = true := by simp [himg]
  simp only [hsz, Bool.not_true, Bool.false_eq_true, ↓reduceIte, c2, hnz]
  by_cases hs : slice (selectMeta (blockAt img FEOX_METADATA_BLOCK) (blockAt img FEOX_METADATA_BACKUP_BLOCK)) 0
        FEOX_SIGNATURE_SIZE = FEOX_SIGNATURE
  · rcases hbad with hb | hb
    · exact absurd hs hb
    · simp [hs, hb, Outcome.fail]
  · simp [hs, Outcome.fail]

/-- whenever the open fails as `InvalidDevice` or `InvalidMetadata`, nothing was written -/
theorem fail_kinds_before_io (img : Image) (size : Nat) (o : Opts) :
    validDeviceSize size = false ∨ img.size * BSZ ≠ size ∨
    slice (selectMeta (blockAt img FEOX_METADATA_BLOCK) (blockAt img FEOX_METADATA_BACKUP_BLOCK)) 0
        FEOX_SIGNATURE_SIZE ≠ FEOX_SIGNATURE ∨
    Meta.decode (selectMeta (blockAt img FEOX_METADATA_BLOCK) (blockAt img FEOX_METADATA_BACKUP_BLOCK)) = none →
    (imageAllZero img && !o.readOnly) = false ∨ validDeviceSize size = false ∨ img.size * BSZ ≠ size →
    (recoverImage img size o).io = [] := by
  intro h1 h2
  unfold recoverImage
  by_cases hv : validDeviceSize size = true
  · by_cases hsz : img.size * BSZ = size
    · have c2 : ¬ (img.size * BSZ != size) = true := by simp [hsz]
      have hnz : (imageAllZero img && !o.readOnly) = false := by
        rcases h2 with h | h | h
        · exact h
        · rw [hv] at h; cases h
        · exact absurd hsz h
      simp only [hv, Bool.not_true, Bool.false_eq_true, ↓reduceIte, c2, hnz]
      rcases h1 with h | h | h | h
      · rw [hv] at h; cases h
      · exact absurd hsz h
      · simp [h, Outcome.fail]
      · by_cases hs : slice (selectMeta (blockAt img FEOX_METADATA_BLOCK) (blockAt img FEOX_METADATA_BACKUP_BLOCK)) 0
            FEOX_SIGNATURE_SIZE = FEOX_SIGNATURE
        · simp [hs, h, Outcome.fail]
        · simp [hs, Outcome.fail]
    · have c2 : (img.size * BSZ != size) = true := by simp [hsz]
      simp [hv, c2, Outcome.fail]
  · have : validDeviceSize size = false := by simpa using hv
    simp [this, Outcome.fail]

/-- the error kinds the scan can end with -/
def ScanErr (e : RErr) : Prop :=
  e = .CorruptedRecord ∨ e = .AmbiguousLegacyTombstone ∨ e = .InvalidArgument ∨ e = .DuplicateKey ∨
    ∃ w, e = .panic w

theorem rel_kind {f : Fsm.State} {a n : Nat} {e : RErr} (h : releaseFsm f a n = .error e) : ScanErr e := by
  rcases release_err_kind f a n e h with k | k <;> subst k <;> simp [ScanErr]

theorem relgap_kind {c : Prop} [Decidable c] {f : Fsm.State} {a n : Nat} {e : RErr}
    (h : (if c then releaseFsm f a n else .ok f) = .error e) : ScanErr e := by
  split at h
  · exact rel_kind h
  · cases h

theorem relgap_kind' {c : Prop} [Decidable c] {f : Fsm.State} {a n : Nat} {e : RErr}
    (h : (if c then releaseFsm f a n else .ok f) = .error e) : e = .InvalidArgument ∨ e = .DuplicateKey := by
  split at h
  · exact release_err_kind _ _ _ _ h
  · cases h

/-- **Scan outcomes**: for every image the scan loop ends (it is a total function) with a
rebuilt state or with one of these error kinds — never `InvalidDevice` / `InvalidMetadata`
(those are decided before the scan, before any write). -/
theorem scan_error_kinds (img : Image) (v total : Nat) (o : Opts) (journal : List (Nat × Nat)) (sector : Nat)
    (st : ScanSt) (e : RErr) (h : scan img v total o journal sector st = .error e) : ScanErr e := by
  fun_induction scan img v total o journal sector st
  all_goals (try (have hk1 := relgap_kind (by assumption)))
  all_goals (try (have hk2 := rel_kind (by assumption)))
  all_goals simp_all [ScanErr]
  all_goals (subst h; simp)

/-- the scan panics only on a short block, which an image made of whole blocks never has -/
theorem scan_no_panic (img : Image) (v total : Nat) (o : Opts) (journal : List (Nat × Nat)) (sector : Nat)
    (st : ScanSt) (hblocks : ∀ s, s < total → (blockAt img s).length = BSZ) :
    ∀ w, scan img v total o journal sector st ≠ .error (.panic w) := by
  intro w
  fun_induction scan img v total o journal sector st
  all_goals (try (have hk1 := relgap_kind' (by assumption)))
  all_goals (try (have hk2 := release_err_kind _ _ _ _ (by assumption)))
  all_goals (try (have hb := hblocks _ (by assumption)))
  all_goals simp_all
  all_goals first
    | (rcases hk1 with k | k <;> simp [k])
    | (rcases hk2 with k | k <;> simp [k])
    | exact absurd (hblocks _ ‹_ < total›) ‹¬ _ = BSZ›

/-! ### non-vacuity -/

example : validDeviceSize (20 * 4096) = true ∧ validDeviceSize (16 * 4096) = false ∧
    validDeviceSize (20 * 4096 + 1) = false := by decide

end Feox.C17
