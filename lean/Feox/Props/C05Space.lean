import Feox.Props.C06
/-!
# Space — the allocator and the extents handed out by it partition the data area

`Fsm` (C06) is exact about the free set; `Proto.Disk` (C05 `partition`) about one tiled disk.
This file closes the loop at the level of the store's bookkeeping: the free set of the allocator,
the extents of published records (`owned`) and the extents reserved by a write batch that has not
published yet (`held`) partition the data area — after any sequence of allocations, publications,
releases of reservations (failed batches) and retirements — and a release of an extent the store
holds is never rejected by the allocator.
-/
namespace Feox.C05
open Feox.Fsm Feox.C06

abbrev Ext := Nat × Nat

def inExt (e : Ext) (b : Nat) : Prop := e.1 ≤ b ∧ b < e.1 + e.2
def Disj (e f : Ext) : Prop := e.1 + e.2 ≤ f.1 ∨ f.1 + f.2 ≤ e.1

structure Space where
  fsm : State
  owned : List Ext := []
  held : List Ext := []

def Space.exts (sp : Space) : List Ext := sp.owned ++ sp.held

structure Part (sp : Space) : Prop where
  inv : Inv sp.fsm
  dev : 0 < sp.fsm.deviceSize
  small : sp.fsm.deviceSize / BS < 2 ^ 64
  shape : ∀ e ∈ sp.exts, 0 < e.2 ∧ DS ≤ e.1 ∧ e.1 + e.2 ≤ sp.fsm.deviceSize / BS
  noFree : ∀ e ∈ sp.exts, ∀ b, inExt e b → ¬ covers sp.fsm.runs b
  disj : sp.exts.Pairwise Disj
  full : ∀ b, DS ≤ b → b < sp.fsm.deviceSize / BS → covers sp.fsm.runs b ∨ ∃ e ∈ sp.exts, inExt e b

inductive Op
  | alloc (n : Nat)              -- a write batch reserves an extent
  | publish (e : Ext)            -- the record becomes live
  | giveBack (e : Ext)           -- a failed batch returns its reservation
  | retire (e : Ext)             -- a superseded / deleted record's extent is released

def apply (sp : Space) : Op → Space
  | .alloc n =>
    match allocate sp.fsm n with
    | (.ok a, f) => { sp with fsm := f, held := (a, n) :: sp.held }
    | (.error _, f) => { sp with fsm := f }
  | .publish e => if e ∈ sp.held then { sp with held := sp.held.erase e, owned := e :: sp.owned } else sp
  | .giveBack e =>
    if e ∈ sp.held then
      match release sp.fsm e.1 e.2 with
      | (.ok (), f) => { sp with fsm := f, held := sp.held.erase e }
      | (.error _, f) => { sp with fsm := f }
    else sp
  | .retire e =>
    if e ∈ sp.owned then
      match release sp.fsm e.1 e.2 with
      | (.ok (), f) => { sp with fsm := f, owned := sp.owned.erase e }
      | (.error _, f) => { sp with fsm := f }
    else sp

theorem disj_of_no_common {e f : Ext} (he : 0 < e.2) (hf : 0 < f.2) (h : ∀ b, inExt e b → ¬ inExt f b) : Disj e f := by
  unfold Disj
  by_cases h1 : e.1 + e.2 ≤ f.1
  · exact Or.inl h1
  · by_cases h2 : f.1 + f.2 ≤ e.1
    · exact Or.inr h2
    · exfalso
      by_cases h3 : e.1 ≤ f.1
      · exact h f.1 ⟨h3, by omega⟩ ⟨Nat.le_refl _, by omega⟩
      · exact h e.1 ⟨Nat.le_refl _, by omega⟩ ⟨by omega, by omega⟩

theorem disj_symm {e f : Ext} (h : Disj e f) : Disj f e := by unfold Disj at *; omega

theorem disj_no_common {e f : Ext} (h : Disj e f) (b : Nat) (he : inExt e b) : ¬ inExt f b := by
  unfold Disj at h; unfold inExt at *; omega

/-- an extent the store holds can always be released: the allocator never rejects it -/
theorem release_valid {sp : Space} (hp : Part sp) {e : Ext} (he : e ∈ sp.exts) : ReleaseValid sp.fsm e.1 e.2 := by
  obtain ⟨h1, h2, h3⟩ := hp.shape e he
  refine ⟨h1, h2, fun _ => h3, ?_, ?_⟩
  · have := hp.small; omega
  · intro b hb1 hb2; exact hp.noFree e he b ⟨hb1, hb2⟩

theorem part_release {sp : Space} (hp : Part sp) {e : Ext} (he : e ∈ sp.exts) (rest : List Ext)
    (hrest : ∀ x, x ∈ rest → x ∈ sp.exts) (hcover : ∀ x ∈ sp.exts, x = e ∨ x ∈ rest)
    (hnd : rest.Pairwise Disj) (hne : ∀ x ∈ rest, Disj x e) :
    ∃ f, release sp.fsm e.1 e.2 = (.ok (), f) ∧
      ∀ (o h : List Ext), o ++ h = rest → Part { fsm := f, owned := o, held := h } := by
  obtain ⟨f, hf, hinv, hdev, hcov⟩ := release_ok_aux hp.inv (release_valid hp he)
  refine ⟨f, hf, ?_⟩
  intro o h hoh
  have hexts : ({ fsm := f, owned := o, held := h } : Space).exts = rest := hoh
  refine ⟨hinv, by rw [hdev]; exact hp.dev, by rw [hdev]; exact hp.small, ?_, ?_, ?_, ?_⟩
  · intro x hx; rw [hexts] at hx; simp only; rw [hdev]; exact hp.shape x (hrest x hx)
  · intro x hx b hb hc
    rw [hexts] at hx
    rcases (hcov b).mp hc with h1 | h1
    · exact hp.noFree x (hrest x hx) b hb h1
    · exact disj_no_common (hne x hx) b hb h1
  · rw [hexts]; exact hnd
  · intro b hb1 hb2
    simp only at hb2 ⊢; rw [hdev] at hb2
    rcases hp.full b hb1 hb2 with h1 | ⟨x, hx, hxb⟩
    · exact Or.inl ((hcov b).mpr (Or.inl h1))
    · rcases hcover x hx with rfl | hxr
      · exact Or.inl ((hcov b).mpr (Or.inr hxb))
      · exact Or.inr ⟨x, by rw [hexts]; exact hxr, hxb⟩

theorem erase_facts {l : List Ext} (hnd : l.Pairwise Disj) {e : Ext} (he : e ∈ l) :
    (∀ x ∈ l.erase e, x ∈ l) ∧ (∀ x ∈ l, x = e ∨ x ∈ l.erase e) ∧ (l.erase e).Pairwise Disj ∧ ∀ x ∈ l.erase e, Disj x e := by
  obtain ⟨l1, l2, _, hl, her⟩ := List.exists_erase_eq he
  refine ⟨fun x hx => List.mem_of_mem_erase hx, ?_, hnd.sublist (List.erase_sublist), ?_⟩
  · intro x hx
    by_cases hxe : x = e
    · exact Or.inl hxe
    · exact Or.inr ((List.mem_erase_of_ne hxe).mpr hx)
  · intro x hx
    rw [her] at hx
    rw [hl] at hnd
    have hp := List.pairwise_append.mp hnd
    rcases List.mem_append.mp hx with h1 | h2
    · exact hp.2.2 x h1 e (List.mem_cons_self ..)
    · have := (List.pairwise_cons.mp hp.2.1).1 x h2
      exact disj_symm this

/-- **Every operation keeps the partition**, and no release of a held or owned extent is rejected -/
theorem apply_part {sp : Space} (op : Op) (hp : Part sp) : Part (apply sp op) := by
  cases op with
  | alloc n =>
    simp only [apply]
    cases ha : allocate sp.fsm n with
    | mk res f =>
      cases res with
      | error err =>
        simp only
        -- a failed allocation leaves the allocator as it was
        have : f = sp.fsm := by
          have := alloc_error_unchanged hp.inv (n := n) (e := err) (by rw [ha])
          rw [ha] at this; exact this
        subst this
        exact hp
      | ok a =>
        simp only
        obtain ⟨hn, hds, hbnd, hfree, hcov, hinv⟩ := alloc_spec hp.inv ha
        have hdev : f.deviceSize = sp.fsm.deviceSize := (alloc_ok_aux hp.inv ha).2.2.1
        have hexts : ({ sp with fsm := f, held := (a, n) :: sp.held } : Space).exts = sp.owned ++ (a, n) :: sp.held := rfl
        have hnew : ∀ x ∈ sp.exts, Disj x (a, n) := by
          intro x hx
          apply disj_of_no_common (hp.shape x hx).1 hn
          intro b hb hb'
          exact hp.noFree x hx b hb (hfree b hb'.1 hb'.2)
        refine ⟨hinv, by rw [hdev]; exact hp.dev, by rw [hdev]; exact hp.small, ?_, ?_, ?_, ?_⟩
        · intro x hx
          rw [hexts] at hx
          simp only; rw [hdev]
          rcases List.mem_append.mp hx with h1 | h1
          · exact hp.shape x (List.mem_append_left _ h1)
          · rcases List.mem_cons.mp h1 with rfl | h2
            · exact ⟨hn, hds, hbnd hp.dev⟩
            · exact hp.shape x (List.mem_append_right _ h2)
        · intro x hx b hb hc
          rw [hexts] at hx
          have hc' := (hcov b).mp hc
          rcases List.mem_append.mp hx with h1 | h1
          · exact hp.noFree x (List.mem_append_left _ h1) b hb hc'.1
          · rcases List.mem_cons.mp h1 with rfl | h2
            · exact hc'.2 hb
            · exact hp.noFree x (List.mem_append_right _ h2) b hb hc'.1
        · rw [hexts]
          have hp0 := List.pairwise_append.mp hp.disj
          refine List.pairwise_append.mpr ⟨hp0.1, List.pairwise_cons.mpr ⟨?_, hp0.2.1⟩, ?_⟩
          · intro y hy; exact disj_symm (hnew y (List.mem_append_right _ hy))
          · intro x hx y hy
            rcases List.mem_cons.mp hy with rfl | hy'
            · exact hnew x (List.mem_append_left _ hx)
            · exact hp0.2.2 x hx y hy'
        · intro b hb1 hb2
          simp only at hb2 ⊢; rw [hdev] at hb2
          by_cases hin : a ≤ b ∧ b < a + n
          · exact Or.inr ⟨(a, n), by rw [hexts]; simp, hin⟩
          · rcases hp.full b hb1 hb2 with h1 | ⟨x, hx, hxb⟩
            · exact Or.inl ((hcov b).mpr ⟨h1, hin⟩)
            · refine Or.inr ⟨x, ?_, hxb⟩
              rw [hexts]
              rcases List.mem_append.mp hx with h1 | h1
              · exact List.mem_append_left _ h1
              · exact List.mem_append_right _ (List.mem_cons_of_mem _ h1)
  | publish e =>
    simp only [apply]
    split
    · rename_i he
      -- the same extents, regrouped
      have hperm : ∀ x, x ∈ (e :: sp.owned) ++ sp.held.erase e ↔ x ∈ sp.exts := by
        intro x
        have hf := erase_facts (List.pairwise_append.mp hp.disj).2.1 he
        simp only [Space.exts, List.mem_append, List.mem_cons]
        constructor
        · rintro ((rfl | h) | h)
          · exact Or.inr he
          · exact Or.inl h
          · exact Or.inr (hf.1 x h)
        · rintro (h | h)
          · exact Or.inl (Or.inr h)
          · rcases hf.2.1 x h with rfl | h'
            · exact Or.inl (Or.inl rfl)
            · exact Or.inr h'
      have hexts : ({ sp with held := sp.held.erase e, owned := e :: sp.owned } : Space).exts = (e :: sp.owned) ++ sp.held.erase e := rfl
      refine ⟨hp.inv, hp.dev, hp.small, ?_, ?_, ?_, ?_⟩
      · intro x hx; rw [hexts] at hx; exact hp.shape x ((hperm x).mp hx)
      · intro x hx; rw [hexts] at hx; exact hp.noFree x ((hperm x).mp hx)
      · rw [hexts]
        have hp0 := List.pairwise_append.mp hp.disj
        have hf := erase_facts hp0.2.1 he
        refine List.pairwise_append.mpr ⟨List.pairwise_cons.mpr ⟨?_, hp0.1⟩, hf.2.2.1, ?_⟩
        · intro y hy; exact disj_symm (hp0.2.2 y hy e he)
        · intro x hx y hy
          rcases List.mem_cons.mp hx with rfl | hx'
          · exact disj_symm (hf.2.2.2 y hy)
          · exact hp0.2.2 x hx' y (hf.1 y hy)
      · intro b hb1 hb2
        rcases hp.full b hb1 hb2 with h1 | ⟨x, hx, hxb⟩
        · exact Or.inl h1
        · exact Or.inr ⟨x, by rw [hexts]; exact (hperm x).mpr hx, hxb⟩
    · exact hp
  | giveBack e =>
    simp only [apply]
    split
    · rename_i he
      have hp0 := List.pairwise_append.mp hp.disj
      have hf := erase_facts hp0.2.1 he
      obtain ⟨f, hrel, hall⟩ := part_release hp (e := e) (List.mem_append_right _ he) (sp.owned ++ sp.held.erase e)
        (by intro x hx; rcases List.mem_append.mp hx with h | h
            · exact List.mem_append_left _ h
            · exact List.mem_append_right _ (hf.1 x h))
        (by intro x hx; rcases List.mem_append.mp hx with h | h
            · exact Or.inr (List.mem_append_left _ h)
            · rcases hf.2.1 x h with rfl | h'
              · exact Or.inl rfl
              · exact Or.inr (List.mem_append_right _ h'))
        (List.pairwise_append.mpr ⟨hp0.1, hf.2.2.1, fun x hx y hy => hp0.2.2 x hx y (hf.1 y hy)⟩)
        (by intro x hx; rcases List.mem_append.mp hx with h | h
            · exact hp0.2.2 x h e he
            · exact hf.2.2.2 x h)
      rw [hrel]
      exact hall sp.owned (sp.held.erase e) rfl
    · exact hp
  | retire e =>
    simp only [apply]
    split
    · rename_i he
      have hp0 := List.pairwise_append.mp hp.disj
      have hf := erase_facts hp0.1 he
      obtain ⟨f, hrel, hall⟩ := part_release hp (e := e) (List.mem_append_left _ he) (sp.owned.erase e ++ sp.held)
        (by intro x hx; rcases List.mem_append.mp hx with h | h
            · exact List.mem_append_left _ (hf.1 x h)
            · exact List.mem_append_right _ h)
        (by intro x hx; rcases List.mem_append.mp hx with h | h
            · rcases hf.2.1 x h with rfl | h'
              · exact Or.inl rfl
              · exact Or.inr (List.mem_append_left _ h')
            · exact Or.inr (List.mem_append_right _ h))
        (List.pairwise_append.mpr ⟨hf.2.2.1, hp0.2.1, fun x hx y hy => hp0.2.2 x (hf.1 x hx) y hy⟩)
        (by intro x hx; rcases List.mem_append.mp hx with h | h
            · exact hf.2.2.2 x h
            · exact disj_symm (hp0.2.2 e he x h))
      rw [hrel]
      exact hall (sp.owned.erase e) sp.held rfl
    · exact hp

/-- any history of allocations, publications, failed batches and retirements -/
theorem run_part (ops : List Op) : ∀ sp, Part sp → Part (ops.foldl apply sp) := by
  induction ops with
  | nil => intro sp hp; exact hp
  | cons op rest ih => intro sp hp; exact ih _ (apply_part op hp)

/-- a freshly initialised device: everything free, nothing owned -/
theorem part_fresh {dev : Nat} {s : State} (h : initDevice Fsm.new dev = .ok s) (hsmall : dev / BS < 2 ^ 64) :
    Part { fsm := s } := by
  obtain ⟨hinv, hdev, hcov⟩ := init_inv h
  have hpos : 0 < dev := by
    unfold initDevice at h
    simp only at h
    split at h
    · cases h
    · rename_i hgt
      have : DS < dev / BS := by omega
      have h0 : 0 < dev / BS := by omega
      exact Nat.pos_of_ne_zero (fun hz => by simp [hz] at h0)
  refine ⟨hinv, by rw [hdev]; exact hpos, by rw [hdev]; exact hsmall, by simp [Space.exts], by simp [Space.exts],
    by simp [Space.exts], ?_⟩
  intro b hb1 hb2
  simp only at hb2; rw [hdev] at hb2
  exact Or.inl ((hcov b).mpr ⟨hb1, hb2⟩)

/-- **From a fresh device, after any history, the free set, the live extents and the reservations
partition the data area** -/
theorem partition_after_any_history {dev : Nat} {s : State} (h : initDevice Fsm.new dev = .ok s) (hsmall : dev / BS < 2 ^ 64)
    (ops : List Op) : Part (ops.foldl apply { fsm := s }) :=
  run_part ops _ (part_fresh h hsmall)

/-- the hypotheses are met: a 40-block device, and a history that exercises every operation -/
example : ∃ s, initDevice Fsm.new (40 * BS) = .ok s ∧
    let sp := [Op.alloc 2, .alloc 1, .publish (16, 2), .giveBack (18, 1), .alloc 3, .publish (18, 3), .retire (16, 2)].foldl apply { fsm := s }
    sp.owned = [(18, 3)] ∧ sp.held = [] ∧ sp.fsm.runs.map (fun r => (r.start, r.size)) = [(16, 2), (21, 19)] := by
  refine ⟨_, rfl, ?_⟩
  decide

end Feox.C05
