import Feox.Gen.Locks
import Feox.Gen.Loops
import Feox.Gen.Constants
import Feox.Conc.Solo
import Feox.Conc.Pin
import Feox.Conc.Reentrant
/-!
# C18 — calls, flush and close always terminate  *(partial: deadlock- and livelock-freedom of the modelled protocols)*

"Bounded time" on a real scheduler is runtime behaviour; what is proved is
* the lock-nesting relation of the flush / retirement / shutdown paths — regenerated from the
  Rust source on every run (`tools/gen_locks.py` → `Feox.Gen.lockEdges`) — is acyclic, so no set
  of threads can wait for each other's locks in a cycle;
* every call of the optimistic protocol (`Feox.Conc`) returns within nine of its own steps once
  no other thread interferes — a retry loop spins only while other calls on the same key keep
  committing (obstruction freedom; the system as a whole makes progress);
* the retirement handshake (`Feox.Conc.Pin`) cannot get stuck: once the readers have left, the
  retirer's remaining steps are all enabled (no lost wake-up at the protocol level: the bit stays
  set, so no new reader arrives);
* the final flush at shutdown — its `match` arms regenerated from the Rust source on every run
  (`tools/gen_loops.py` → `Feox.Gen.finalFlushArms`) — leaves its loop within
  `FINAL_FLUSH_RETRY_LIMIT − 1` rounds whatever each round meets (device errors, postponed
  retirements), because every arm either leaves or bumps exactly the counter it compares;
* the remaining retry loops are bounded by constants regenerated from the source.
-/
namespace Feox.C18
open Feox.Gen Feox.Conc

/-- the order in which locks may nest (outermost first) -/
def rank : Lock → Nat
  | .retireFlush => 0
  | .metaLock => 0
  | .retirePending => 1
  | .disk => 1
  | .freeSpace => 2
  | .shard => 3
  | .handles => 3
  | .sweeper => 3

/-- **Every nesting extracted from the source respects one global order** — in particular the
free-space lock is never held while the device lock is taken (only the other way round, on the
failure paths), and no lock is re-acquired while held. -/
theorem lock_order_acyclic : ∀ e ∈ lockEdges, rank e.1 < rank e.2.1 := by decide

/-- a chain of nestings `l₀ → l₁ → … → lₙ` -/
def Chain : List Lock → Prop
  | a :: b :: rest => (∃ w, (a, b, w) ∈ lockEdges) ∧ Chain (b :: rest)
  | _ => True

theorem chain_rank : ∀ (l : List Lock) (a : Lock), Chain (a :: l) → ∀ z ∈ l, rank a < rank z := by
  intro l
  induction l with
  | nil => intro a _ z hz; cases hz
  | cons b rest ih =>
    intro a h z hz
    obtain ⟨⟨w, hw⟩, hc⟩ := h
    have h1 : rank a < rank b := lock_order_acyclic (a, b, w) hw
    rcases List.mem_cons.mp hz with rfl | hz'
    · exact h1
    · exact Nat.lt_trans h1 (ih b hc z hz')

/-- **No cycle of lock waits**: a chain of nestings never comes back to its first lock -/
theorem no_lock_cycle (a : Lock) (l : List Lock) (h : Chain (a :: l)) : a ∉ l := by
  intro hm
  exact Nat.lt_irrefl _ (chain_rank l a h a hm)

/-- **Every call returns when it runs alone** (any state, any program point of any call) -/
theorem call_terminates_alone (sh : Shared) (wall : Nat) (pc : Pc) (hne : pc ≠ .idle) :
    (solo wall 9 sh pc).2.2.isSome = true :=
  solo_terminates sh wall pc hne

/-- … because every step that does not return lowers a rank that depends only on the program
point and on whether the index still holds what the call read -/
theorem step_returns_or_progresses (sh : Shared) (wall : Nat) (pc : Pc) (hne : pc ≠ .idle) :
    (step sh wall pc).ret.isSome = true ∨ Conc.rank (step sh wall pc).sh (step sh wall pc).pc < Conc.rank sh pc :=
  solo_progress sh wall pc hne

/-- **The retirement cannot get stuck once the readers have left**: from every reachable state
of the pin handshake with no reader inside, the retirer's remaining steps are all enabled and
end with the blocks released. -/
theorem retirement_completes (s : Pin.State) (h0 : s.readers = 0) :
    ∃ es, (Pin.run? s es).map (·.w) = some .freed := by
  cases hw : s.w with
  | idle => exact ⟨[.setBit, .check, .mark, .recheck], by simp [Pin.run?, Pin.step?, hw, h0]⟩
  | bitSet => exact ⟨[.check, .mark, .recheck], by simp [Pin.run?, Pin.step?, hw, h0]⟩
  | cleared => exact ⟨[.mark, .recheck], by simp [Pin.run?, Pin.step?, hw, h0]⟩
  | marked => exact ⟨[.recheck], by simp [Pin.run?, Pin.step?, hw, h0]⟩
  | freed => exact ⟨[], by simp [Pin.run?, hw]⟩

/-- a pinned reader is never blocked by the retirer: `pread` and `release` are always enabled
for a reader that holds a pin (the reader side is wait-free) -/
theorem reader_never_blocked (s : Pin.State) (h : s.pinned > 0) :
    ∃ s1 o1 s2 o2, Pin.step? s .pread = some (s1, o1) ∧ Pin.step? s1 .release = some (s2, o2) := by
  simp [Pin.step?, h]

/-- the retry loops outside the models are bounded by constants taken from the source -/
theorem retry_bounds :
    0 < STALE_READ_RETRY_LIMIT ∧ STALE_READ_RETRY_LIMIT ≤ 16 ∧ 0 < FINAL_FLUSH_RETRY_LIMIT ∧ FINAL_FLUSH_RETRY_LIMIT ≤ 4096 := by
  decide

/-- **The final flush of a worker at shutdown terminates**: whatever each round's
`flush_worker_shards` returns — `Ok(true)` for ever, a retryable error for ever, any mixture —
the loop is left after at most `(number of counters) · (FINAL_FLUSH_RETRY_LIMIT − 1)` rounds that
do not leave it.  The arms are the ones the translator reads off `write_buffer_worker`. -/
theorem final_flush_terminates (ch cs : List Nat)
    (h : Loops.survive finalFlushLimit finalFlushArms ch (List.replicate finalFlushCounters.length 0) = some cs) :
    ch.length ≤ finalFlushCounters.length * (finalFlushLimit - 1) :=
  Loops.bounded finalFlushLimit finalFlushCounters.length finalFlushArms (by decide) (by decide) ch cs h

/-- the stale-read loop of `resolve_value` is a `for` over the constant -/
theorem stale_read_loop_bounded : staleReadLoopBound = STALE_READ_RETRY_LIMIT ∧ staleReadLoopBound ≤ 16 := by decide

/-! ### non-vacuity -/
/-- the loop can really go the whole distance: `LIMIT − 1` rounds through a retrying arm (whichever
the translator lists first, so that the example does not depend on the arms' order) keep it
running, one more leaves it — shown with the limit 4 -/
def firstRetryingArm : Nat := finalFlushArms.findIdx (fun a => !a.exits)
example : firstRetryingArm < finalFlushArms.length := by decide
example : (Loops.survive 4 finalFlushArms (List.replicate 3 firstRetryingArm) (List.replicate finalFlushCounters.length 0)).isSome = true := by decide
example : (Loops.survive 4 finalFlushArms (List.replicate 4 firstRetryingArm) (List.replicate finalFlushCounters.length 0)).isSome = false := by decide
example : Chain [.retireFlush, .disk, .freeSpace] :=
  ⟨⟨"flush_pending_deletions -> process_deletions", by decide⟩,
   ⟨"process_write_batch -> failed_batch_outcome", by decide⟩, trivial⟩
example : lockEdges.length ≥ 5 := by decide

/-- why `gen_locks` reports a lock acquired again while held as an edge from the lock to itself,
which `lock_order_acyclic` refuses: with a writer-preferring readers-writer lock a nested read
acquisition and a queued writer wait for each other (seeded change C18-5) -/
theorem reentrant_read_deadlocks :
    Conc.Reentrant.stuck (Conc.Reentrant.run { scan := Conc.Reentrant.reentrantScan, flush := Conc.Reentrant.worker } [true, false]) = true :=
  Conc.Reentrant.reentrant_read_deadlocks

end Feox.C18
