import Feox.Proto.Shards
import Feox.Proto.Dur
/-!
# C19 — write-behind is bounded  *(partial: the logic, not the wall-clock bound)*

For every shard count `S` and worker count `1 ≤ W ≤ S`: every shard has exactly one owner, the
full-buffer trigger reaches that owner, one coordinator tick wakes the owner of every non-empty
shard (and worker 0 when retirements are pending).  Together with the worker flush draining
all its shards this gives: every accepted write is handed to a worker within one tick.
The numeric bound (flush interval + I/O time) is measured by the `proto` engine, not proved.
-/
namespace Feox.C19
open Feox.Proto.Shards

theorem mem_shardsOf {W S w s : Nat} : s ∈ shardsOf W S w ↔ s < S ∧ s % W = w := by
  simp [shardsOf]

/-- **Every shard has exactly one owner** among the `W` workers, namely `s % W` -/
theorem ownership_partition {W S : Nat} (hW : 0 < W) (s : Nat) (hs : s < S) :
    ownerOf W s < W ∧ s ∈ shardsOf W S (ownerOf W s) ∧ ∀ w, s ∈ shardsOf W S w → w = ownerOf W s := by
  refine ⟨Nat.mod_lt _ hW, mem_shardsOf.mpr ⟨hs, rfl⟩, ?_⟩
  intro w hw
  exact (mem_shardsOf.mp hw).2.symm

/-- no worker is started without a shard to own when `W ≤ S` (so no worker idles forever while
another is overloaded with its shards) -/
theorem every_worker_owns_a_shard {W S w : Nat} (hWS : W ≤ S) (hw : w < W) : w ∈ shardsOf W S w :=
  mem_shardsOf.mpr ⟨by omega, Nat.mod_eq_of_lt hw⟩

/-- **A tick wakes the owner of every non-empty shard** -/
theorem tick_wakes_every_owner {W S : Nat} (hW : 0 < W) (count : Nat → Nat) (rp : Bool) (s : Nat) (hs : s < S)
    (hc : 0 < count s) : ownerOf W s ∈ wakeSet W S count rp := by
  obtain ⟨h1, h2, _⟩ := ownership_partition (S := S) hW s hs
  simp only [wakeSet, List.mem_filter, List.mem_range, Bool.or_eq_true, List.any_eq_true, decide_eq_true_eq]
  exact ⟨h1, Or.inl ⟨s, h2, hc⟩⟩

/-- … and worker 0 whenever retirements are pending, so retirement of overwritten, deleted and
swept generations does not depend on new writes arriving -/
theorem tick_wakes_retirer {W S : Nat} (hW : 0 < W) (count : Nat → Nat) : 0 ∈ wakeSet W S count true := by
  simp [wakeSet, hW]

/-- a worker that is not woken owns only empty shards: nothing accepted is left behind by a tick -/
theorem unwoken_worker_has_nothing {W S : Nat} (count : Nat → Nat) (rp : Bool) (w : Nat) (hw : w < W)
    (hn : w ∉ wakeSet W S count rp) : ∀ s ∈ shardsOf W S w, count s = 0 := by
  intro s hs
  by_cases hc : count s = 0
  · exact hc
  · exfalso
    apply hn
    simp only [wakeSet, List.mem_filter, List.mem_range, Bool.or_eq_true, List.any_eq_true, decide_eq_true_eq]
    exact ⟨hw, Or.inl ⟨s, hs, by omega⟩⟩

/-- the documented geometry: for every CPU count the store can see, `1 ≤ W ≤ S` -/
theorem geometry (cpus : Nat) : 0 < workerCount cpus ∧ workerCount cpus ≤ shardCount cpus := by
  simp only [workerCount, shardCount]
  have : Gen.WRITE_BUFFER_WORKER_RATIO = 2 := rfl
  omega

/-- … so with the real geometry every shard has exactly one flushing worker and no worker is idle by construction -/
theorem real_geometry_partition (cpus s : Nat) (hs : s < shardCount cpus) :
    (∃ w, w < workerCount cpus ∧ s ∈ shardsOf (workerCount cpus) (shardCount cpus) w) ∧
    ∀ w w', s ∈ shardsOf (workerCount cpus) (shardCount cpus) w → s ∈ shardsOf (workerCount cpus) (shardCount cpus) w' → w = w' := by
  have hW := (geometry cpus).1
  refine ⟨⟨s % workerCount cpus, Nat.mod_lt _ hW, mem_shardsOf.mpr ⟨hs, rfl⟩⟩, ?_⟩
  intro w w' h1 h2
  have a := (mem_shardsOf.mp h1).2
  have b := (mem_shardsOf.mp h2).2
  omega

/-! ### non-vacuity -/
example : shardsOf 3 8 1 = [1, 4, 7] := by decide
example : wakeSet 3 8 (fun s => if s = 7 then 2 else 0) false = [1] := by decide

end Feox.C19
