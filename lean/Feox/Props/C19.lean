import Feox.Proto.Shards
import Feox.Proto.Dur
/-!
# C19 — write-behind is bounded  *(partial: the logic, not the wall-clock bound)*

For every shard count `S` and worker count `1 ≤ W ≤ S`: every shard has exactly one owner, the
full-buffer trigger reaches that owner, one coordinator tick wakes the owner of every non-empty
shard (and worker 0 when retirements are pending).  Together with the worker flush draining
all its shards this gives: every accepted write is handed to a worker within one tick.
The numeric bound (flush interval + I/O time) is measured by the `proto` engine, not proved.
-/
namespace Feox.C19
open Feox.Proto.Shards

theorem mem_shardsOf {W S w s : Nat} : s ∈ shardsOf W S w ↔ s < S ∧ s % W = w := by
  simp [shardsOf]

/-- **Every shard has exactly one owner** among the `W` workers, namely `s % W` -/
theorem ownership_partition {W S : Nat} (hW : 0 < W) (s : Nat) (hs : s < S) :
    ownerOf W s < W ∧ s ∈ shardsOf W S (ownerOf W s) ∧ ∀ w, s ∈ shardsOf W S w → w = ownerOf W s := by
  refine ⟨Nat.mod_lt _ hW, mem_shardsOf.mpr ⟨hs, rfl⟩, ?_⟩
  intro w hw
  exact (mem_shardsOf.mp hw).2.symm

/-- no worker is started without a shard to own when `W ≤ S` (so no worker idles forever while
another is overloaded with its shards) -/
theorem every_worker_owns_a_shard {W S w : Nat} (hWS : W ≤ S) (hw : w < W) : w ∈ shardsOf W S w :=
  mem_shardsOf.mpr ⟨by omega, Nat.mod_eq_of_lt hw⟩

/-- **A tick wakes the owner of every non-empty shard** -/
theorem tick_wakes_every_owner {W S : Nat} (hW : 0 < W) (count : Nat → Nat) (rp : Bool) (s : Nat) (hs : s < S)
    (hc : 0 < count s) : ownerOf W s ∈ wakeSet W S count rp := by
  obtain ⟨h1, h2, _⟩ := ownership_partition (S := S) hW s hs
  simp only [wakeSet, List.mem_filter, List.mem_range, Bool.or_eq_true, List.any_eq_true, decide_eq_true_eq]
  exact ⟨h1, Or.inl ⟨s, h2, hc⟩⟩

/-- … and worker 0 whenever retirements are pending, so retirement of overwritten, deleted and
swept generations does not depend on new writes arriving -/
theorem tick_wakes_retirer {W S : Nat} (hW : 0 < W) (count : Nat → Nat) : 0 ∈ wakeSet W S count true := by
  simp [wakeSet, hW]

/-- a worker that is not woken owns only empty shards: nothing accepted is left behind by a tick -/
theorem unwoken_worker_has_nothing {W S : Nat} (count : Nat → Nat) (rp : Bool) (w : Nat) (hw : w < W)
    (hn : w ∉ wakeSet W S count rp) : ∀ s ∈ shardsOf W S w, count s = 0 := by
  intro s hs
  by_cases hc : count s = 0
  · exact hc
  · exfalso
    apply hn
    simp only [wakeSet, List.mem_filter, List.mem_range, Bool.or_eq_true, List.any_eq_true, decide_eq_true_eq]
    exact ⟨hw, Or.inl ⟨s, hs, by omega⟩⟩

/-- the documented geometry: for every CPU count the store can see, `1 ≤ W ≤ S` -/
theorem geometry (cpus : Nat) : 0 < workerCount cpus ∧ workerCount cpus ≤ shardCount cpus := by
  simp only [workerCount, shardCount]
  have : Gen.WRITE_BUFFER_WORKER_RATIO = 2 := rfl
  omega

/-- … so with the real geometry every shard has exactly one flushing worker and no worker is idle by construction -/
theorem real_geometry_partition (cpus s : Nat) (hs : s < shardCount cpus) :
    (∃ w, w < workerCount cpus ∧ s ∈ shardsOf (workerCount cpus) (shardCount cpus) w) ∧
    ∀ w w', s ∈ shardsOf (workerCount cpus) (shardCount cpus) w → s ∈ shardsOf (workerCount cpus) (shardCount cpus) w' → w = w' := by
  have hW := (geometry cpus).1
  refine ⟨⟨s % workerCount cpus, Nat.mod_lt _ hW, mem_shardsOf.mpr ⟨hs, rfl⟩⟩, ?_⟩
  intro w w' h1 h2
  have a := (mem_shardsOf.mp h1).2
  have b := (mem_shardsOf.mp h2).2
  omega

/-! ### a dropped wake-up is harmless (model `Shards.WB`: bounded request channels, `try_send`) -/

/-- every shard a tick saw non-empty (or that filled up) and that has not been drained since has
a request waiting in its owner's channel; the same for pending retirements and worker 0 -/
structure WInv (b : WB) : Prop where
  wpos : 0 < b.W
  shard : ∀ s, b.marked s = true → s < b.S ∧ 0 < b.pending (s % b.W)
  retire : b.retireMarked = true → 0 < b.pending 0

theorem trySend_pos (p : Nat → Nat) (w : Nat) : 0 < trySend p w w := by
  simp only [trySend, if_true]; omega

theorem trySend_mono (p : Nat → Nat) (w j : Nat) (h : 0 < p j) : 0 < trySend p w j := by
  simp only [trySend]; split <;> omega

theorem wake_mono (W : Nat) (ws : List Nat) : ∀ (p : Nat → Nat) (j : Nat), 0 < p j → 0 < wake W p ws j := by
  induction ws with
  | nil => intro p j h; exact h
  | cons w ws ih => intro p j h; exact ih _ j (trySend_mono p w j h)

theorem wake_pos (W : Nat) (ws : List Nat) : ∀ (p : Nat → Nat) (w : Nat), w ∈ ws → 0 < wake W p ws w := by
  induction ws with
  | nil => intro p w h; cases h
  | cons x xs ih =>
    intro p w h
    rcases List.mem_cons.mp h with rfl | h'
    · exact wake_mono W xs _ _ (trySend_pos p w)
    · exact ih _ w h'

/-- the invariant holds along every sequence of enqueues, retirement requests, ticks, full-shard
triggers and worker wake-ups, in any order -/
theorem wstep_inv {b : WB} (e : WEv) (h : WInv b) : WInv (wstep b e) := by
  obtain ⟨hW, hs, hr⟩ := h
  cases e with
  | enqueue s => exact ⟨hW, hs, hr⟩
  | queueRetirement => exact ⟨hW, hs, hr⟩
  | tick =>
    refine ⟨hW, ?_, ?_⟩
    · intro s hm
      simp only [wstep, Bool.or_eq_true, Bool.and_eq_true, decide_eq_true_eq] at hm ⊢
      rcases hm with hm | ⟨hlt, hc⟩
      · exact ⟨(hs s hm).1, wake_mono _ _ _ _ (hs s hm).2⟩
      · exact ⟨hlt, wake_pos _ _ _ _ (tick_wakes_every_owner hW b.count b.retire s hlt hc)⟩
    · intro hm
      simp only [wstep, Bool.or_eq_true] at hm ⊢
      rcases hm with hm | hm
      · exact wake_mono _ _ _ _ (hr hm)
      · rw [hm]; exact wake_pos _ _ _ _ (tick_wakes_retirer hW b.count)
  | full s =>
    refine ⟨hW, ?_, ?_⟩
    · intro j hm
      simp only [wstep, Bool.or_eq_true, Bool.and_eq_true, decide_eq_true_eq, beq_iff_eq] at hm ⊢
      rcases hm with hm | ⟨hlt, rfl⟩
      · exact ⟨(hs j hm).1, trySend_mono _ _ _ (hs j hm).2⟩
      · exact ⟨hlt, trySend_pos _ _⟩
    · intro hm; exact trySend_mono _ _ _ (hr hm)
  | process w =>
    simp only [wstep]
    split
    · exact ⟨hW, hs, hr⟩
    · rename_i hp
      refine ⟨hW, ?_, ?_⟩
      · intro s hm
        simp only at hm ⊢
        split at hm
        · cases hm
        · rename_i hne
          have := hs s hm
          refine ⟨this.1, ?_⟩
          rw [if_neg hne]; exact this.2
      · intro hm
        simp only at hm ⊢
        split at hm
        · cases hm
        · rename_i hne
          have : ¬ (0 = w) := fun h0 => hne h0.symm
          rw [if_neg this]; exact hr hm

/-- **A woken worker drains everything it owns**: after worker `w` has taken a request, none of
its shards is marked any more and they are empty — so every entry a tick saw is durable after at
most one wake-up of its owner, whether or not the tick's own `try_send` was dropped. -/
theorem process_drains (b : WB) (w : Nat) (hp : 0 < b.pending w) (s : Nat) (hs : s % b.W = w) :
    (wstep b (.process w)).count s = 0 ∧ (wstep b (.process w)).marked s = false := by
  have : ¬ b.pending w = 0 := by omega
  simp [wstep, this, hs]

/-- the waiting request exists: for a marked shard the owner's `process` step is enabled -/
theorem marked_shard_has_a_request {b : WB} (h : WInv b) (s : Nat) (hm : b.marked s = true) :
    0 < b.pending (s % b.W) := (h.shard s hm).2

/-! ### non-vacuity -/
example : shardsOf 3 8 1 = [1, 4, 7] := by decide
example : wakeSet 3 8 (fun s => if s = 7 then 2 else 0) false = [1] := by decide

end Feox.C19
