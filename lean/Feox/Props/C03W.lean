import Feox.Props.C03
import Feox.Fmt.Found
import Feox.Fmt.JournalOpen
import Feox.Fmt.Commit
import Feox.Fmt.ScanOk
import Feox.Fmt.Replay
import Feox.Fmt.Batch
import Feox.Fmt.ReplayRuns
import Feox.Proto.Slots
import Feox.Fmt.ReplayOpen
/-!
# C03 (continued) — the two transactions of the device protocol, on the bytes

`Props/C03.lean` proves on the labelled disk that a write transaction's commit (`TiledBy.fill`) and a
retirement (`TiledBy.mask`) keep the data area tiled.  Here the same two steps are taken on the device
*image*, with the bytes the writers of the documented layout produce (`encodeExtent`, `markerBlocks`,
compared with the real writers on every run): the new image represents the new disk, and the byte-level
recovery scan — the model of `scan_and_rebuild_indexes` compared with the real recovery on every image —
accepts exactly the old records plus the new one / minus the retired ones.
-/
namespace Feox.C03
open Feox.Fmt Feox.Proto Feox.Gen Feox.C10

/-- **Commit of a record write, end to end on the bytes** -/
theorem write_commit_on_bytes {img : Image} {v lo total : Nat} {info : Gen → RecMeta} {d : Disk} {L : List Rec}
    (hrep : Rep img v lo total info d) (ht : TiledBy d total L lo) (htot : total ≤ img.size)
    (s : Nat) (g : Gen) (value : Bytes) (hw : WfRec v (info g) value)
    (hk : (info g).key.length ≤ MAX_KEY_SIZE) (hv0 : 0 < (info g).valueLen) (hvmax : (info g).valueLen ≤ MAX_VALUE_SIZE)
    (hlo : lo ≤ s) (hb : s + extentBlocks v (info g).key.length (info g).valueLen ≤ total)
    (hfree : ∀ q, s ≤ q → q < s + extentBlocks v (info g).key.length (info g).valueLen → FLs d q)
    (hnospan : ∀ p r, p < s → d p = .mark r → p + r ≤ s) :
    let n := extentBlocks v (info g).key.length (info g).valueLen
    let img' := writeBlocks img s (toBlocks (encodeExtent v s (info g) value))
    Rep img' v lo total info (fillLabel d s n g) ∧
    ∃ L', TiledBy (fillLabel d s n g) total L' lo ∧ (∀ r, r ∈ L' ↔ r ∈ L ∨ r = (s, g, n)) ∧
      ∀ (o : Opts) (journal : List (Nat × Nat)) (st : ScanSt), o.readOnly = false →
        GoodOutcome info L' st (scan img' v total o journal lo st) :=
  commit_record hrep ht htot s g value hw hk hv0 hvmax hlo hb hfree hnospan

/-- **Retirement of whole tiles, end to end on the bytes** -/
theorem retirement_on_bytes {img : Image} {v lo total : Nat} {info : Gen → RecMeta} {d : Disk} {L : List Rec}
    (hrep : Rep img v lo total info d) (ht : TiledBy d total L lo) (htot : total ≤ img.size) (h64 : total < 2 ^ 64)
    (s e : Nat) (hse : s < e) (hlo : lo ≤ s) (he : e ≤ total) (hal : Aligned L s e) :
    let img' := writeBlocks img s (markerBlocks s (e - s) (e - s))
    Rep img' v lo total info (maskRun d s e) ∧
    TiledBy (maskRun d s e) total (L.filter (outside s e)) lo ∧
    ∀ (o : Opts) (journal : List (Nat × Nat)) (st : ScanSt), o.readOnly = false →
      GoodOutcome info (L.filter (outside s e)) st (scan img' v total o journal lo st) :=
  retire_region hrep ht htot h64 s e hse hlo he hal

/-- **A crash during a retirement, on the bytes**: whatever the crash left inside the journalled
region, replaying the durable intent makes the image represent the old disk with that region masked,
and recovery returns exactly the old records outside it. -/
theorem crash_during_retirement_on_bytes {img0 img : Image} {v lo total : Nat} {info : Gen → RecMeta} {d0 : Disk} {L : List Rec}
    (hrep : Rep img0 v lo total info d0) (ht : TiledBy d0 total L lo) (htot0 : total ≤ img0.size) (htot : total ≤ img.size)
    (h64 : total < 2 ^ 64) (s e : Nat) (hse : s < e) (hlo : lo ≤ s) (he : e ≤ total) (hal : Aligned L s e)
    (hagree : ∀ p, ¬ (s ≤ p ∧ p < e) → blockAt img p = blockAt img0 p) :
    let img' := writeBlocks img s (markerBlocks s (e - s) (e - s))
    Rep img' v lo total info (maskRun d0 s e) ∧
    TiledBy (maskRun d0 s e) total (L.filter (outside s e)) lo ∧
    ∀ (o : Opts) (journal : List (Nat × Nat)) (st : ScanSt), o.readOnly = false →
      GoodOutcome info (L.filter (outside s e)) st (scan img' v total o journal lo st) :=
  replay_on_bytes hrep ht htot0 htot h64 s e hse hlo he hal hagree

/-- **A crash during a write transaction, on the bytes**: the intent covers a region that was free;
the crash image differs from the old image only inside it (lost, torn, half-written record bytes).
After the replay recovery returns exactly the old records: nothing of the unfinished batch surfaces and
nothing old is lost. -/
theorem crash_during_write_on_bytes {img0 img : Image} {v lo total : Nat} {info : Gen → RecMeta} {d0 : Disk} {L : List Rec}
    (hrep : Rep img0 v lo total info d0) (ht : TiledBy d0 total L lo) (htot0 : total ≤ img0.size) (htot : total ≤ img.size)
    (h64 : total < 2 ^ 64) (s e : Nat) (hse : s < e) (hlo : lo ≤ s) (he : e ≤ total)
    (hfree : ∀ q, s ≤ q → q < e → FLs d0 q)
    (hagree : ∀ p, ¬ (s ≤ p ∧ p < e) → blockAt img p = blockAt img0 p) :
    let img' := writeBlocks img s (markerBlocks s (e - s) (e - s))
    TiledBy (maskRun d0 s e) total L lo ∧
    ∀ (o : Opts) (journal : List (Nat × Nat)) (st : ScanSt), o.readOnly = false →
      GoodOutcome info L st (scan img' v total o journal lo st) := by
  intro img'
  obtain ⟨hal, hfil⟩ := ht.aligned_of_fls s e hse hfree
  obtain ⟨_, ht', hscan⟩ := replay_on_bytes hrep ht htot0 htot h64 s e hse hlo he hal hagree
  rw [hfil] at ht' hscan
  exact ⟨ht', hscan⟩

/-- **Recovery of an image that represents a tiled data area succeeds**, from the state recovery starts
the scan in (the empty free-space manager of the device): no format error (`byte_scan_of_tiled`) and no
refusal of the free-space manager either (`Fmt.scan_rep_tiled_ok`: every release the loop issues is a
valid one, `C06.release_ok_iff`).  The table it ends with is "newest timestamp wins" over exactly the
tiling's records, the clock has seen exactly their timestamps. -/
theorem recovery_of_tiled_image_succeeds {img : Image} {v total dev : Nat} {o : Opts} {journal : List (Nat × Nat)}
    {info : Gen → RecMeta} {d : Disk} {L : List Rec} (hro : o.readOnly = false)
    (hrep : Rep img v FEOX_DATA_START_BLOCK total info d) (ht : TiledBy d total L FEOX_DATA_START_BLOCK)
    (hd0 : 0 < dev) (htot : dev / FEOX_BLOCK_SIZE = total) (h64 : total < 2 ^ 64) (hds : FEOX_DATA_START_BLOCK ≤ total) :
    ∃ st', scan img v total o journal FEOX_DATA_START_BLOCK { fsm := Feox.Fsm.setDeviceSize Feox.Fsm.new dev } = .ok st' ∧
      st'.live = L.foldl (fun lv r => absorbLive lv (liveOf info r)) [] ∧
      st'.clock = L.map (fun r => ((info r.2.1).key, (info r.2.1).ts)) := by
  obtain ⟨st', hst', _⟩ := scan_rep_tiled_ok (o := o) (journal := journal) hro hrep hd0 htot h64
    (total - FEOX_DATA_START_BLOCK) FEOX_DATA_START_BLOCK L _ (Nat.le_refl _) (Nat.le_refl _) ht (scanInv_init dev total hds)
  have hgo := scan_rep_tiled (o := o) (journal := journal) hro hrep (total - FEOX_DATA_START_BLOCK) FEOX_DATA_START_BLOCK L
    { fsm := Feox.Fsm.setDeviceSize Feox.Fsm.new dev } (Nat.le_refl _) (Nat.le_refl _) ht
  rw [hst'] at hgo
  simp only [GoodOutcome, List.nil_append] at hgo
  exact ⟨st', hst', hgo.2, hgo.1⟩

/-- **An acknowledged record survives any later crash** (the C02 reading of `replay_on_bytes`): a
record of the old tiling that lies outside the journalled region is accepted by the recovery scan of
every image that differs from the old one only inside that region — whatever the in-flight writes of
the interrupted transaction left there. -/
theorem acknowledged_record_survives_crash {img0 img : Image} {v lo total : Nat} {info : Gen → RecMeta} {d0 : Disk} {L : List Rec}
    (hrep : Rep img0 v lo total info d0) (ht : TiledBy d0 total L lo) (htot0 : total ≤ img0.size) (htot : total ≤ img.size)
    (h64 : total < 2 ^ 64) (s e : Nat) (hse : s < e) (hlo : lo ≤ s) (he : e ≤ total) (hal : Aligned L s e)
    (hagree : ∀ p, ¬ (s ≤ p ∧ p < e) → blockAt img p = blockAt img0 p)
    (r : Rec) (hr : r ∈ L) (hout : r.1 + r.2.2 ≤ s ∨ e ≤ r.1)
    (o : Opts) (journal : List (Nat × Nat)) (st : ScanSt) (hro : o.readOnly = false) :
    match scan (applyIo img (retireUnjournaled [(s, e - s)])) v total o journal lo st with
    | .ok st' => ((info r.2.1).key, (info r.2.1).ts) ∈ st'.clock
    | .error err => NotFormatErr err := by
  obtain ⟨_, _, hscan⟩ := replay_io_on_bytes hrep ht htot0 htot h64 s e hse hlo he hal hagree
  have hgo := hscan o journal st hro
  generalize scan (applyIo img (retireUnjournaled [(s, e - s)])) v total o journal lo st = out at hgo ⊢
  cases out with
  | error err => exact hgo
  | ok st' =>
    simp only [GoodOutcome] at hgo ⊢
    rw [hgo.1]
    apply List.mem_append_right
    apply List.mem_map.mpr
    exact ⟨r, List.mem_filter.mpr ⟨hr, by simp only [outside, decide_eq_true_eq]; exact hout⟩, rfl⟩

/-- **Commit of a whole write batch, on the bytes** (several records in pairwise disjoint regions that
were free when the batch was allocated): `Fmt.commit_batch`. -/
theorem batch_commit_on_bytes {v lo total : Nat} {info : Gen → RecMeta} (ws : List BW) (img : Image) (d : Disk) (L : List Rec)
    (hrep : Rep img v lo total info d) (ht : TiledBy d total L lo) (htot : total ≤ img.size)
    (hok : ∀ w ∈ ws, BWOk v lo total info d w) (hdisj : ws.Pairwise (Disjoint2 v info)) :
    Rep (applyWrites v info img ws) v lo total info (fillAll v info d ws) ∧
    ∃ L', TiledBy (fillAll v info d ws) total L' lo ∧
      (∀ r, r ∈ L' ↔ r ∈ L ∨ r ∈ ws.map (fun w => (w.s, w.g, w.n v info))) ∧
      ∀ (o : Opts) (journal : List (Nat × Nat)) (st : ScanSt), o.readOnly = false →
        GoodOutcome info L' st (scan (applyWrites v info img ws) v total o journal lo st) :=
  commit_batch ws img d L hrep ht htot hok hdisj

/-- **Opening a crashed device, with the device writes the open really issues.**  The intent journal
`extents` was durable over the tiled image `img0`; its coalesced runs are whole tiles inside the data
area; the crash left *anything* inside the runs and anything in the journal / metadata blocks.  The
replay `recoverImage` performs (`replayIo`: chunked marker writes, fsync, journal clear, fsync) followed
by the scan succeeds, and the table it builds is the newest-wins fold over exactly the records of the
old tiling that lie outside the journalled runs — no record outside a journalled run is lost, none
inside one is resurrected. -/
theorem crashed_open_replays_then_scans {v size : Nat} {info : Gen → RecMeta} (hd0 : 0 < size) (h64 : size / Fsm.BS < 2 ^ 64)
    (hds : FEOX_DATA_START_BLOCK ≤ size / Fsm.BS)
    (extents co : List (Nat × Nat)) (p p1 : JPos) (io1 : List IoEv) (img0 img : Image) (d0 : Disk) (L : List Rec) (o : Opts)
    (hro : o.readOnly = false)
    (hne : extents.isEmpty = false) (hco : coalesceExtents extents = some co) (hio : replayIo p extents = .ok (io1, p1))
    (hrep : Rep img0 v FEOX_DATA_START_BLOCK (size / Fsm.BS) info d0) (ht : TiledBy d0 (size / Fsm.BS) L FEOX_DATA_START_BLOCK)
    (htot0 : size / Fsm.BS ≤ img0.size) (htot : size / Fsm.BS ≤ img.size)
    (hruns : ∀ r ∈ co, 0 < r.2 ∧ FEOX_DATA_START_BLOCK ≤ r.1 ∧ r.1 + r.2 ≤ size / Fsm.BS ∧ Aligned L r.1 (r.1 + r.2))
    (hdisj : co.Pairwise (fun a b => a.1 + a.2 ≤ b.1 ∨ b.1 + b.2 ≤ a.1))
    (hagree : ∀ q, FEOX_DATA_START_BLOCK ≤ q → ¬ inRuns (co.map toRun) q → blockAt img q = blockAt img0 q) :
    ∃ st, scan (applyIo img io1) v (size / Fsm.BS) o extents FEOX_DATA_START_BLOCK { fsm := Fsm.setDeviceSize Fsm.new size } = .ok st ∧
      st.live = (filterRuns L (co.map toRun)).foldl (fun lv r => absorbLive lv (liveOf info r)) [] := by
  obtain ⟨hrepF, htF, hgo⟩ := replay_open_on_bytes h64 extents co p p1 io1 img0 img d0 L hne hco hio hrep ht htot0 htot hruns hdisj hagree
  obtain ⟨st, hscan, _⟩ := scan_rep_tiled_ok (o := o) (journal := extents) hro hrepF hd0 rfl h64
    (size / Fsm.BS - FEOX_DATA_START_BLOCK) FEOX_DATA_START_BLOCK _ { fsm := Fsm.setDeviceSize Fsm.new size }
    (Nat.le_refl _) (Nat.le_refl _) htF (scanInv_init size (size / Fsm.BS) hds)
  have h := hgo o extents { fsm := Fsm.setDeviceSize Fsm.new size } hro
  rw [hscan] at h
  simp only [GoodOutcome] at h
  exact ⟨st, hscan, by simpa using h.2⟩

end Feox.C03
