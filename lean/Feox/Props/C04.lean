import Feox.Props.C03
import Feox.Proto.Generations
/-!
# C04 — recovery is idempotent, restartable and never discards a live record

Recovery's own writes are (1) the replay of the active journal — markers over the journalled
runs — and (2) the retirement of stale duplicates and expired winners, which is an ordinary
retirement transaction.  Both are covered by the masking theorems: they only ever write inside
regions that are (or are about to be) journalled, and what recovery *returns* is a function of
the masked view only.
-/
namespace Feox.C04
open Feox.Proto

/-- **Restartable replay**: a crash at any point of the replay's marker writes (any subset,
order or tearing of them: `d'` arbitrary inside the run) followed by a new recovery gives the
same masked view, hence the same contents -/
theorem replay_restartable {d d' : Disk} {s e : Nat} (h : ∀ b, ¬ (s ≤ b ∧ b < e) → d b = d' b) (hi lo : Nat) :
    scan (maskRun d' s e) hi (hi - lo) lo = scan (maskRun d s e) hi (hi - lo) lo := by
  rw [maskRun_ignores h]

/-- **Idempotent**: once the replay has been made durable (the disk *is* its masked view),
replaying again changes nothing; any number of nested recoveries returns the same records -/
theorem replay_idempotent (d : Disk) (s e hi lo : Nat) :
    scan (maskRun (maskRun d s e) s e) hi (hi - lo) lo = scan (maskRun d s e) hi (hi - lo) lo := by
  rw [maskRun_idem]

/-- **Repairs only touch blocks of no live record**: the replay writes inside the journalled run
only, and every record of the recovered set lies wholly outside it and is bit-for-bit
untouched -/
theorem repairs_touch_no_live {d : Disk} {hi lo : Nat} {L : List Rec} (h : TiledBy d hi L lo)
    (s e : Nat) (he : e ≤ hi) (hal : Aligned L s e) :
    (∀ b, ¬ (s ≤ b ∧ b < e) → maskRun d s e b = d b) ∧
    (∀ r ∈ L.filter (outside s e), (r.1 + r.2.2 ≤ s ∨ e ≤ r.1) ∧ ∀ i, i < r.2.2 → maskRun d s e (r.1 + i) = d (r.1 + i)) := by
  refine ⟨fun b hb => by simp [maskRun, hb], ?_⟩
  intro r hr
  obtain ⟨hin, hout⟩ := List.mem_filter.mp hr
  simp only [outside, decide_eq_true_eq] at hout
  refine ⟨hout, fun i hi' => ?_⟩
  have : ¬ (s ≤ r.1 + i ∧ r.1 + i < e) := by omega
  simp [maskRun, this]

/-- retiring the losers (stale duplicates, expired winners) after the scan is a retirement
transaction over whole extents: at every crash point inside it a new recovery returns the
winners exactly -/
theorem loser_retirement_restartable {d d' : Disk} {hi lo : Nat} {L : List Rec} (h : TiledBy d hi L lo)
    (s e : Nat) (he : e ≤ hi) (hal : Aligned L s e) (houtside : ∀ b, ¬ (s ≤ b ∧ b < e) → d b = d' b) :
    scan (maskRun d' s e) hi (hi - lo) lo = some (L.filter (outside s e)) :=
  C03.retire_txn_crash_safe h s e he hal houtside

/-- the winner among the recovered generations of a key depends on the disk only (timestamps
and positions in the scan result), not on which process ran the recovery or how often: it is a
function of `scan`'s result, which the theorems above show to be stable -/
theorem winner_depends_on_disk_only {d : Disk} {hi lo : Nat} {L : List Rec} (h : TiledBy d hi L lo)
    (f : List Rec → α) : f ((scan d hi (hi - lo) lo).getD []) = f L := by
  rw [C03.recover_ok h]; rfl

/-- **Recovery's own retirements are restartable at the level of generations, with TTL on and
whatever the split into journal transactions**: stale generations first (any subset of them
durably retired), expired winners only after all of those (any subset durably retired): the
restarted recovery exposes, for every key, what the uninterrupted one exposed.
(`recovery.rs scan_and_rebuild_indexes`: `retire_extents(stale)`, then
`remove_expired_recovery_winners`, then `retire_extents(expired)`.) -/
theorem recovery_retirement_restartable (now : Nat) (G : List Gens.Gen) (hnd : G.Nodup) (keep1 keep2 : Gens.Gen → Bool)
    (h1 : ∀ k w, Gens.winner k G = some w → keep1 w = true)
    (h2 : ∀ g ∈ Gens.winners G, keep2 g = false → Gens.expired now g = true) (k : Nat) :
    Gens.exposed now k (G.filter keep1) = Gens.exposed now k G ∧
    Gens.exposed now k ((Gens.winners G).filter keep2) = Gens.exposed now k G :=
  Gens.two_phase_restartable now G hnd keep1 keep2 h1 h2 k

/-- the hypotheses are met by a device with a stale generation, an expired winner and a live key,
with a stale generation retired in phase 1 and the expired winner in phase 2 -/
example :
    let G : List Gens.Gen := [⟨1, 9, 100, 16⟩, ⟨2, 3, 0, 17⟩, ⟨1, 5, 0, 40⟩]
    G.Nodup ∧ (∀ k w, Gens.winner k G = some w → (fun g => g != (⟨1, 5, 0, 40⟩ : Gens.Gen)) w = true) ∧
    (∀ g ∈ Gens.winners G, (fun g => g != (⟨1, 9, 100, 16⟩ : Gens.Gen)) g = false → Gens.expired 200 g = true) ∧
    Gens.exposed 200 1 G = none ∧ Gens.exposed 200 2 G = some ⟨2, 3, 0, 17⟩ := by
  refine ⟨by decide, ?_, by decide, by decide, by decide⟩
  intro k w h
  have hm := Gens.winner_mem h
  have : w ≠ (⟨1, 5, 0, 40⟩ : Gens.Gen) := by
    intro hw
    subst hw
    have hk : k = 1 := hm.2.symm
    subst hk
    revert h
    decide
  simpa using this

/-- the other order is NOT restartable: an expired winner retired while an older generation of
its key is still valid brings the older value back on restart (what `retire_extents` did before
the fix a78e7b4 when it needed more than one journal transaction; seeded change C04-2) -/
theorem expired_first_resurrects :
    let old : Gens.Gen := ⟨1, 5, 0, 40⟩
    let new : Gens.Gen := ⟨1, 9, 100, 16⟩
    let G := [new, old]
    let keep : Gens.Gen → Bool := fun g => g != new
    Gens.exposed 200 1 G = none ∧ Gens.exposed 200 1 (G.filter keep) = some old ∧
    (∀ g ∈ G, keep g = false → Gens.expired 200 g = true) :=
  Gens.expired_first_resurrects

/-- **… and across time** ("apart from keys whose expiry instant passes in between"): the first
recovery runs at `now`, is cut anywhere in either phase, and the device is recovered again at
`now' ≥ now`.  For every key the restarted recovery exposes what the first one exposed, unless
that generation has expired by `now'` — then nothing; never an older generation. -/
theorem recovery_restartable_later (now now' : Nat) (hle : now ≤ now') (G : List Gens.Gen) (hnd : G.Nodup)
    (keep1 keep2 : Gens.Gen → Bool)
    (h1 : ∀ k w, Gens.winner k G = some w → keep1 w = true)
    (h2 : ∀ g ∈ Gens.winners G, keep2 g = false → Gens.expired now g = true) (k : Nat) :
    Gens.exposed now' k (G.filter keep1) = (Gens.exposed now k G).filter (fun w => !Gens.expired now' w) ∧
    Gens.exposed now' k ((Gens.winners G).filter keep2) = (Gens.exposed now k G).filter (fun w => !Gens.expired now' w) :=
  Gens.two_phase_restartable_later now now' hle G hnd keep1 keep2 h1 h2 k

/-- non-vacuity: a key that is live at the first recovery (now = 50) and expired at the second
(now' = 200), with an older generation still on the device at the restart -/
example :
    let G : List Gens.Gen := [⟨1, 9, 100, 16⟩, ⟨1, 5, 0, 40⟩]
    Gens.exposed 50 1 G = some ⟨1, 9, 100, 16⟩ ∧
    (Gens.exposed 50 1 G).filter (fun w => !Gens.expired 200 w) = none ∧ Gens.exposed 200 1 G = none := by
  decide

/-- a scan that drops expired records *before* the newest-wins comparison (seeded change C04-5)
makes the winner depend on the clock: the superseded generation comes back -/
theorem drop_expired_before_selection_resurrects :
    let old : Gens.Gen := ⟨1, 5, 0, 40⟩
    let new : Gens.Gen := ⟨1, 9, 100, 16⟩
    let G := [new, old]
    Gens.exposed 50 1 G = some new ∧ Gens.exposed 200 1 G = none ∧
    Gens.exposedDropFirst 50 1 G = some new ∧ Gens.exposedDropFirst 200 1 G = some old :=
  Gens.drop_expired_before_selection_resurrects

end Feox.C04
