import Feox.Props.C03
/-!
# C04 — recovery is idempotent, restartable and never discards a live record

Recovery's own writes are (1) the replay of the active journal — markers over the journalled
runs — and (2) the retirement of stale duplicates and expired winners, which is an ordinary
retirement transaction.  Both are covered by the masking theorems: they only ever write inside
regions that are (or are about to be) journalled, and what recovery *returns* is a function of
the masked view only.
-/
namespace Feox.C04
open Feox.Proto

/-- **Restartable replay**: a crash at any point of the replay's marker writes (any subset,
order or tearing of them: `d'` arbitrary inside the run) followed by a new recovery gives the
same masked view, hence the same contents -/
theorem replay_restartable {d d' : Disk} {s e : Nat} (h : ∀ b, ¬ (s ≤ b ∧ b < e) → d b = d' b) (hi lo : Nat) :
    scan (maskRun d' s e) hi (hi - lo) lo = scan (maskRun d s e) hi (hi - lo) lo := by
  rw [maskRun_ignores h]

/-- **Idempotent**: once the replay has been made durable (the disk *is* its masked view),
replaying again changes nothing; any number of nested recoveries returns the same records -/
theorem replay_idempotent (d : Disk) (s e hi lo : Nat) :
    scan (maskRun (maskRun d s e) s e) hi (hi - lo) lo = scan (maskRun d s e) hi (hi - lo) lo := by
  rw [maskRun_idem]

/-- **Repairs only touch blocks of no live record**: the replay writes inside the journalled run
only, and every record of the recovered set lies wholly outside it and is bit-for-bit
untouched -/
theorem repairs_touch_no_live {d : Disk} {hi lo : Nat} {L : List Rec} (h : TiledBy d hi L lo)
    (s e : Nat) (he : e ≤ hi) (hal : Aligned L s e) :
    (∀ b, ¬ (s ≤ b ∧ b < e) → maskRun d s e b = d b) ∧
    (∀ r ∈ L.filter (outside s e), (r.1 + r.2.2 ≤ s ∨ e ≤ r.1) ∧ ∀ i, i < r.2.2 → maskRun d s e (r.1 + i) = d (r.1 + i)) := by
  refine ⟨fun b hb => by simp [maskRun, hb], ?_⟩
  intro r hr
  obtain ⟨hin, hout⟩ := List.mem_filter.mp hr
  simp only [outside, decide_eq_true_eq] at hout
  refine ⟨hout, fun i hi' => ?_⟩
  have : ¬ (s ≤ r.1 + i ∧ r.1 + i < e) := by omega
  simp [maskRun, this]

/-- retiring the losers (stale duplicates, expired winners) after the scan is a retirement
transaction over whole extents: at every crash point inside it a new recovery returns the
winners exactly -/
theorem loser_retirement_restartable {d d' : Disk} {hi lo : Nat} {L : List Rec} (h : TiledBy d hi L lo)
    (s e : Nat) (he : e ≤ hi) (hal : Aligned L s e) (houtside : ∀ b, ¬ (s ≤ b ∧ b < e) → d b = d' b) :
    scan (maskRun d' s e) hi (hi - lo) lo = some (L.filter (outside s e)) :=
  C03.retire_txn_crash_safe h s e he hal houtside

/-- the winner among the recovered generations of a key depends on the disk only (timestamps
and positions in the scan result), not on which process ran the recovery or how often: it is a
function of `scan`'s result, which the theorems above show to be stable -/
theorem winner_depends_on_disk_only {d : Disk} {hi lo : Nat} {L : List Rec} (h : TiledBy d hi L lo)
    (f : List Rec → α) : f ((scan d hi (hi - lo) lo).getD []) = f L := by
  rw [C03.recover_ok h]; rfl

end Feox.C04
