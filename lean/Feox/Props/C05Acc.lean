import Feox.Props.C05Space
/-!
# the allocation / publication / release events of a running store, replayed on the `Space` model

`alloc a n`   : the free-space manager handed out `[a, a+n)` — the model's allocator, in the same
                state, must hand out the very same extent (best fit, prefix of the run);
`publish a n` : the record written there became readable (a reservation turns into a live extent);
`release a n` : blocks returned to the free pool — exactly a union of extents the model holds
                (reservations of a failed batch, or live extents being retired; adjacent ones may
                come back as one range).
`none` = the event is not one the model can make.
-/
namespace Feox.C05
open Feox.Fsm

inductive SEv
  | alloc (a n : Nat)
  | publish (a n : Nat)
  | release (a n : Nat)
  deriving Repr

/-- the held / owned extents that tile `[a, a+n)` from the left, if they do -/
def tiling (exts : List Ext) : Nat → Nat → Nat → Option (List Ext)
  | 0, _, _ => none
  | fuel + 1, a, n =>
    if n = 0 then some []
    else match exts.find? (fun e => e.1 == a) with
      | some e => if e.2 ≤ n ∧ 0 < e.2 then (tiling exts fuel (a + e.2) (n - e.2)).map (e :: ·) else none
      | none => none

def accept (sp : Space) : SEv → Option Space
  | .alloc a n =>
    match allocate sp.fsm n with
    | (.ok a', f) => if a' = a then some { sp with fsm := f, held := (a, n) :: sp.held } else none
    | _ => none
  | .publish a n => if (a, n) ∈ sp.held then some (apply sp (.publish (a, n))) else none
  | .release a n =>
    match tiling (sp.owned ++ sp.held) (n + 1) a n with
    | none => none
    | some parts =>
      parts.foldlM (fun s e =>
        if e ∈ s.held then
          (match release s.fsm e.1 e.2 with
           | (.ok (), f) => some { s with fsm := f, held := s.held.erase e }
           | _ => none)
        else if e ∈ s.owned then
          (match release s.fsm e.1 e.2 with
           | (.ok (), f) => some { s with fsm := f, owned := s.owned.erase e }
           | _ => none)
        else none) sp

theorem accept_part {sp sp' : Space} {e : SEv} (hp : Part sp) (h : accept sp e = some sp') : Part sp' := by
  cases e with
  | alloc a n =>
    simp only [accept] at h
    cases ha : allocate sp.fsm n with
    | mk res f =>
      rw [ha] at h
      cases res with
      | error err => simp at h
      | ok a' =>
        simp only at h
        split at h
        · rename_i heq
          cases h
          subst heq
          have := apply_part (.alloc n) hp
          simp only [apply, ha] at this
          exact this
        · cases h
  | publish a n =>
    simp only [accept] at h
    split at h
    · cases h; exact apply_part _ hp
    · cases h
  | release a n =>
    simp only [accept] at h
    cases ht : tiling (sp.owned ++ sp.held) (n + 1) a n with
    | none => rw [ht] at h; cases h
    | some parts =>
      rw [ht] at h
      simp only at h
      clear ht
      induction parts generalizing sp with
      | nil => simp [List.foldlM] at h; subst h; exact hp
      | cons x xs ih =>
        simp only [List.foldlM_cons, Option.bind_eq_bind] at h
        split at h
        · rename_i hx
          cases hr : release sp.fsm x.1 x.2 with
          | mk res f =>
            rw [hr] at h
            cases res with
            | error err => simp at h
            | ok u =>
              simp only [Option.bind_some] at h
              have hp1 := apply_part (.giveBack x) hp
              simp only [apply, hx, if_true, hr] at hp1
              exact ih hp1 h
        · split at h
          · rename_i hx
            cases hr : release sp.fsm x.1 x.2 with
            | mk res f =>
              rw [hr] at h
              cases res with
              | error err => simp at h
              | ok u =>
                simp only [Option.bind_some] at h
                have hp1 := apply_part (.retire x) hp
                simp only [apply, hx, if_true, hr] at hp1
                exact ih hp1 h
          · simp at h

/-- an accepted event trace of a running store keeps the partition -/
theorem accepted_trace_part : ∀ (evs : List SEv) (sp sp' : Space), Part sp → evs.foldlM accept sp = some sp' → Part sp' := by
  intro evs
  induction evs with
  | nil => intro sp sp' hp h; simp [List.foldlM] at h; subst h; exact hp
  | cons e es ih =>
    intro sp sp' hp h
    simp only [List.foldlM_cons, Option.bind_eq_bind] at h
    cases hs : accept sp e with
    | none => simp [hs] at h
    | some s1 => rw [hs] at h; exact ih s1 sp' (accept_part hp hs) h

example : ∃ s, initDevice Fsm.new (40 * BS) = .ok s ∧
    (([.alloc 16 2, .alloc 18 1, .publish 16 2, .publish 18 1, .release 16 3] : List SEv).foldlM accept { fsm := s }).isSome = true ∧
    (([.alloc 16 2, .alloc 19 1] : List SEv).foldlM accept { fsm := s }).isSome = false ∧
    (([.alloc 16 2, .release 16 1] : List SEv).foldlM accept { fsm := s }).isSome = false := by
  refine ⟨_, rfl, ?_⟩
  decide

end Feox.C05
