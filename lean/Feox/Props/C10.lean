import Feox.Fmt.JournalRT
import Feox.Fmt.Lemmas
import Feox.Fmt.Recover
import Feox.Fmt.RepCheck
/-!
# C10 — the device file follows the documented v1/v2/v3 layout

Property theorems about `Feox.Fmt` (the independent reader/writer of the layout).
Round trips are proved for *all* well-formed records / markers / journal images / metadata;
the layout facts are re-checked against the regenerated Rust constants.
-/
namespace Feox.C10
open Feox.Fmt Feox.Gen

/-! ## layout regions (regenerated constants) -/

/-- primary metadata, journal slots, backup metadata and data area are pairwise disjoint and in
this order; a full journal image fits its slot; the metadata image fits its block; the
largest recoverable key makes a head that is exactly one block. -/
theorem layout_disjoint :
    FEOX_METADATA_BLOCK < ALLOCATION_JOURNAL_START_BLOCK ∧
    ALLOCATION_JOURNAL_START_BLOCK + ALLOCATION_JOURNAL_BLOCKS ≤ FEOX_METADATA_BACKUP_BLOCK ∧
    FEOX_METADATA_BACKUP_BLOCK < FEOX_DATA_START_BLOCK ∧
    ALLOCATION_JOURNAL_BLOCKS = ALLOCATION_JOURNAL_SLOT_BLOCKS * ALLOCATION_JOURNAL_SLOTS ∧
    JOURNAL_SLOT_SIZE = ALLOCATION_JOURNAL_SLOT_BLOCKS * FEOX_BLOCK_SIZE ∧
    journalImageSize ALLOCATION_JOURNAL_MAX_ENTRIES ≤ JOURNAL_SLOT_SIZE ∧
    METADATA_ENCODED_SIZE ≤ FEOX_BLOCK_SIZE ∧
    RESERVED_OFFSET + RESERVED_SIZE ≤ METADATA_ENCODED_SIZE ∧
    GENERATION_OFFSET + 8 ≤ RESERVED_SIZE ∧
    DELETION_MARKER_SIZE = DELETION_MARKER.length + 8 + 2 + 1 ∧
    headerSize 2 MAX_RECOVERABLE_KEY_SIZE = FEOX_BLOCK_SIZE ∧
    headerSize 3 MAX_RECOVERABLE_KEY_SIZE = FEOX_BLOCK_SIZE ∧
    headerSize 1 MAX_RECOVERABLE_KEY_SIZE_V1 = FEOX_BLOCK_SIZE ∧
    MAX_RECOVERABLE_KEY_SIZE < 65536 ∧ MAX_RECOVERABLE_KEY_SIZE_V1 < 65536 := by
  decide

/-- fields of one format never overlap: the offsets of the metadata image are strictly
increasing with the documented widths -/
theorem meta_offsets :
    FEOX_SIGNATURE_SIZE = VERSION_OFFSET ∧ VERSION_OFFSET + 4 ≤ TOTAL_RECORDS_OFFSET ∧
    TOTAL_RECORDS_OFFSET + 8 = TOTAL_SIZE_OFFSET ∧ TOTAL_SIZE_OFFSET + 8 = DEVICE_SIZE_OFFSET ∧
    DEVICE_SIZE_OFFSET + 8 = BLOCK_SIZE_OFFSET ∧ BLOCK_SIZE_OFFSET + 4 = FRAGMENTATION_OFFSET ∧
    FRAGMENTATION_OFFSET + 4 = CREATION_TIME_OFFSET ∧ CREATION_TIME_OFFSET + 8 = LAST_UPDATE_TIME_OFFSET ∧
    LAST_UPDATE_TIME_OFFSET + 8 = RESERVED_OFFSET := by
  decide

/-! ## tokens -/

theorem token_nonzero (sector : Nat) (b : Bytes) :
    seqToken sector b ≠ 0 ∧ recordSeqToken sector b ≠ 0 := by
  refine ⟨nonzeroToken_ne_zero _, ?_⟩
  unfold recordSeqToken
  simp only
  split <;> exact nonzeroToken_ne_zero _

/-- the record token ignores whatever is in the seq_number field (bytes 2..4), so stamping is
idempotent and the token binds the sector, the first two bytes and everything from byte 4 on -/
theorem token_ignores_seq_field (sector : Nat) (a s s' rest : Bytes)
    (ha : a.length = 2) (hs : s.length = 2) (hs' : s'.length = 2) :
    recordSeqToken sector (a ++ (s ++ rest)) = recordSeqToken sector (a ++ (s' ++ rest)) := by
  have h4 : SECTOR_HEADER_SIZE = 4 := rfl
  unfold recordSeqToken
  simp only [h4]
  have l1 : (a ++ (s ++ rest)).length ≥ 4 := by simp; omega
  have l2 : (a ++ (s' ++ rest)).length ≥ 4 := by simp; omega
  simp only [l1, l2, ↓reduceIte]
  have t1 : (a ++ (s ++ rest)).take 2 = a := by simp [← ha]
  have t2 : (a ++ (s' ++ rest)).take 2 = a := by simp [← ha]
  have d1 : (a ++ (s ++ rest)).drop 4 = rest := by
    have : (4 : Nat) = a.length + s.length := by omega
    rw [this, ← List.append_assoc, ← List.length_append]; simp
  have d2 : (a ++ (s' ++ rest)).drop 4 = rest := by
    have : (4 : Nat) = a.length + s'.length := by omega
    rw [this, ← List.append_assoc, ← List.length_append]; simp
  rw [t1, t2, d1, d2]

/-- what recovery computes block by block (`record_crc_head` chained over the tails) is the
token of the whole extent: the token covers the continuation blocks -/
theorem token_covers_tails (s : UInt32) (head : Bytes) (tails : List Bytes) :
    tails.foldl crc32c (crc32c s head) = crc32c s (head ++ tails.flatten) := by
  induction tails generalizing head with
  | nil => simp
  | cons t ts ih =>
    simp only [List.foldl_cons, List.flatten_cons]
    rw [crc32c_append, ih, List.append_assoc]

/-! ## records -/

/-- a record the store accepts: non-empty key whose head fits one block, lengths and
timestamps in `u64`, and no expiry on a v1 device -/
structure WfRec (v : Nat) (m : RecMeta) (value : Bytes) : Prop where
  kpos : 0 < m.key.length
  kfit : headerSize v m.key.length ≤ BSZ
  vlen : m.valueLen = value.length
  vl64 : m.valueLen < 2 ^ 64
  ts64 : m.ts < 2 ^ 64
  ex64 : m.expiry < 2 ^ 64
  v1 : hasTtl v = false → m.expiry = 0

theorem headerSize_ge (v k : Nat) : 22 + k ≤ headerSize v k := by
  unfold headerSize; simp [SECTOR_HEADER_SIZE]; split <;> omega

theorem key_lt_of_fit {v k : Nat} (h : headerSize v k ≤ BSZ) : k < 65536 := by
  have := headerSize_ge v k
  have : BSZ = 4096 := rfl
  omega

/-- reading back the fields of `marker(2) | seq(2) | serializeHead | rest`, whatever the two
seq bytes are (zero before stamping, the token after) -/
theorem parse_layout (v : Nat) (m : RecMeta) (value : Bytes) (S rest : Bytes)
    (hw : WfRec v m value) (hS : S.length = 2) :
    parseRecord v (le 2 SECTOR_MARKER ++ S ++ serializeHead v m ++ rest) = some m ∧
    sectorHoldsRecord (le 2 SECTOR_MARKER ++ S ++ serializeHead v m ++ rest) m.key m.valueLen m.ts = true ∧
    (le 2 SECTOR_MARKER ++ S ++ serializeHead v m).length = headerSize v m.key.length := by
  have hk := key_lt_of_fit hw.kfit
  have hkm : m.key.length % 65536 = m.key.length := Nat.mod_eq_of_lt hk
  have h4 : SECTOR_HEADER_SIZE = 4 := rfl
  -- name the pieces
  generalize hA : le 2 SECTOR_MARKER = A
  have hAl : A.length = 2 := by rw [← hA]; simp
  have hArd : rd A = SECTOR_MARKER := by rw [← hA]; exact le2 _ (by decide)
  generalize hK2 : le 2 (m.key.length % 65536) = K2
  have hK2l : K2.length = 2 := by rw [← hK2]; simp
  have hK2rd : rd K2 = m.key.length := by rw [← hK2, hkm]; exact le2 _ hk
  generalize hVL : le 8 m.valueLen = VL
  have hVLl : VL.length = 8 := by rw [← hVL]; simp
  have hVLrd : rd VL = m.valueLen := by rw [← hVL]; exact le8 _ hw.vl64
  generalize hTS : le 8 m.ts = TS
  have hTSl : TS.length = 8 := by rw [← hTS]; simp
  have hTSrd : rd TS = m.ts := by rw [← hTS]; exact le8 _ hw.ts64
  generalize hEX : (if hasTtl v then le 8 m.expiry else []) = EX
  have hser : serializeHead v m = K2 ++ m.key ++ VL ++ TS ++ EX := by
    unfold serializeHead; rw [hK2, hVL, hTS, hEX]
  rw [hser]
  generalize hd : A ++ S ++ (K2 ++ m.key ++ VL ++ TS ++ EX) ++ rest = d
  have hd' : d = A ++ S ++ K2 ++ m.key ++ VL ++ TS ++ EX ++ rest := by
    rw [← hd]; simp [List.append_assoc]
  have hEXl : EX.length = if hasTtl v then 8 else 0 := by
    rw [← hEX]; split <;> simp
  have hdl : d.length = 22 + m.key.length + EX.length + rest.length := by
    rw [hd']; simp [hAl, hS, hK2l, hVLl, hTSl]; omega
  have r1 : slice d 4 2 = K2 := by
    have : d = (A ++ S) ++ (K2 ++ (m.key ++ VL ++ TS ++ EX ++ rest)) := by rw [hd']; simp [List.append_assoc]
    rw [this]; exact slice_mid' (by simp [hAl, hS]) (by simp [hK2l])
  have r0 : slice d 0 2 = A := by
    have : d = A ++ (S ++ K2 ++ m.key ++ VL ++ TS ++ EX ++ rest) := by rw [hd']; simp [List.append_assoc]
    rw [this]; exact slice_zero_prefix _ _ hAl.symm
  have r2 : slice d 6 m.key.length = m.key := by
    have : d = (A ++ S ++ K2) ++ (m.key ++ (VL ++ TS ++ EX ++ rest)) := by rw [hd']; simp [List.append_assoc]
    rw [this]; exact slice_mid' (by simp [hAl, hS, hK2l]) rfl
  have r3 : slice d (6 + m.key.length) 8 = VL := by
    have : d = (A ++ S ++ K2 ++ m.key) ++ (VL ++ (TS ++ EX ++ rest)) := by rw [hd']; simp [List.append_assoc]
    rw [this]; exact slice_mid' (by simp [hAl, hS, hK2l]; omega) (by simp [hVLl])
  have r4 : slice d (6 + m.key.length + 8) 8 = TS := by
    have : d = (A ++ S ++ K2 ++ m.key ++ VL) ++ (TS ++ (EX ++ rest)) := by rw [hd']; simp [List.append_assoc]
    rw [this]; exact slice_mid' (by simp [hAl, hS, hK2l, hVLl]; omega) (by simp [hTSl])
  have r5 : slice d (6 + m.key.length + 16) EX.length = EX := by
    have : d = (A ++ S ++ K2 ++ m.key ++ VL ++ TS) ++ (EX ++ rest) := by rw [hd']; simp [List.append_assoc]
    rw [this]; exact slice_mid' (by simp [hAl, hS, hK2l, hVLl, hTSl]; omega) rfl
  refine ⟨?_, ?_, ?_⟩
  · -- parseRecord
    unfold parseRecord
    simp only [h4]
    have c1 : ¬ d.length < 4 + 2 := by omega
    simp only [c1, ↓reduceIte, r1, hK2rd]
    cases hv : hasTtl v with
    | true =>
      simp only [hv, ↓reduceIte] at hEXl hEX ⊢
      have c2 : ¬ (4 + 2 + m.key.length + 24 > d.length) := by omega
      simp only [c2, ↓reduceIte]
      have e5 : slice d (4 + 2 + m.key.length + 16) 8 = EX := by
        have := r5; rw [hEXl] at this
        have h6 : 4 + 2 + m.key.length + 16 = 6 + m.key.length + 16 := by omega
        rw [h6]; exact this
      have hEXrd : rd EX = m.expiry := by rw [← hEX]; exact le8 _ hw.ex64
      have h62 : 4 + 2 = 6 := rfl
      have h63 : 4 + 2 + m.key.length = 6 + m.key.length := by omega
      have h64 : 4 + 2 + m.key.length + 8 = 6 + m.key.length + 8 := by omega
      rw [e5, hEXrd, h62, h63, h64, r2, r3, r4, hVLrd, hTSrd]
    | false =>
      simp only [hv, Bool.false_eq_true, ↓reduceIte] at hEXl hEX ⊢
      have c2 : ¬ (4 + 2 + m.key.length + 16 > d.length) := by omega
      simp only [c2, ↓reduceIte]
      have h62 : 4 + 2 = 6 := rfl
      have h63 : 4 + 2 + m.key.length = 6 + m.key.length := by omega
      have h64 : 4 + 2 + m.key.length + 8 = 6 + m.key.length + 8 := by omega
      rw [h62, h63, h64, r2, r3, r4, hVLrd, hTSrd, ← hw.v1 hv]
  · -- sectorHoldsRecord
    unfold sectorHoldsRecord
    simp only [h4]
    have c1 : ¬ d.length < 4 + 2 := by omega
    have c3 : ¬ (4 + 2 + m.key.length + 16 > d.length) := by omega
    have h62 : 4 + 2 = 6 := rfl
    have h64 : 6 + m.key.length + 8 = 6 + m.key.length + 8 := rfl
    simp [c1, r0, hArd, r1, hK2rd, c3, h62, r2, r3, hVLrd, r4, hTSrd]
  · unfold headerSize
    simp only [h4, List.length_append, hAl, hS, hK2l, hVLl, hTSl, hEXl]
    split <;> omega

/-- **Record round trip (v1, v2)**: parsing the head of an encoded extent gives back the key,
value length, timestamp and expiry; the value sits at `valueOffset`; the extent is a whole
number of blocks; the read-side identity check accepts it. -/
theorem record_roundtrip_unstamped (v sector : Nat) (m : RecMeta) (value : Bytes)
    (hw : WfRec v m value) (hv : v < SEQ_TOKEN_MIN_VERSION) :
    let e := encodeExtent v sector m value
    parseRecord v e = some m ∧ sectorHoldsRecord e m.key m.valueLen m.ts = true ∧
    slice e (valueOffset v m.key.length) m.valueLen = value := by
  intro e
  have he : e = le 2 SECTOR_MARKER ++ [0, 0] ++ serializeHead v m ++
      (value ++ zeros (extentBlocks v m.key.length m.valueLen * BSZ -
        (le 2 SECTOR_MARKER ++ [0, 0] ++ serializeHead v m ++ value).length)) := by
    simp only [e, encodeExtent]
    have : ¬ (v ≥ SEQ_TOKEN_MIN_VERSION) := by omega
    simp only [this, ↓reduceIte, List.append_assoc]
  obtain ⟨h1, h2, h3⟩ := parse_layout v m value [0, 0] (value ++ zeros (extentBlocks v m.key.length m.valueLen * BSZ -
        (le 2 SECTOR_MARKER ++ [0, 0] ++ serializeHead v m ++ value).length)) hw rfl
  rw [he]
  refine ⟨h1, h2, ?_⟩
  unfold valueOffset
  rw [hw.vlen]
  exact slice_mid' h3.symm rfl

/-- stamping rewrites exactly the two seq bytes -/
theorem stamp_shape (v sector : Nat) (A S rest : Bytes) (hA : A.length = 2) (hS : S.length = 2) :
    ∃ S', S'.length = 2 ∧ stamp v (A ++ (S ++ rest)) sector = A ++ (S' ++ rest) := by
  unfold stamp
  split
  · refine ⟨tokenBytes (recordSeqToken sector (A ++ (S ++ rest))), by simp [tokenBytes], ?_⟩
    have := patch_mid A S rest (tokenBytes (recordSeqToken sector (A ++ (S ++ rest)))) (by simp [tokenBytes, hS])
    rw [hA] at this; exact this
  · exact ⟨S, hS, rfl⟩

/-- **Record round trip (v3)**: the same, for the stamped extent. -/
theorem record_roundtrip_stamped (v sector : Nat) (m : RecMeta) (value : Bytes)
    (hw : WfRec v m value) (hv : v ≥ SEQ_TOKEN_MIN_VERSION) :
    let e := encodeExtent v sector m value
    parseRecord v e = some m ∧ sectorHoldsRecord e m.key m.valueLen m.ts = true ∧
    slice e (valueOffset v m.key.length) m.valueLen = value := by
  intro e
  generalize hpad : zeros (extentBlocks v m.key.length m.valueLen * BSZ -
        (le 2 SECTOR_MARKER ++ [0, 0] ++ serializeHead v m ++ value).length) = pad
  have he1 : e = stamp v ((le 2 SECTOR_MARKER ++ [0, 0] ++ serializeHead v m ++ value) ++ pad) sector := by
    simp only [e, encodeExtent, hv, ↓reduceIte, hpad]
  have hassoc : (le 2 SECTOR_MARKER ++ [0, 0] ++ serializeHead v m ++ value) ++ pad
      = le 2 SECTOR_MARKER ++ ([0, 0] ++ (serializeHead v m ++ (value ++ pad))) := by
    simp [List.append_assoc]
  have he0 : e = stamp v (le 2 SECTOR_MARKER ++ ([0, 0] ++ (serializeHead v m ++ (value ++ pad)))) sector := by
    rw [he1, hassoc]
  obtain ⟨S', hS', hst⟩ := stamp_shape v sector (le 2 SECTOR_MARKER) [0, 0] (serializeHead v m ++ (value ++ pad)) (by simp) rfl
  have he : e = le 2 SECTOR_MARKER ++ S' ++ serializeHead v m ++ (value ++ pad) := by
    rw [he0, hst]; simp [List.append_assoc]
  obtain ⟨h1, h2, h3⟩ := parse_layout v m value S' (value ++ pad) hw hS'
  rw [he]
  refine ⟨h1, h2, ?_⟩
  unfold valueOffset
  rw [hw.vlen]
  exact slice_mid' h3.symm rfl

/-- v3: the stamped token is the record token of the extent and it is stable under
re-stamping (the token ignores the seq field) -/
theorem token_stamp_idempotent (v sector : Nat) (A S rest : Bytes) (hA : A.length = 2) (hS : S.length = 2) :
    stamp v (stamp v (A ++ (S ++ rest)) sector) sector = stamp v (A ++ (S ++ rest)) sector := by
  unfold stamp
  by_cases h : headerOk v (A ++ (S ++ rest)) = true
  · simp only [h, ↓reduceIte]
    have hp := patch_mid A S rest (tokenBytes (recordSeqToken sector (A ++ (S ++ rest)))) (by simp [tokenBytes, hS])
    rw [hA] at hp
    rw [hp]
    have hok : headerOk v (A ++ (tokenBytes (recordSeqToken sector (A ++ (S ++ rest))) ++ rest)) = true := by
      -- headerOk reads the length and bytes 4..6 only
      unfold headerOk at h ⊢
      have e1 : (A ++ (tokenBytes (recordSeqToken sector (A ++ (S ++ rest))) ++ rest)).length = (A ++ (S ++ rest)).length := by
        simp [tokenBytes, hS]
      have e2 : slice (A ++ (tokenBytes (recordSeqToken sector (A ++ (S ++ rest))) ++ rest)) SECTOR_HEADER_SIZE 2
          = slice (A ++ (S ++ rest)) SECTOR_HEADER_SIZE 2 := by
        have h4 : SECTOR_HEADER_SIZE = 4 := rfl
        simp only [slice, h4]
        congr 1
        have a1 : (4 : Nat) = (A ++ tokenBytes (recordSeqToken sector (A ++ (S ++ rest)))).length := by simp [tokenBytes, hA]
        have a2 : (4 : Nat) = (A ++ S).length := by simp [hA, hS]
        rw [← List.append_assoc, ← List.append_assoc]
        conv => lhs; rw [a1]
        conv => rhs; rw [a2]
        simp
      rw [e1, e2]; exact h
    simp only [hok, ↓reduceIte]
    have ht := token_ignores_seq_field sector A (tokenBytes (recordSeqToken sector (A ++ (S ++ rest)))) S rest hA
      (by simp [tokenBytes]) hS
    rw [ht]
    have hp2 := patch_mid A (tokenBytes (recordSeqToken sector (A ++ (S ++ rest)))) rest
      (tokenBytes (recordSeqToken sector (A ++ (S ++ rest)))) rfl
    rw [hA] at hp2
    exact hp2
  · simp [h]

/-! ## retirement markers -/

theorem marker_length (sector remaining state : Nat) :
    (encodeMarker sector remaining state).length = DELETION_MARKER_SIZE := by
  simp [encodeMarker, tokenBytes, DELETION_MARKER, DELETION_MARKER_SIZE]

/-- **Marker round trip**: a block written by retirement is recognised as a complete marker
with the same remaining count at the same sector. -/
theorem marker_roundtrip (sector remaining : Nat) (h : remaining < 2 ^ 64) :
    isCompleteMarker (markerBlock sector remaining RETIREMENT_COMPLETE) sector remaining = true ∧
    isMarkerTag (markerBlock sector remaining RETIREMENT_COMPLETE) = true := by
  have hD : DELETION_MARKER.length = 8 := rfl
  generalize hR : le 8 remaining = R
  have hRl : R.length = 8 := by rw [← hR]; simp
  have hRrd : rd R = remaining := by rw [← hR]; exact le8 _ h
  have hst : (UInt8.ofNat RETIREMENT_COMPLETE) = 1 := rfl
  generalize hT : tokenBytes (seqToken sector (DELETION_MARKER ++ R ++ [1])) = T
  have hTl : T.length = 2 := by rw [← hT]; simp [tokenBytes]
  generalize hZ : zeros (BSZ - DELETION_MARKER_SIZE) = Z
  have hb : markerBlock sector remaining RETIREMENT_COMPLETE = DELETION_MARKER ++ R ++ T ++ [1] ++ Z := by
    simp only [markerBlock, encodeMarker, hR, hst, hT, hZ]
  rw [hb]
  generalize hd : DELETION_MARKER ++ R ++ T ++ [1] ++ Z = d
  have s0 : slice d 0 8 = DELETION_MARKER := by
    have : d = DELETION_MARKER ++ (R ++ T ++ [1] ++ Z) := by rw [← hd]; simp [List.append_assoc]
    rw [this]; exact slice_zero_prefix _ _ hD.symm
  have s8 : slice d 8 8 = R := by
    have : d = DELETION_MARKER ++ (R ++ (T ++ [1] ++ Z)) := by rw [← hd]; simp [List.append_assoc]
    rw [this]; exact slice_mid' hD.symm hRl.symm
  have s16 : slice d 16 2 = T := by
    have : d = (DELETION_MARKER ++ R) ++ (T ++ ([1] ++ Z)) := by rw [← hd]; simp [List.append_assoc]
    rw [this]; exact slice_mid' (by simp [hD, hRl]) hTl.symm
  have s18 : slice d 18 1 = [1] := by
    have : d = (DELETION_MARKER ++ R ++ T) ++ ([1] ++ Z) := by rw [← hd]; simp [List.append_assoc]
    rw [this]; exact slice_mid' (by simp [hD, hRl, hTl]) rfl
  have s016 : slice d 0 16 = DELETION_MARKER ++ R := by
    have : d = (DELETION_MARKER ++ R) ++ (T ++ [1] ++ Z) := by rw [← hd]; simp [List.append_assoc]
    rw [this]; exact slice_zero_prefix _ _ (by simp [hD, hRl])
  have hlen : d.length ≥ 19 := by rw [← hd]; simp [hD, hRl, hTl]; omega
  have htok : (markerToken sector d).toNat = rd T := by
    unfold markerToken
    rw [s016, s18, ← hT]
    simp only [tokenBytes, hst]
    rw [le2 _ (UInt16.toNat_lt _)]
  constructor
  · unfold isCompleteMarker
    have h19 : DELETION_MARKER_SIZE = 19 := rfl
    have h1 : RETIREMENT_COMPLETE = 1 := rfl
    simp only [h19, s0, s8, s18, s16, hRrd, htok, h1]
    simp [rd]; omega
  · unfold isMarkerTag
    simp [s0]; omega

/-- a marker block is never taken for a record head, a record extent never for a marker, and
an all-zero block is neither -/
theorem marker_not_head (sector remaining state : Nat) :
    rd (slice (markerBlock sector remaining state) 0 2) ≠ SECTOR_MARKER := by
  have : slice (markerBlock sector remaining state) 0 2 = [0, 68] := by
    simp [markerBlock, encodeMarker, DELETION_MARKER, slice]
  rw [this]; decide

theorem head_not_marker (v sector : Nat) (m : RecMeta) (value : Bytes) :
    isMarkerTag (encodeExtent v sector m value) = false := by
  have h0 : ∀ (rest : Bytes), isMarkerTag (le 2 SECTOR_MARKER ++ rest) = false := by
    intro rest
    unfold isMarkerTag
    have : (le 2 SECTOR_MARKER ++ rest) = 205 :: 171 :: rest := by
      simp [le, SECTOR_MARKER]
    rw [this]
    simp [slice, DELETION_MARKER]
  unfold encodeExtent
  simp only
  split
  · obtain ⟨S', _, hst⟩ := stamp_shape v sector (le 2 SECTOR_MARKER) [0, 0]
      (serializeHead v m ++ value ++ zeros (extentBlocks v m.key.length m.valueLen * BSZ -
        (le 2 SECTOR_MARKER ++ [0, 0] ++ serializeHead v m ++ value).length)) (by simp) rfl
    have e : le 2 SECTOR_MARKER ++ [0, 0] ++ serializeHead v m ++ value ++
        zeros (extentBlocks v m.key.length m.valueLen * BSZ -
          (le 2 SECTOR_MARKER ++ [0, 0] ++ serializeHead v m ++ value).length)
        = le 2 SECTOR_MARKER ++ ([0, 0] ++ (serializeHead v m ++ value ++ zeros (extentBlocks v m.key.length m.valueLen * BSZ -
          (le 2 SECTOR_MARKER ++ [0, 0] ++ serializeHead v m ++ value).length))) := by
      simp [List.append_assoc]
    rw [e, hst]; exact h0 _
  · have e : le 2 SECTOR_MARKER ++ [0, 0] ++ serializeHead v m ++ value ++
        zeros (extentBlocks v m.key.length m.valueLen * BSZ -
          (le 2 SECTOR_MARKER ++ [0, 0] ++ serializeHead v m ++ value).length)
        = le 2 SECTOR_MARKER ++ ([0, 0] ++ serializeHead v m ++ value ++ zeros (extentBlocks v m.key.length m.valueLen * BSZ -
          (le 2 SECTOR_MARKER ++ [0, 0] ++ serializeHead v m ++ value).length)) := by
      simp [List.append_assoc]
    rw [e]; exact h0 _

theorem zero_is_neither (n : Nat) :
    isMarkerTag (zeros n) = false ∧ rd (slice (zeros n) 0 2) ≠ SECTOR_MARKER := by
  constructor
  · unfold isMarkerTag
    by_cases h : n ≥ 8
    · have : slice (zeros n) 0 8 = zeros 8 := by
        simp [slice, zeros, List.take_replicate, Nat.min_eq_left h]
      rw [this]; simp [zeros, DELETION_MARKER]
    · simp [zeros] <;> omega
  · have : rd (slice (zeros n) 0 2) = 0 := by
      simp only [slice, zeros, List.drop_zero, List.take_replicate]
      generalize min 2 n = k
      induction k with
      | zero => simp [rd]
      | succ k ih => simp [List.replicate_succ, rd, ih]
    rw [this]; decide

/-! ## metadata copies -/

/-- successive generations alternate between the primary and the backup block, so a torn
metadata write never damages the newest valid copy -/
theorem meta_alternates_by_parity (g : Nat) :
    metaBlockFor g ≠ metaBlockFor (g + 1) ∧
    (metaBlockFor g = FEOX_METADATA_BLOCK ∨ metaBlockFor g = FEOX_METADATA_BACKUP_BLOCK) := by
  unfold metaBlockFor
  have h0 : FEOX_METADATA_BLOCK = 0 := rfl
  have h7 : FEOX_METADATA_BACKUP_BLOCK = 7 := rfl
  rw [h0, h7]
  rcases Nat.mod_two_eq_zero_or_one g with h | h
  · have : (g + 1) % 2 = 1 := by omega
    simp [h, this]
  · have : (g + 1) % 2 = 0 := by omega
    simp [h, this]

/-- the newest valid copy is the one read: with both valid the greater generation wins (the
primary on ties), with one valid that one, with none the primary (which then fails
validation) -/
theorem meta_select_newest_valid (p b : Bytes) :
    (∀ mp mb, Meta.decode p = some mp → Meta.decode b = some mb →
        selectMeta p b = if mb.generation > mp.generation then b else p) ∧
    (∀ mp, Meta.decode p = some mp → Meta.decode b = none → selectMeta p b = p) ∧
    (∀ mb, Meta.decode p = none → Meta.decode b = some mb → selectMeta p b = b) ∧
    (Meta.decode p = none → Meta.decode b = none → selectMeta p b = p) := by
  refine ⟨?_, ?_, ?_, ?_⟩
  · intro mp mb h1 h2; simp [selectMeta, h1, h2]
  · intro mp h1 h2; simp [selectMeta, h1, h2]
  · intro mb h1 h2; simp [selectMeta, h1, h2]
  · intro h1 h2; simp [selectMeta, h1, h2]

/-! ## allocation journal -/

/-- the journal checksum does not depend on the checksum field (12..16) nor on its complement
(32..36): stamping a body leaves its checksum unchanged, so the stored checksum verifies -/
theorem journal_checksum_stamp (a c0 b c1 rest : Bytes)
    (ha : a.length = 12) (hc0 : c0.length = 4) (hb : b.length = 16) (hc1 : c1.length = 4)
    (x y : Bytes) (hx : x.length = 4) (hy : y.length = 4) :
    journalChecksum (a ++ c0 ++ b ++ c1 ++ rest) = journalChecksum (a ++ x ++ b ++ y ++ rest) := by
  unfold journalChecksum
  have s1 : ∀ (p q : Bytes), p.length = 4 → q.length = 4 →
      slice (a ++ p ++ b ++ q ++ rest) 0 12 = a ∧ slice (a ++ p ++ b ++ q ++ rest) 16 16 = b ∧
      (a ++ p ++ b ++ q ++ rest).drop 36 = rest := by
    intro p q hp hq
    refine ⟨?_, ?_, ?_⟩
    · have : a ++ p ++ b ++ q ++ rest = a ++ (p ++ b ++ q ++ rest) := by simp [List.append_assoc]
      rw [this]; exact slice_zero_prefix _ _ ha.symm
    · have : a ++ p ++ b ++ q ++ rest = (a ++ p) ++ (b ++ (q ++ rest)) := by simp [List.append_assoc]
      rw [this]; exact slice_mid' (by simp [ha, hp]) hb.symm
    · have : a ++ p ++ b ++ q ++ rest = (a ++ p ++ b ++ q) ++ rest := by simp [List.append_assoc]
      rw [this]
      have : (36 : Nat) = (a ++ p ++ b ++ q).length := by simp [ha, hp, hb, hq]
      rw [this]; simp
  obtain ⟨e1, e2, e3⟩ := s1 c0 c1 hc0 hc1
  obtain ⟨f1, f2, f3⟩ := s1 x y hx hy
  rw [e1, e2, e3, f1, f2, f3]

/-- generations alternate between the two journal slots -/
theorem journal_slots_alternate (p : JPos) (h : p.slot < ALLOCATION_JOURNAL_SLOTS) :
    p.next.slot ≠ p.slot ∧ p.next.next.slot = p.slot ∧ p.next.gen = p.gen + 1 := by
  have h2 : ALLOCATION_JOURNAL_SLOTS = 2 := rfl
  rw [h2] at h
  simp only [JPos.next, h2]
  have : p.slot = 0 ∨ p.slot = 1 := by omega
  rcases this with h0 | h0 <;> simp [h0]

/-! ### non-vacuity -/

example : WfRec 3 ⟨[107, 49], 5, 1700000000, 0⟩ [1, 2, 3, 4, 5] :=
  ⟨by decide, by decide, rfl, by decide, by decide, by decide, by intro h; cases h⟩

example : WfRec 1 ⟨[7, 7, 7], 1, 5, 0⟩ [9] :=
  ⟨by decide, by decide, rfl, by decide, by decide, by decide, fun _ => rfl⟩

/-- **Metadata image round trip**: for every metadata value whose fields fit their widths, the
field extraction of `Metadata::from_bytes` applied to the 136-byte image returns exactly that
value (offsets taken from the regenerated constants) … -/
theorem metadata_roundtrip (m : Meta) (h : m.Fits) : Meta.rawDecode m.encode = m :=
  meta_fields_roundtrip m h

/-- … and the image has the documented size -/
theorem metadata_image_size (m : Meta) (h : m.Fits) : m.encode.length = METADATA_ENCODED_SIZE :=
  meta_encode_length m h

/-- **Journal slot round trip**: for every generation, state and extent list that the encoders
accept and that is valid for the device (`JournalOK`), `decode_slot` of the stamped image —
followed by whatever the rest of the 3-block slot holds — returns exactly that generation, slot
number and extent list (checksum and complement verify, every entry is read back). -/
theorem journal_roundtrip (gen state total slot : Nat) (exts : List (Nat × Nat)) (tail : Bytes)
    (h : JournalOK gen state total exts) :
    decodeSlot (stampJournal (journalBody gen state exts) ++ tail) total slot =
      .ok { generation := gen, slot := slot, extents := exts } :=
  journal_slot_roundtrip gen state total slot exts tail h

/-- the CLEAR record of `encode_clear` in particular -/
theorem journal_clear_roundtrip (gen total slot : Nat) (tail : Bytes) (hg : 0 < gen ∧ gen < 2 ^ 64) :
    ∃ img, encodeClear gen = .ok img ∧
      decodeSlot (img ++ tail) total slot = .ok { generation := gen, slot := slot, extents := [] } := by
  refine ⟨stampJournal (journalBody gen JOURNAL_CLEAR []), ?_, ?_⟩
  · have : (gen == 0) = false := by simp; omega
    simp [encodeClear, this]
  · exact journal_slot_roundtrip gen JOURNAL_CLEAR total slot [] tail
      ⟨hg, Or.inl ⟨rfl, rfl⟩, by decide, by simp, by simp, by decide⟩

/-- **Which journal slot is in force**: next to a valid slot of generation `g`, a valid image of
a greater-or-equal generation in the later slot wins; bytes that `decode_slot` rejects (a torn
write that fails its checksum) or an all-zero slot leave the state of the valid slot in force.
This is the byte-level half of the crash argument of C03/C04: an interrupted journal write
yields the old or the new journal state, never a third one. -/
theorem journal_slot_selection (s0 s1 : Bytes) (total : Nat) (A B : JournalState)
    (h0 : s0.length = JOURNAL_SLOT_SIZE) (h1 : s1.length = JOURNAL_SLOT_SIZE)
    (hz0 : allZero s0 = false) (hA : decodeSlot s0 total 0 = .ok A) :
    (allZero s1 = false → decodeSlot s1 total 1 = .ok B → B.generation ≥ A.generation →
        decodeJournal (s0 ++ s1) total = .ok B) ∧
    (allZero s1 = false → decodeSlot s1 total 1 = .invalid → decodeJournal (s0 ++ s1) total = .ok A) ∧
    (allZero s1 = true → decodeJournal (s0 ++ s1) total = .ok A) :=
  decodeJournal_two_slots s0 s1 total A B h0 h1 hz0 hA

/-! ## the independent reader on a file that represents a tiling (`Fmt.Abstract`, `Fmt.RepCheck`) -/

/-- **An independent reader of a flushed file finds exactly the live keys.**  If the device file
represents a tiling of its data area by exactly the records of an index (`Fmt.repTiledB`, decided on
every file the real store flushes and closes in the correspondence runs, with the store's own
index), the recovery scan of the documented layout accepts exactly those records and ends with
the newest generation of each key. -/
theorem reader_finds_exactly_the_index {img : Image} {v lo total : Nat} {lives : List Live}
    {o : Opts} {journal : List (Nat × Nat)} (hro : o.readOnly = false)
    (h : repTiledB img v lo total lives = true) :
    ∃ L, L.length = lives.length ∧ ∀ st, GoodOutcome (infoOf lives) L st (scan img v total o journal lo st) := by
  obtain ⟨L, _, hlen, hscan⟩ := repTiled_sound (o := o) (journal := journal) hro h
  exact ⟨L, hlen, hscan⟩

/-- non-vacuity of `Rep` / `TiledBy`: a blank data area represents the all-free disk, which is
tiled by no record (what a fresh device is) -/
theorem blank_data_area_represents_free {img : Image} {v lo total : Nat} {info : Feox.Proto.Gen → RecMeta}
    (hz : ∀ p, lo ≤ p → p < total → blockAt img p = zeros BSZ) :
    Rep img v lo total info (fun _ => Feox.Proto.Blk.zero) ∧
    Feox.Proto.TiledBy (fun _ => Feox.Proto.Blk.zero) total [] lo := by
  constructor
  · intro p h1 h2
    simp only [LooksFree, hz p h1 h2, zeros_length, true_and]
    have hn := zero_is_neither BSZ
    refine ⟨?_, hn.2⟩
    have h1 := hn.1
    unfold isMarkerTag at h1
    intro heq
    rw [heq] at h1
    simp [BSZ, FEOX_BLOCK_SIZE] at h1
  · have : ∀ n p, total - p ≤ n → Feox.Proto.TiledBy (fun _ => Feox.Proto.Blk.zero) total [] p := by
      intro n
      induction n with
      | zero => intro p hp; exact Feox.Proto.TiledBy.done (by omega)
      | succ n ih =>
        intro p hp
        by_cases hge : total ≤ p
        · exact Feox.Proto.TiledBy.done hge
        · exact Feox.Proto.TiledBy.free (by omega) (Or.inl rfl) (by intro r hr; cases hr) (ih (p + 1) (by omega))
    exact this (total - lo) lo (Nat.le_refl _)

end Feox.C10
