import Feox.Props.C13
import Feox.Fmt.Acct
/-!
# C13 (continued) — the counters a recovery rebuilds are exact

`Props/C13.lean` proves exact accounting on the reference map for every API call.  The counters a store
starts with after an open come from the recovery scan: on an image that represents a tiled data area,
whatever the order and number of generations of each key on the device, the scan ends with `count` = the
number of keys its table shows and `memory` = the sum of their footprints (`Fmt.Acct.scan_acct`); the table
is sorted by key with one entry per key.
-/
namespace Feox.C13
open Feox.Fmt Feox.Proto Feox.Gen

/-- **After recovery `len()` and `memory_usage()` are those of the keys recovery shows** -/
theorem recovery_counters_exact {img : Image} {v lo total : Nat} {o : Opts} {journal : List (Nat × Nat)}
    {info : Gen → RecMeta} {d : Disk} {L : List Rec} (hro : o.readOnly = false)
    (hrep : Rep img v lo total info d) (ht : TiledBy d total L lo) (f : Feox.Fsm.State) (st' : ScanSt)
    (hs : scan img v total o journal lo { fsm := f } = .ok st') :
    st'.count = st'.live.length ∧
    st'.memory = (st'.live.map fun l => o.recSize + l.key.length + l.valueLen).sum ∧
    st'.live.Pairwise (fun a b => bytesLt a.key b.key = true) := by
  have h := scan_acct (o := o) (journal := journal) hro hrep (total - lo) lo L { fsm := f } st' (Nat.le_refl _) (Nat.le_refl _) ht
    (acct_init o f) hs
  exact ⟨h.count, h.memory, h.sorted⟩

end Feox.C13
