import Feox.Proto.Disk
import Feox.Proto.Txn
import Feox.Proto.Alloc
import Feox.Fmt.RepCheck
/-!
# C03 — any crash leaves a file that reopens to authentic, untorn contents

Block-level theorems about `Feox.Proto` (abstract disk, journal masking, the scan).
A write transaction is: intent journal durable → data writes → fsync → journal clear durable.
A retirement transaction is: intent journal durable → marker writes → fsync → clear durable.
At every crash point of either, recovery (replay of the durable journal, then the scan)
succeeds and finds an exact, known set of complete record extents — never a tail block, never
junk, never bytes embedded in a value, never a half-written extent.
-/
namespace Feox.C03
open Feox.Proto

/-- **Recovery of a tiled disk succeeds and returns exactly the intact extents** -/
theorem recover_ok {d : Disk} {hi lo : Nat} {L : List Rec} (h : TiledBy d hi L lo) :
    scan d hi (hi - lo) lo = some L :=
  scan_tiled h (hi - lo) (Nat.le_refl _)

/-- … each of which is one complete generation: all `n` blocks of the same generation, in order
(no mixture of two generations, no half-written record), inside the data area -/
theorem recovered_complete {d : Disk} {hi lo : Nat} {L : List Rec} (h : TiledBy d hi L lo) :
    ∀ r ∈ L, (∀ i, i < r.2.2 → d (r.1 + i) = .data r.2.1 i r.2.2) ∧ 0 < r.2.2 ∧ lo ≤ r.1 ∧ r.1 + r.2.2 ≤ hi := by
  intro r hr
  obtain ⟨hint, h1, h2⟩ := h.recs.1 r hr
  exact ⟨hint.2, hint.1, h1, h2⟩

/-- **Crash during a write transaction, after the intent is durable**: the allocated region
`[s, s+n)` held only free-looking blocks; whatever the crash leaves *inside* it (lost, reordered,
sector-torn writes: `d'` is arbitrary there) recovery returns exactly the records that were
there before — the half-written record never surfaces -/
theorem write_txn_crash_safe {d d' : Disk} {hi lo : Nat} {L : List Rec} (h : TiledBy d hi L lo)
    (s n : Nat) (hn : 0 < n) (hb : s + n ≤ hi) (hfree : ∀ q, s ≤ q → q < s + n → FLs d q)
    (houtside : ∀ b, ¬ (s ≤ b ∧ b < s + n) → d b = d' b) :
    scan (maskRun d' s (s + n)) hi (hi - lo) lo = some L := by
  obtain ⟨hal, hfil⟩ := h.aligned_of_fls s (s + n) (by omega) hfree
  have hm := h.mask s (s + n) hb hal
  rw [hfil] at hm
  rw [← maskRun_ignores houtside]
  exact scan_tiled hm _ (Nat.le_refl _)

/-- **Commit of a write transaction** (data fsynced, journal clear durable): the new record —
and nothing else — joins the recoverable set, provided no surviving marker spans into the
region (guaranteed by prefix-of-a-maximal-free-run allocation, `C06.alloc_prefix_of_run`) -/
theorem write_txn_commit {d d' : Disk} {hi lo : Nat} {L : List Rec} (h : TiledBy d hi L lo)
    (s n : Nat) (g : Gen) (hn : 0 < n) (hb : s + n ≤ hi) (hlo : lo ≤ s)
    (hfree : ∀ q, s ≤ q → q < s + n → FLs d q)
    (hsame : ∀ b, ¬ (s ≤ b ∧ b < s + n) → d' b = d b) (hnew : Intact d' s g n)
    (hnospan : ∀ p r, p < s → d p = .mark r → p + r ≤ s) :
    ∃ L', scan d' hi (hi - lo) lo = some L' ∧ ∀ r, r ∈ L' ↔ r ∈ L ∨ r = (s, g, n) := by
  have hdis : ∀ r ∈ L, r.1 + r.2.2 ≤ s ∨ s + n ≤ r.1 := by
    obtain ⟨hal, _⟩ := h.aligned_of_fls s (s + n) (by omega) hfree
    intro r hr
    rcases hal r hr with h1 | h1
    · -- a record inside a region of free-looking blocks: impossible
      exfalso
      obtain ⟨hint, _, _⟩ := h.recs.1 r hr
      have hf := hfree r.1 h1.1 (by have := hint.1; omega)
      have hd := hint.2 0 hint.1
      simp only [Nat.add_zero] at hd
      rcases hf with hz | ⟨r', hm⟩
      · rw [hd] at hz; cases hz
      · rw [hd] at hm; cases hm
    · exact h1
  obtain ⟨L', ht, hmem⟩ := TiledBy.fill s n g hn hb hsame hnew hnospan hlo h hdis hfree
  exact ⟨L', scan_tiled ht _ (Nat.le_refl _), hmem⟩

/-- **Crash during a retirement transaction, after the intent is durable**: the region is a union
of whole record extents and free-looking blocks (`Aligned`); whatever the crash leaves inside,
recovery returns exactly the records outside the region — every retired generation is gone as
a whole, no other record is touched -/
theorem retire_txn_crash_safe {d d' : Disk} {hi lo : Nat} {L : List Rec} (h : TiledBy d hi L lo)
    (s e : Nat) (he : e ≤ hi) (hal : Aligned L s e)
    (houtside : ∀ b, ¬ (s ≤ b ∧ b < e) → d b = d' b) :
    scan (maskRun d' s e) hi (hi - lo) lo = some (L.filter (outside s e)) := by
  rw [← maskRun_ignores houtside]
  exact scan_tiled (h.mask s e he hal) _ (Nat.le_refl _)

/-- before an intent is durable nothing has been written to the data area: recovery is the plain
scan; and a journal write is the only pending write of its phase, so a torn journal slot falls
back to the other slot (checksum assumption, see DESIGN.md §2): the effective journal is either
the one before or the one intended — both cases are the two theorems above -/
theorem before_intent {d : Disk} {hi lo : Nat} {L : List Rec} (h : TiledBy d hi L lo) :
    scan d hi (hi - lo) lo = some L := recover_ok h

/-! ### non-vacuity: a concrete tiled disk -/

def demoDisk : Disk := fun b =>
  if b = 16 then .data 7 0 2 else if b = 17 then .data 7 1 2 else if b = 18 then .mark 2 else if b = 19 then .mark 1 else .zero

example : scan demoDisk 22 6 16 = some [(16, 7, 2)] := by decide
-- a torn rewrite of blocks 18..19 under an intent journal is invisible to recovery
example : scan (maskRun (fun b => if b = 18 then .junk else demoDisk b) 18 20) 22 6 16 = some [(16, 7, 2)] := by decide

/-! ### from the transaction theorems to every crash point of a device trace -/

/-- **At every point of a device trace that follows the journal discipline, every crash image shows
recovery the last synced disk under the old or the new journal** — whatever subset, order or
tearing of the un-synced writes the crash left, and whether or not the journal slot write in
flight landed.  (`Txn.step?` is run on every recorded trace: the store's and recovery's own.)
Together with the transaction theorems above — which say what the scan returns from a synced disk
under an active or a clear journal — this covers every crash point, not the sampled ones. -/
theorem every_crash_point (d : Disk) (evs : List Txn.Ev) (st : Txn.St)
    (h : evs.foldlM Txn.step? { disk := d } = some st) (c : Disk) (j : Txn.Runs) (hc : Txn.CrashImage st c j) :
    Txn.view c j = Txn.view st.disk j :=
  Txn.crash_view_run d evs st h c j hc

/-- with a clear journal on the device, nothing in the data area was un-synced: the image *is* the
synced disk (the journal is cleared last) -/
theorem clear_journal_is_quiescent (d : Disk) (evs : List Txn.Ev) (st : Txn.St)
    (h : evs.foldlM Txn.step? { disk := d } = some st) (c : Disk) (hc : Txn.CrashImage st c [])
    (hclear : st.jdur = []) : c = st.disk :=
  Txn.clear_journal_means_synced (Txn.run_inv evs _ st (Txn.inv_init d) h) c hc hclear

/-- one run `[s, e)` in the journal: the view is the `maskRun` the transaction theorems speak about -/
theorem view_single_run (d : Disk) (s e : Nat) : Txn.view d [(s, e)] = maskRun d s e := by
  funext b
  simp only [Txn.view, maskRun, List.find?_cons, List.find?_nil, Txn.covers]
  by_cases hb : s ≤ b ∧ b < e
  · simp [hb.1, hb.2]
  · have : (decide (s ≤ b) && decide (b < e)) = false := by
      simp only [Bool.and_eq_false_iff, decide_eq_false_iff_not]
      by_cases h1 : s ≤ b
      · right; exact fun h2 => hb ⟨h1, h2⟩
      · left; exact h1
    simp [this, hb]

/-! ### the hypothesis `MarkOK` and the allocation protocol (finding F7) -/

/-- **Writing a record over the front of a free run keeps every marker's span free of records** —
whatever the markers of the run claimed.  (`allocate_sectors` hands out prefixes of maximal free
runs; since the fix 2dcc3ae a batch writes or journals its extents before any other batch can
allocate, so every write is of this kind.) -/
theorem allocation_from_the_front_keeps_spans {d : Disk} {lo hi s n : Nat} {g : Gen} (hok : Alloc.MarkOKAll d lo hi)
    (hprefix : s = lo ∨ ¬ FLs d (s - 1)) : Alloc.MarkOKAll (Alloc.writeRec d s n g) lo hi :=
  Alloc.write_prefix_keeps_markOK hok hprefix

/-- a record written *behind* an unwritten block of the same run (two interleaved batches before the
fix; an extent handed back unscrubbed) sits inside the span of the stale head, and the scan jumps
over it although it is intact -/
theorem interleaved_batches_lose_a_record :
    Alloc.MarkOKAll Alloc.staleHead 16 24 ∧ ¬ Alloc.MarkOKAll (Alloc.writeRec Alloc.staleHead 18 1 9) 16 24 ∧
    scan (Alloc.writeRec Alloc.staleHead 18 1 9) 24 8 16 = some [(16, 1, 1)] ∧
    Intact (Alloc.writeRec Alloc.staleHead 18 1 9) 18 9 1 :=
  ⟨Alloc.staleHead_ok, Alloc.write_inside_run_breaks_markOK, Alloc.skipped_by_the_scan.1, Alloc.skipped_by_the_scan.2⟩

/-! ### the same at byte level (`Fmt.Abstract`) -/

/-- **The byte-level recovery scan refines the block-level one.**  On a device image that
represents (`Fmt.Rep`) a tiled disk, the loop of `scan_and_rebuild_indexes` — as modelled branch for
branch by `Fmt.scan`, which is compared with the real recovery on every image of every run —
accepts exactly the record generations of the tiling, in device order, keeps the newest of each key
(ties to the later extent), and never fails with `CorruptedRecord`, an ambiguous tombstone or an
out-of-range index: it never interprets a tail block, bytes embedded in a value, or anything inside
a marker's span.  Together with `write_txn_crash_safe`, `retire_txn_crash_safe` and
`every_crash_point` (every crash image masks to a tiled disk) this is the byte-level form of "any
crash leaves a file that reopens to authentic, untorn contents". -/
theorem byte_scan_of_tiled {img : Feox.Fmt.Image} {v lo total : Nat} {o : Feox.Fmt.Opts} {journal : List (Nat × Nat)}
    {info : Gen → Feox.Fmt.RecMeta} {d : Disk} {L : List Rec}
    (hro : o.readOnly = false) (hrep : Feox.Fmt.Rep img v lo total info d) (ht : TiledBy d total L lo) (st : Feox.Fmt.ScanSt) :
    Feox.Fmt.GoodOutcome info L st (Feox.Fmt.scan img v total o journal lo st) :=
  Feox.Fmt.scan_rep_tiled hro hrep (total - lo) lo L st (Nat.le_refl _) (Nat.le_refl _) ht

end Feox.C03
