import Feox.Props.C08
import Feox.Fmt.ReadBack
/-!
# C08 (continued) — what a device read of a record's extent yields

`Props/C08.lean` proves the pin protocol (the extent's blocks are not overwritten while a reader holds
its pin) and that the post-read identity check rejects markers, zeros and foreign records.  The missing
positive half is here: while the extent holds the bytes the record writer produced for this generation,
the slice the read path takes is the generation's value and the identity check accepts it.
-/
namespace Feox.C08
open Feox.Fmt Feox.Gen Feox.C10

/-- **A read from the device returns the generation's own bytes** -/
theorem device_read_returns_written_value (img : Image) (v s : Nat) (m : RecMeta) (value : Bytes) (hw : WfRec v m value)
    (hh : HoldsExtent img s (encodeExtent v s m value) (extentBlocks v m.key.length m.valueLen)) :
    slice (extentBytes img s (extentBlocks v m.key.length m.valueLen)) (valueOffset v m.key.length) m.valueLen = value ∧
    sectorHoldsRecord (extentBytes img s (extentBlocks v m.key.length m.valueLen)) m.key m.valueLen m.ts = true :=
  written_value_is_read_back img v s m value hw hh

end Feox.C08
