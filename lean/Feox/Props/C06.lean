import Feox.Fsm.Steps
/-!
# C06 — the free-space allocator never double-allocates, loses or fragments space

Property theorems about `Feox.Fsm` (the model of `src/storage/free_space.rs`).
`covers s.runs b` = "block `b` is free".  The outstanding allocations are the complement of
the free set inside the data area, so "overlaps no outstanding allocation" is
"lies inside the free set" (`alloc_spec`), and the free set shrinks/grows by exactly the
range handed out / given back.
-/
namespace Feox.C06
open Feox.Fsm

/-- A fresh manager initialised on a device with a data area: the invariant holds and the
free set is exactly the data area. -/
theorem init_inv {dev : Nat} {s : State} (h : initDevice Fsm.new dev = .ok s) :
    Inv s ∧ s.deviceSize = dev ∧ ∀ b, covers s.runs b ↔ DS ≤ b ∧ b < dev / BS := by
  unfold initDevice at h
  simp only at h
  split at h
  · cases h
  · rename_i hgt
    have hc : Core { (Fsm.new) with deviceSize := dev } :=
      ⟨by simp [Fsm.new], by simp [Fsm.new], by simp [Fsm.new], by simp [Fsm.new, sumSizes]⟩
    obtain ⟨s', hs', hcore, hmem, hdev, _⟩ :=
      insertFree_ok (r := { start := DS, size := dev / BS - DS }) hc (by simp; omega) (by simp)
        (by intro _; simp; omega) (by simp [Fsm.new])
    rw [hs'] at h
    cases h
    have hruns : s.runs = [{ start := DS, size := dev / BS - DS }] := by
      have := insertFree_ok_shape hs'
      rw [this]; simp [Fsm.new, insertRun]
    refine ⟨⟨hcore.sep, hcore.pos, hcore.bnd, hcore.total, ?_⟩, by simpa [Fsm.new] using hdev, ?_⟩
    · have := insertFree_ok_shape hs'
      subst this
      simp [fragOf, updateFrag, Fsm.new, insertRun]
    · intro b
      unfold covers
      rw [hruns]
      simp
      omega

theorem inv_new : Inv Fsm.new :=
  ⟨by simp [Fsm.new], by simp [Fsm.new], by simp [Fsm.new], by simp [Fsm.new, sumSizes],
   by simp [fragOf, updateFrag, Fsm.new]⟩

/-- the recovery path: bound set on an empty manager, free list then built by releases -/
theorem inv_setSize_new (dev : Nat) : Inv (setDeviceSize Fsm.new dev) :=
  ⟨by simp [Fsm.new, setDeviceSize], by simp [Fsm.new, setDeviceSize], by simp [Fsm.new, setDeviceSize],
   by simp [Fsm.new, setDeviceSize, sumSizes], by simp [fragOf, updateFrag, Fsm.new, setDeviceSize]⟩

/-- everything `allocate` does on the success path, in one statement -/
theorem alloc_ok_aux {s s' : State} {n a : Nat} (hi : Inv s) (h : allocate s n = (.ok a, s')) :
    0 < n ∧ Inv s' ∧ s'.deviceSize = s.deviceSize ∧
    (∃ r ∈ s.runs, r.start = a ∧ n ≤ r.size ∧
      (∀ r' ∈ s.runs, n ≤ r'.size → (r.size < r'.size ∨ (r.size = r'.size ∧ r.start ≤ r'.start))) ∧
      (∀ x, x ∈ s'.runs ↔ (x ∈ s.runs ∧ x ≠ r) ∨ (n < r.size ∧ x = ⟨r.start + n, r.size - n⟩))) := by
  have hc := hi.core
  unfold allocate at h
  split at h
  · cases h
  · rename_i hn
    have hn0 : 0 < n := by simp at hn; omega
    split at h
    · cases h
    · rename_i sp hbf
      obtain ⟨hsp, hsz, hmin⟩ := bestFit_some hbf
      have hpos := hc.pos sp hsp
      have hvalid : isValidFree s.deviceSize sp = true :=
        isValidFree_of hpos.1 hpos.2 (fun hd => hc.bnd hd sp hsp)
      simp only [hvalid, Bool.not_true, Bool.false_eq_true, ↓reduceIte] at h
      obtain ⟨hc1, hmem1, hdev1⟩ := takeRun_core hc hsp
      split at h
      · rename_i hgt
        have hsepr : ∀ x ∈ (takeRun s sp).runs,
            Gap x ⟨sp.start + n, sp.size - n⟩ ∨ Gap ⟨sp.start + n, sp.size - n⟩ x := by
          intro x hx
          obtain ⟨hx1, hx2⟩ := (hmem1 x).mp hx
          rcases sep_or hc.sep hx1 hsp with h3 | h3 | h3
          · exact absurd h3 hx2
          · left; unfold Gap at *; simp; omega
          · right; unfold Gap at *; simp; omega
        obtain ⟨s2, hs2, hc2, hmem2, hdev2, _⟩ :=
          insertFree_ok (r := ⟨sp.start + n, sp.size - n⟩) hc1 (by simp; omega) (by simp; omega)
            (by intro hd; rw [hdev1] at hd; have := hc.bnd hd sp hsp; simp; rw [hdev1]; omega) hsepr
        rw [hs2] at h
        simp only [Prod.mk.injEq, Except.ok.injEq] at h
        obtain ⟨rfl, rfl⟩ := h
        refine ⟨hn0, inv_updateFrag hc2, by simp [hdev2, hdev1], sp, hsp, rfl, hsz, hmin, ?_⟩
        intro x
        simp only [updateFrag_runs, hmem2, hmem1]
        constructor
        · rintro (h | h)
          · right; exact ⟨hgt, h⟩
          · left; exact h
        · rintro (h | ⟨_, h⟩)
          · right; exact h
          · left; exact h
      · rename_i hle
        simp only [Prod.mk.injEq, Except.ok.injEq] at h
        obtain ⟨rfl, rfl⟩ := h
        refine ⟨hn0, inv_updateFrag hc1, by simp [hdev1], sp, hsp, rfl, hsz, hmin, ?_⟩
        intro x
        simp only [updateFrag_runs, hmem1]
        constructor
        · intro h; left; exact h
        · rintro (h | ⟨h, _⟩)
          · exact h
          · omega

/-- **Allocation**: a successful call returns a run of exactly `n > 0` blocks that lies in the
data area, inside the device, and entirely inside the free set (so it overlaps no outstanding
allocation); afterwards the free set is the old one minus exactly that run, and the invariant
still holds. -/
theorem alloc_spec {s s' : State} {n a : Nat} (hi : Inv s) (h : allocate s n = (.ok a, s')) :
    0 < n ∧ DS ≤ a ∧ (0 < s.deviceSize → a + n ≤ s.deviceSize / BS) ∧
    (∀ b, a ≤ b → b < a + n → covers s.runs b) ∧
    (∀ b, covers s'.runs b ↔ covers s.runs b ∧ ¬(a ≤ b ∧ b < a + n)) ∧ Inv s' := by
  obtain ⟨hn, hi', _, r, hr, rfl, hsz, _, hmem⟩ := alloc_ok_aux hi h
  have hc := hi.core
  have hpos := hc.pos r hr
  refine ⟨hn, hpos.2, ?_, ?_, ?_, hi'⟩
  · intro hd; have := hc.bnd hd r hr; omega
  · intro b h1 h2; exact ⟨r, hr, h1, by omega⟩
  · intro b
    unfold covers
    constructor
    · rintro ⟨x, hx, hb1, hb2⟩
      rcases (hmem x).mp hx with ⟨hx1, hx2⟩ | ⟨hlt, rfl⟩
      · refine ⟨⟨x, hx1, hb1, hb2⟩, ?_⟩
        rcases sep_or hc.sep hx1 hr with h3 | h3 | h3
        · exact absurd h3 hx2
        · unfold Gap at h3; omega
        · unfold Gap at h3; omega
      · simp at hb1 hb2
        exact ⟨⟨r, hr, by omega, by omega⟩, by omega⟩
    · rintro ⟨⟨x, hx, hb1, hb2⟩, hnot⟩
      by_cases hxr : x = r
      · subst hxr
        have : n < x.size := by omega
        exact ⟨⟨x.start + n, x.size - n⟩, (hmem _).mpr (Or.inr ⟨this, rfl⟩), by simp; omega, by simp; omega⟩
      · exact ⟨x, (hmem x).mpr (Or.inl ⟨hx, hxr⟩), hb1, hb2⟩

/-- **Placement**: the run handed out is a *prefix* of the `(size, start)`-least free run that
fits (best fit).  `Proto` relies on the prefix part: a block of a free run is never allocated
before the run's first block. -/
theorem alloc_prefix_of_run {s s' : State} {n a : Nat} (hi : Inv s) (h : allocate s n = (.ok a, s')) :
    ∃ r ∈ s.runs, r.start = a ∧ n ≤ r.size ∧
      ∀ r' ∈ s.runs, n ≤ r'.size → (r.size < r'.size ∨ (r.size = r'.size ∧ r.start ≤ r'.start)) := by
  obtain ⟨_, _, _, r, hr, ha, hsz, hmin, _⟩ := alloc_ok_aux hi h
  exact ⟨r, hr, ha, hsz, hmin⟩

/-- **Failure**: with `n > 0` the call fails iff no free run is long enough, and then the error
is `OutOfSpace`. -/
theorem alloc_fails_iff {s : State} {n : Nat} (hi : Inv s) (hn : 0 < n) :
    ((∃ e, (allocate s n).1 = .error e) ↔ ∀ r ∈ s.runs, r.size < n) ∧
    (∀ e, (allocate s n).1 = .error e → e = .OutOfSpace) := by
  have hc := hi.core
  cases hbf : bestFit n s.runs with
  | none =>
    have hall := bestFit_none.mp hbf
    have hres : allocate s n = (.error .OutOfSpace, s) := by
      unfold allocate
      have : (n == 0) = false := by simp; omega
      simp [this, hbf]
    rw [hres]
    refine ⟨⟨fun _ => hall, fun _ => ⟨.OutOfSpace, rfl⟩⟩, ?_⟩
    intro e he
    simp only [Except.error.injEq] at he
    exact he.symm
  | some sp =>
    obtain ⟨hsp, hsz, _⟩ := bestFit_some hbf
    have hne : ¬ ∀ r ∈ s.runs, r.size < n := fun hh => by have := hh sp hsp; omega
    -- the call succeeds
    have hok : ∃ a s', allocate s n = (.ok a, s') := by
      have hpos := hc.pos sp hsp
      have hvalid : isValidFree s.deviceSize sp = true :=
        isValidFree_of hpos.1 hpos.2 (fun hd => hc.bnd hd sp hsp)
      obtain ⟨hc1, hmem1, hdev1⟩ := takeRun_core hc hsp
      unfold allocate
      have : (n == 0) = false := by simp; omega
      simp only [this, Bool.false_eq_true, ↓reduceIte, hbf, hvalid, Bool.not_true]
      split
      · rename_i hgt
        have hsepr : ∀ x ∈ (takeRun s sp).runs,
            Gap x ⟨sp.start + n, sp.size - n⟩ ∨ Gap ⟨sp.start + n, sp.size - n⟩ x := by
          intro x hx
          obtain ⟨hx1, hx2⟩ := (hmem1 x).mp hx
          rcases sep_or hc.sep hx1 hsp with h3 | h3 | h3
          · exact absurd h3 hx2
          · left; unfold Gap at *; simp; omega
          · right; unfold Gap at *; simp; omega
        obtain ⟨s2, hs2, _⟩ :=
          insertFree_ok (r := ⟨sp.start + n, sp.size - n⟩) hc1 (by simp; omega) (by simp; omega)
            (by intro hd; rw [hdev1] at hd; have := hc.bnd hd sp hsp; simp; rw [hdev1]; omega) hsepr
        rw [hs2]
        exact ⟨_, _, rfl⟩
      · exact ⟨_, _, rfl⟩
    obtain ⟨a, s', hres⟩ := hok
    rw [hres]
    refine ⟨⟨?_, fun hh => absurd hh hne⟩, ?_⟩
    · rintro ⟨e, he⟩; simp at he
    · intro e he; simp at he

/-- "no run long enough" is the same as "no contiguous free range of `n` blocks": runs are
maximal, so a free range never straddles two of them. -/
theorem no_fit_iff_no_free_range {s : State} {n : Nat} (hi : Inv s) (hn : 0 < n) :
    (∀ r ∈ s.runs, r.size < n) ↔ ¬ ∃ a, ∀ b, a ≤ b → b < a + n → covers s.runs b := by
  have hc := hi.core
  constructor
  · rintro hall ⟨a, ha⟩
    -- the run covering `a` covers the whole range
    obtain ⟨r, hr, h1, h2⟩ := ha a (Nat.le_refl _) (by omega)
    have hlt := hall r hr
    -- block r.start + r.size is in the range but not free
    have hin : a ≤ r.start + r.size ∧ r.start + r.size < a + n := by omega
    obtain ⟨x, hx, h3, h4⟩ := ha (r.start + r.size) hin.1 hin.2
    rcases sep_or hc.sep hx hr with h5 | h5 | h5
    · subst h5; omega
    · unfold Gap at h5; omega
    · unfold Gap at h5; omega
  · intro hno r hr
    by_cases hlt : r.size < n
    · exact hlt
    · exact absurd ⟨r.start, fun b h1 h2 => ⟨r, hr, h1, by omega⟩⟩ hno

/-- a failed allocation changes nothing -/
theorem alloc_error_unchanged {s : State} {n : Nat} {e : Err} (hi : Inv s)
    (h : (allocate s n).1 = .error e) : (allocate s n).2 = s := by
  by_cases hn : n = 0
  · subst hn; simp [allocate]
  · have hn' : 0 < n := by omega
    obtain ⟨hiff, _⟩ := alloc_fails_iff hi hn'
    have hall := hiff.mp ⟨e, h⟩
    have hbf := bestFit_none.mpr hall
    unfold allocate
    have : (n == 0) = false := by simp; omega
    simp [this, hbf]

/-- the checks of `release`, as a predicate on the true free set -/
def ReleaseValid (s : State) (a n : Nat) : Prop :=
  0 < n ∧ DS ≤ a ∧ (0 < s.deviceSize → a + n ≤ s.deviceSize / BS) ∧ a + n < 2 ^ 64 ∧
    ∀ b, a ≤ b → b < a + n → ¬ covers s.runs b

theorem no_overlap_of_checks {s : State} {a n : Nat} (hc : Core s)
    (hp : ∀ p, preceding a s.runs = some p → p.start + p.size ≤ a)
    (hf : ∀ f, following a (a + n) s.runs = some f → a + n ≤ f.start) :
    ∀ r ∈ s.runs, r.start + r.size ≤ a ∨ a + n ≤ r.start := by
  have hsorted := sorted_of_sep hc.sep
  intro r hr
  by_cases hlt : r.start < a
  · left
    cases hpr : preceding a s.runs with
    | none => have := preceding_none hsorted hpr r hr; omega
    | some p =>
      obtain ⟨hpm, hpa, hpmax⟩ := preceding_some hsorted hpr
      have h1 := hp p hpr
      have h2 := hpmax r hr hlt
      rcases sep_or hc.sep hr hpm with h3 | h3 | h3
      · subst h3; exact h1
      · unfold Gap at h3; omega
      · unfold Gap at h3; omega
  · right
    cases hfo : following a (a + n) s.runs with
    | none => rcases following_none hsorted hfo r hr with h | h <;> omega
    | some f =>
      obtain ⟨_, _, _, hfmin⟩ := following_some hsorted hfo
      have := hf f hfo
      have := hfmin r hr (by omega)
      omega

/-- everything `release` does on the success path -/
theorem release_ok_aux {s : State} {a n : Nat} (hi : Inv s) (hv : ReleaseValid s a n) :
    ∃ s', release s a n = (.ok (), s') ∧ Inv s' ∧ s'.deviceSize = s.deviceSize ∧
      (∀ b, covers s'.runs b ↔ covers s.runs b ∨ (a ≤ b ∧ b < a + n)) := by
  have hc := hi.core
  obtain ⟨hn, hds, hbnd, h64, hfree⟩ := hv
  have hsorted := sorted_of_sep hc.sep
  -- the two probes find no overlap
  have hp : ∀ p, preceding a s.runs = some p → p.start + p.size ≤ a := by
    intro p hpr
    obtain ⟨hpm, hpa, _⟩ := preceding_some hsorted hpr
    by_cases h : p.start + p.size ≤ a
    · exact h
    · exact absurd ⟨p, hpm, by omega, by omega⟩ (hfree a (Nat.le_refl _) (by omega))
  have hf : ∀ f, following a (a + n) s.runs = some f → a + n ≤ f.start := by
    intro f hfo
    obtain ⟨hfm, hfa, _, _⟩ := following_some hsorted hfo
    have := (hc.pos f hfm).1
    by_cases h : a + n ≤ f.start
    · exact h
    · exact absurd ⟨f, hfm, Nat.le_refl _, by omega⟩ (hfree f.start hfa (by omega))
  have hno := no_overlap_of_checks hc hp hf
  have hvr : isValidRange s.deviceSize a n = true := by
    unfold isValidRange
    have h1 : (decide (a < DS) || n == 0) = false := by simp; omega
    simp only [h1, Bool.false_eq_true, ↓reduceIte]
    split
    · rename_i hd
      have := hbnd hd
      split
      · omega
      · simp; omega
    · rfl
  unfold release
  have h1 : (decide (a < DS) || n == 0) = false := by simp; omega
  have h2 : ¬ (a + n ≥ 2 ^ 64) := by omega
  simp only [h1, Bool.false_eq_true, ↓reduceIte, hvr, Bool.not_true, h2]
  -- case analysis on the two probes
  cases hpr : preceding a s.runs with
  | none =>
    cases hfo : following a (a + n) s.runs with
    | none =>
      simp only [overlapsPrev, overlapsNext, Bool.false_eq_true, ↓reduceIte, Option.filter]
      obtain ⟨s3, hs3, hc3, hmem3, hdev3, _⟩ :=
        insertFree_ok (r := ⟨a, n⟩) hc hn hds (by simpa using hbnd) (by
          intro x hx
          have h5 := hno x hx
          rcases h5 with h5 | h5
          · -- x ends at or before a; equality is impossible since preceding = none
            have := preceding_none hsorted hpr x hx
            have := (hc.pos x hx).1
            omega
          · rcases following_none hsorted hfo x hx with h6 | h6
            · omega
            · right; unfold Gap; simp; omega)
      simp only [hs3]
      refine ⟨_, by simp, inv_updateFrag hc3, by simp [hdev3], ?_⟩
      intro b; unfold covers; simp only [updateFrag_runs, hmem3]
      constructor
      · rintro ⟨x, rfl | hx, hb⟩
        · right; simpa using hb
        · left; exact ⟨x, hx, hb⟩
      · rintro (⟨x, hx, hb⟩ | hb)
        · exact ⟨x, Or.inr hx, hb⟩
        · exact ⟨⟨a, n⟩, Or.inl rfl, by simpa using hb⟩
    | some f =>
      obtain ⟨hfm, hfa, hfe, hfmin⟩ := following_some hsorted hfo
      have hfge := hf f hfo
      have hfeq : f.start = a + n := by omega
      have hfl : ¬ (f.start < a + n) := by omega
      simp only [overlapsPrev, overlapsNext, Bool.false_eq_true, ↓reduceIte, hfl, decide_false, Option.filter, hfeq, beq_self_eq_true]
      obtain ⟨hc1, hmem1, hdev1⟩ := takeRun_core hc hfm
      obtain ⟨s3, hs3, hc3, hmem3, hdev3, _⟩ :=
        insertFree_ok (s := takeRun s f) (r := ⟨a, n + f.size⟩) hc1 (by simp; omega) hds
          (by intro hd; rw [hdev1] at hd ⊢; have := hc.bnd hd f hfm; simp; omega) (by
          intro x hx
          obtain ⟨hx1, hx2⟩ := (hmem1 x).mp hx
          rcases hno x hx1 with h5 | h5
          · have := preceding_none hsorted hpr x hx1
            have := (hc.pos x hx1).1
            omega
          · rcases sep_or hc.sep hx1 hfm with h6 | h6 | h6
            · exact absurd h6 hx2
            · have := hfmin x hx1 (by omega); unfold Gap at h6; omega
            · right; unfold Gap at *; simp; omega)
      simp only [hs3]
      refine ⟨_, by simp, inv_updateFrag hc3, by simp [hdev3, hdev1], ?_⟩
      intro b; unfold covers; simp only [updateFrag_runs, hmem3, hmem1]
      constructor
      · rintro ⟨x, rfl | ⟨hx, _⟩, hb⟩
        · simp at hb
          by_cases hb' : b < a + n
          · right; omega
          · left; exact ⟨f, hfm, by omega, by omega⟩
        · left; exact ⟨x, hx, hb⟩
      · rintro (⟨x, hx, hb⟩ | hb)
        · by_cases hxf : x = f
          · subst hxf; exact ⟨⟨a, n + x.size⟩, Or.inl rfl, by simp; omega⟩
          · exact ⟨x, Or.inr ⟨hx, hxf⟩, hb⟩
        · exact ⟨⟨a, n + f.size⟩, Or.inl rfl, by simp; omega⟩
  | some p =>
    obtain ⟨hpm, hpa, hpmax⟩ := preceding_some hsorted hpr
    have hple := hp p hpr
    have hpl : ¬ (p.start + p.size > a) := by omega
    cases hfo : following a (a + n) s.runs with
    | none =>
      by_cases hadj : p.start + p.size = a
      · simp only [overlapsPrev, overlapsNext, hpl, decide_false, Bool.false_eq_true, ↓reduceIte, Option.filter, hadj, beq_self_eq_true]
        obtain ⟨hc1, hmem1, hdev1⟩ := takeRun_core hc hpm
        obtain ⟨s3, hs3, hc3, hmem3, hdev3, _⟩ :=
          insertFree_ok (s := takeRun s p) (r := ⟨p.start, n + p.size⟩) hc1 (by simp; omega)
            (hc.pos p hpm).2
            (by intro hd; rw [hdev1] at hd ⊢; have := hbnd hd; simp; omega) (by
            intro x hx
            obtain ⟨hx1, hx2⟩ := (hmem1 x).mp hx
            rcases hno x hx1 with h5 | h5
            · rcases sep_or hc.sep hx1 hpm with h6 | h6 | h6
              · exact absurd h6 hx2
              · left; unfold Gap at *; simpa using h6
              · have := (hc.pos x hx1).1; unfold Gap at h6; omega
            · rcases following_none hsorted hfo x hx1 with h6 | h6
              · omega
              · right; unfold Gap; simp; omega)
        simp only [hs3]
        refine ⟨_, by simp, inv_updateFrag hc3, by simp [hdev3, hdev1], ?_⟩
        intro b; unfold covers; simp only [updateFrag_runs, hmem3, hmem1]
        constructor
        · rintro ⟨x, rfl | ⟨hx, _⟩, hb⟩
          · simp at hb
            by_cases hb' : b < a
            · left; exact ⟨p, hpm, by omega, by omega⟩
            · right; omega
          · left; exact ⟨x, hx, hb⟩
        · rintro (⟨x, hx, hb⟩ | hb)
          · by_cases hxp : x = p
            · subst hxp; exact ⟨⟨x.start, n + x.size⟩, Or.inl rfl, by simp; omega⟩
            · exact ⟨x, Or.inr ⟨hx, hxp⟩, hb⟩
          · exact ⟨⟨p.start, n + p.size⟩, Or.inl rfl, by simp; omega⟩
      · have hne : (p.start + p.size == a) = false := by simp; exact hadj
        simp only [overlapsPrev, overlapsNext, hpl, decide_false, Bool.false_eq_true, ↓reduceIte, Option.filter, hne]
        obtain ⟨s3, hs3, hc3, hmem3, hdev3, _⟩ :=
          insertFree_ok (r := ⟨a, n⟩) hc hn hds (by simpa using hbnd) (by
            intro x hx
            rcases hno x hx with h5 | h5
            · left
              by_cases hxa : x.start < a
              · rcases sep_or hc.sep hx hpm with h6 | h6 | h6
                · subst h6; unfold Gap; simp; omega
                · unfold Gap at *; simp; omega
                · have := hpmax x hx hxa; unfold Gap at h6; omega
              · have := (hc.pos x hx).1; omega
            · rcases following_none hsorted hfo x hx with h6 | h6
              · omega
              · right; unfold Gap; simp; omega)
        simp only [hs3]
        refine ⟨_, by simp, inv_updateFrag hc3, by simp [hdev3], ?_⟩
        intro b; unfold covers; simp only [updateFrag_runs, hmem3]
        constructor
        · rintro ⟨x, rfl | hx, hb⟩
          · right; simpa using hb
          · left; exact ⟨x, hx, hb⟩
        · rintro (⟨x, hx, hb⟩ | hb)
          · exact ⟨x, Or.inr hx, hb⟩
          · exact ⟨⟨a, n⟩, Or.inl rfl, by simpa using hb⟩
    | some f =>
      obtain ⟨hfm, hfa, hfe, hfmin⟩ := following_some hsorted hfo
      have hfge := hf f hfo
      have hfeq : f.start = a + n := by omega
      have hfl : ¬ (f.start < a + n) := by omega
      have hpf : p ≠ f := fun e => by subst e; omega
      by_cases hadj : p.start + p.size = a
      · simp only [overlapsPrev, overlapsNext, hpl, decide_false, Bool.false_eq_true, ↓reduceIte, hfl, Option.filter, hadj,
          beq_self_eq_true, hfeq]
        obtain ⟨hc1, hmem1, hdev1⟩ := takeRun_core hc hpm
        have hfm1 : f ∈ (takeRun s p).runs := (hmem1 f).mpr ⟨hfm, fun e => hpf e.symm⟩
        obtain ⟨hc2, hmem2, hdev2⟩ := takeRun_core hc1 hfm1
        obtain ⟨s3, hs3, hc3, hmem3, hdev3, _⟩ :=
          insertFree_ok (s := takeRun (takeRun s p) f) (r := ⟨p.start, n + p.size + f.size⟩) hc2
            (by simp; omega) (hc.pos p hpm).2
            (by intro hd; rw [hdev2, hdev1] at hd ⊢; have := hc.bnd hd f hfm; simp; omega) (by
            intro x hx
            obtain ⟨hx0, hx3⟩ := (hmem2 x).mp hx
            obtain ⟨hx1, hx2⟩ := (hmem1 x).mp hx0
            rcases hno x hx1 with h5 | h5
            · rcases sep_or hc.sep hx1 hpm with h6 | h6 | h6
              · exact absurd h6 hx2
              · left; unfold Gap at *; simpa using h6
              · have := (hc.pos x hx1).1; unfold Gap at h6; omega
            · rcases sep_or hc.sep hx1 hfm with h6 | h6 | h6
              · exact absurd h6 hx3
              · have := hfmin x hx1 (by omega); unfold Gap at h6; omega
              · right; unfold Gap at *; simp; omega)
        simp only [hs3]
        refine ⟨_, by simp, inv_updateFrag hc3, by simp [hdev3, hdev2, hdev1], ?_⟩
        intro b; unfold covers; simp only [updateFrag_runs, hmem3, hmem2, hmem1]
        constructor
        · rintro ⟨x, rfl | ⟨⟨hx, _⟩, _⟩, hb⟩
          · simp at hb
            by_cases hb' : b < a
            · left; exact ⟨p, hpm, by omega, by omega⟩
            · by_cases hb'' : b < a + n
              · right; omega
              · left; exact ⟨f, hfm, by omega, by omega⟩
          · left; exact ⟨x, hx, hb⟩
        · rintro (⟨x, hx, hb⟩ | hb)
          · by_cases hxp : x = p
            · subst hxp; exact ⟨⟨x.start, n + x.size + f.size⟩, Or.inl rfl, by simp; omega⟩
            · by_cases hxf : x = f
              · subst hxf; exact ⟨⟨p.start, n + p.size + x.size⟩, Or.inl rfl, by simp; omega⟩
              · exact ⟨x, Or.inr ⟨⟨hx, hxp⟩, hxf⟩, hb⟩
          · exact ⟨⟨p.start, n + p.size + f.size⟩, Or.inl rfl, by simp; omega⟩
      · have hne : (p.start + p.size == a) = false := by simp; exact hadj
        simp only [overlapsPrev, overlapsNext, hpl, decide_false, Bool.false_eq_true, ↓reduceIte, hfl, Option.filter, hne,
          hfeq, beq_self_eq_true]
        obtain ⟨hc1, hmem1, hdev1⟩ := takeRun_core hc hfm
        obtain ⟨s3, hs3, hc3, hmem3, hdev3, _⟩ :=
          insertFree_ok (s := takeRun s f) (r := ⟨a, n + f.size⟩) hc1 (by simp; omega) hds
            (by intro hd; rw [hdev1] at hd ⊢; have := hc.bnd hd f hfm; simp; omega) (by
            intro x hx
            obtain ⟨hx1, hx2⟩ := (hmem1 x).mp hx
            rcases hno x hx1 with h5 | h5
            · left
              by_cases hxa : x.start < a
              · rcases sep_or hc.sep hx1 hpm with h6 | h6 | h6
                · subst h6; unfold Gap; simp; omega
                · unfold Gap at *; simp; omega
                · have := hpmax x hx1 hxa; unfold Gap at h6; omega
              · have := (hc.pos x hx1).1; omega
            · rcases sep_or hc.sep hx1 hfm with h6 | h6 | h6
              · exact absurd h6 hx2
              · have := hfmin x hx1 (by omega); unfold Gap at h6; omega
              · right; unfold Gap at *; simp; omega)
        simp only [hs3]
        refine ⟨_, by simp, inv_updateFrag hc3, by simp [hdev3, hdev1], ?_⟩
        intro b; unfold covers; simp only [updateFrag_runs, hmem3, hmem1]
        constructor
        · rintro ⟨x, rfl | ⟨hx, _⟩, hb⟩
          · simp at hb
            by_cases hb' : b < a + n
            · right; omega
            · left; exact ⟨f, hfm, by omega, by omega⟩
          · left; exact ⟨x, hx, hb⟩
        · rintro (⟨x, hx, hb⟩ | hb)
          · by_cases hxf : x = f
            · subst hxf; exact ⟨⟨a, n + x.size⟩, Or.inl rfl, by simp; omega⟩
            · exact ⟨x, Or.inr ⟨hx, hxf⟩, hb⟩
          · exact ⟨⟨a, n + f.size⟩, Or.inl rfl, by simp; omega⟩


theorem isValidRange_elim {dev a n : Nat} (h : isValidRange dev a n = true) :
    DS ≤ a ∧ 0 < n ∧ (0 < dev → a + n ≤ dev / BS) := by
  unfold isValidRange at h
  split at h
  · cases h
  · rename_i h1
    simp at h1
    split at h
    · simp only at h
      split at h
      · cases h
      · simp at h; refine ⟨by omega, by omega, fun _ => h⟩
    · refine ⟨by omega, by omega, fun hd => by omega⟩

/-- an invalid release is rejected and changes nothing -/
theorem release_invalid {s : State} {a n : Nat} (hi : Inv s) (hnv : ¬ ReleaseValid s a n) :
    ∃ e, release s a n = (.error e, s) := by
  have hc := hi.core
  have hsorted := sorted_of_sep hc.sep
  unfold release
  split
  · exact ⟨_, rfl⟩
  · split
    · exact ⟨_, rfl⟩
    · rename_i hvr
      split
      · exact ⟨_, rfl⟩
      · rename_i h64
        simp only
        split
        · exact ⟨_, rfl⟩
        · rename_i hpc
          split
          · exact ⟨_, rfl⟩
          · rename_i hfc
            exfalso
            apply hnv
            simp at hvr
            obtain ⟨h1, h2, h3⟩ := isValidRange_elim hvr
            have hp : ∀ p, preceding a s.runs = some p → p.start + p.size ≤ a := by
              intro p hpr; rw [hpr] at hpc; simp [overlapsPrev] at hpc; exact hpc
            have hf : ∀ f, following a (a + n) s.runs = some f → a + n ≤ f.start := by
              intro f hfo; rw [hfo] at hfc; simp [overlapsNext] at hfc; exact hfc
            have hno := no_overlap_of_checks hc hp hf
            refine ⟨h2, h1, h3, by omega, ?_⟩
            rintro b hb1 hb2 ⟨r, hr, h4, h5⟩
            rcases hno r hr with h6 | h6 <;> omega

/-- **Release accepted iff valid**: in the data area, inside the device, non-empty, and
overlapping no free block (i.e. entirely inside outstanding allocations). -/
theorem release_ok_iff {s : State} {a n : Nat} (hi : Inv s) :
    (release s a n).1 = .ok () ↔ ReleaseValid s a n := by
  constructor
  · intro h
    by_cases hv : ReleaseValid s a n
    · exact hv
    · obtain ⟨e, he⟩ := release_invalid hi hv
      rw [he] at h; cases h
  · intro hv
    obtain ⟨s', hs', _⟩ := release_ok_aux hi hv
    rw [hs']

/-- **Release**: an accepted release adds exactly the released range to the free set and
preserves the invariant (so neighbours are merged: runs stay pairwise non-adjacent). -/
theorem release_spec {s s' : State} {a n : Nat} (hi : Inv s) (h : release s a n = (.ok (), s')) :
    (∀ b, covers s'.runs b ↔ covers s.runs b ∨ (a ≤ b ∧ b < a + n)) ∧ Inv s' ∧
      s'.deviceSize = s.deviceSize := by
  have hv : ReleaseValid s a n := (release_ok_iff hi).mp (by rw [h])
  obtain ⟨s'', hs'', hi', hdev, hcov⟩ := release_ok_aux hi hv
  rw [hs''] at h
  cases h
  exact ⟨hcov, hi', hdev⟩

/-- a rejected release changes nothing -/
theorem release_error_unchanged {s : State} {a n : Nat} {e : Err} (hi : Inv s)
    (h : (release s a n).1 = .error e) : (release s a n).2 = s := by
  by_cases hv : ReleaseValid s a n
  · have := (release_ok_iff hi).mpr hv
    rw [this] at h; cases h
  · obtain ⟨e', he'⟩ := release_invalid hi hv
    rw [he']

/-- every run of the representation is a *maximal* free range: all its blocks are free, the
block after it and the block before it are not. -/
theorem runs_are_maximal {s : State} (hi : Inv s) {r : Run} (hr : r ∈ s.runs) :
    (∀ b, r.start ≤ b → b < r.start + r.size → covers s.runs b) ∧
    ¬ covers s.runs (r.start + r.size) ∧ ¬ covers s.runs (r.start - 1) := by
  have hc := hi.core
  have hpos := hc.pos r hr
  refine ⟨fun b h1 h2 => ⟨r, hr, h1, h2⟩, ?_, ?_⟩
  · rintro ⟨x, hx, h1, h2⟩
    rcases sep_or hc.sep hx hr with h3 | h3 | h3
    · subst h3; omega
    · unfold Gap at h3; omega
    · unfold Gap at h3; omega
  · rintro ⟨x, hx, h1, h2⟩
    have : DS = 16 := rfl
    rcases sep_or hc.sep hx hr with h3 | h3 | h3
    · subst h3; omega
    · unfold Gap at h3; omega
    · unfold Gap at h3; omega

theorem canonical_lists {xs ys : List Run} (hx : xs.Pairwise Gap) (hy : ys.Pairwise Gap)
    (px : ∀ r ∈ xs, 0 < r.size) (py : ∀ r ∈ ys, 0 < r.size)
    (h : ∀ b, covers xs b ↔ covers ys b) : xs = ys := by
  induction xs generalizing ys with
  | nil =>
    cases ys with
    | nil => rfl
    | cons y ys =>
      have := (h y.start).mpr ⟨y, by simp, Nat.le_refl _, by have := py y (by simp); omega⟩
      obtain ⟨r, hr, _⟩ := this
      simp at hr
  | cons x xs ih =>
    cases ys with
    | nil =>
      have := (h x.start).mp ⟨x, by simp, Nat.le_refl _, by have := px x (by simp); omega⟩
      obtain ⟨r, hr, _⟩ := this
      simp at hr
    | cons y ys =>
      rw [List.pairwise_cons] at hx hy
      have hxp := px x (by simp)
      have hyp := py y (by simp)
      -- heads start at the same block
      have hstart : x.start = y.start := by
        obtain ⟨r, hr, h1, h2⟩ := (h x.start).mp ⟨x, by simp, Nat.le_refl _, by omega⟩
        obtain ⟨r', hr', h1', h2'⟩ := (h y.start).mpr ⟨y, by simp, Nat.le_refl _, by omega⟩
        have hyr : y.start ≤ r.start := by
          rcases List.mem_cons.mp hr with rfl | hr2
          · omega
          · have := hy.1 r hr2; unfold Gap at this; omega
        have hxr : x.start ≤ r'.start := by
          rcases List.mem_cons.mp hr' with rfl | hr2
          · omega
          · have := hx.1 r' hr2; unfold Gap at this; omega
        omega
      -- and have the same length
      have hsize : x.size = y.size := by
        have notcov_x : ¬ covers (x :: xs) (x.start + x.size) := by
          rintro ⟨r, hr, h1, h2⟩
          rcases List.mem_cons.mp hr with rfl | hr2
          · omega
          · have := hx.1 r hr2; unfold Gap at this; omega
        have notcov_y : ¬ covers (y :: ys) (y.start + y.size) := by
          rintro ⟨r, hr, h1, h2⟩
          rcases List.mem_cons.mp hr with rfl | hr2
          · omega
          · have := hy.1 r hr2; unfold Gap at this; omega
        by_cases hlt : x.size < y.size
        · exact absurd ((h (x.start + x.size)).mpr ⟨y, by simp, by omega, by omega⟩) notcov_x
        · by_cases hgt : y.size < x.size
          · exact absurd ((h (y.start + y.size)).mp ⟨x, by simp, by omega, by omega⟩) notcov_y
          · omega
      have hxy : x = y := by
        cases x; cases y; simp at hstart hsize; simp [hstart, hsize]
      subst hxy
      congr 1
      apply ih hx.2 hy.2 (fun r hr => px r (by simp [hr])) (fun r hr => py r (by simp [hr]))
      intro b
      constructor
      · rintro ⟨r, hr, h1, h2⟩
        obtain ⟨r', hr', h1', h2'⟩ := (h b).mp ⟨r, by simp [hr], h1, h2⟩
        rcases List.mem_cons.mp hr' with rfl | hr2
        · have := hx.1 r hr; unfold Gap at this; omega
        · exact ⟨r', hr2, h1', h2'⟩
      · rintro ⟨r, hr, h1, h2⟩
        obtain ⟨r', hr', h1', h2'⟩ := (h b).mpr ⟨r, by simp [hr], h1, h2⟩
        rcases List.mem_cons.mp hr' with rfl | hr2
        · have := hy.1 r hr; unfold Gap at this; omega
        · exact ⟨r', hr2, h1', h2'⟩

/-- **Canonical representation**: the run list is determined by the free set alone (it is the
list of maximal free ranges in ascending order), hence so are the statistics: two states
satisfying the invariant with the same free set report the same total, largest run, run
count and fragmentation. -/
theorem stats_canonical {s t : State} (hs : Inv s) (ht : Inv t)
    (h : ∀ b, covers s.runs b ↔ covers t.runs b) :
    s.runs = t.runs ∧ getTotalFree s = getTotalFree t ∧ getLargestFree s = getLargestFree t ∧
      getFreeChunks s = getFreeChunks t ∧ getFragmentation s = getFragmentation t := by
  have hr : s.runs = t.runs :=
    canonical_lists hs.sep ht.sep (fun r hr => (hs.pos r hr).1) (fun r hr => (ht.pos r hr).1) h
  have htot : s.totalFree = t.totalFree := by rw [hs.total, ht.total, hr]
  refine ⟨hr, htot, by simp [getLargestFree, hr], by simp [getFreeChunks, hr], ?_⟩
  simp only [getFragmentation, hs.frag, ht.frag, fragOf, updateFrag, hr, htot]
  split <;> (try split) <;> rfl

/-- the reported total is the number of free blocks (sum of the disjoint runs) times the block
size -/
theorem stats_total {s : State} (hi : Inv s) : getTotalFree s = sumSizes s.runs * BS := hi.total

/-- the reported largest run is the size of a longest run (0 when nothing is free) and the
reported count is the number of runs -/
theorem stats_largest {s : State} (_hi : Inv s) :
    (s.runs = [] → getLargestFree s = 0) ∧
    (∀ r ∈ s.runs, r.size * BS ≤ getLargestFree s) ∧
    (s.runs ≠ [] → ∃ r ∈ s.runs, getLargestFree s = r.size * BS) ∧
    getFreeChunks s = s.runs.length := by
  refine ⟨?_, ?_, ?_, rfl⟩
  · intro h; simp [getLargestFree, largestBytes, h, largest]
  · intro r hr
    unfold getLargestFree largestBytes
    cases hl : largest s.runs with
    | none => rw [largest_none.mp hl] at hr; simp at hr
    | some b => exact Nat.mul_le_mul_right _ ((largest_some hl).2 r hr)
  · intro hne
    unfold getLargestFree largestBytes
    cases hl : largest s.runs with
    | none => exact absurd (largest_none.mp hl) hne
    | some b => exact ⟨b, (largest_some hl).1, rfl⟩

/-- allocate / release calls (the calls the property quantifies over) -/
def IsWork : Call → Prop
  | .alloc _ => True
  | .release _ _ => True
  | _ => False

theorem step_inv {s : State} {c : Call} (hi : Inv s) (hw : IsWork c) : Inv (step s c).2 := by
  cases c with
  | init d => cases hw
  | setSize d => cases hw
  | alloc n =>
    cases hres : allocate s n with
    | mk r s' =>
      cases r with
      | ok a => simp only [step, hres]; exact (alloc_spec hi hres).2.2.2.2.2
      | error e =>
        have := alloc_error_unchanged (e := e) hi (by rw [hres])
        rw [hres] at this
        simp at this; subst this; simp only [step, hres]; exact hi
  | release a n =>
    cases hres : release s a n with
    | mk r s' =>
      cases r with
      | ok u => cases u; simp only [step, hres]; exact (release_spec hi hres).2.1
      | error e =>
        have := release_error_unchanged (e := e) hi (by rw [hres])
        rw [hres] at this
        simp at this; subst this; simp only [step, hres]; exact hi

/-- **Every reachable state**: the invariant holds after any sequence of allocate/release
calls — from a freshly initialised manager (`init_inv`), from the empty manager with a bound
(`inv_setSize_new`, the recovery path) or from any state satisfying it. -/
theorem reachable_inv {s : State} (cs : List Call) (hi : Inv s) (hw : ∀ c ∈ cs, IsWork c) :
    Inv (run s cs) := by
  induction cs generalizing s with
  | nil => exact hi
  | cons c cs ih =>
    unfold run
    exact ih (step_inv hi (hw c (by simp))) (fun c' hc' => hw c' (by simp [hc']))

/-- **No overflow**: on a device of at most `MAX_DEVICE_SIZE` bytes every quantity the code
computes in `u64`/`u32` stays in range, which is what licenses modelling them as `Nat`. -/
theorem no_overflow {s : State} (hi : Inv s) (hd : 0 < s.deviceSize)
    (hmax : s.deviceSize ≤ Gen.MAX_DEVICE_SIZE) :
    s.totalFree ≤ s.deviceSize ∧ s.totalFree < 2 ^ 64 ∧
    (∀ r ∈ s.runs, r.start + r.size < 2 ^ 64 ∧ r.size * BS < 2 ^ 64) ∧
    s.totalFree * 100 < 2 ^ 64 ∧ s.frag ≤ 100 := by
  have hc := hi.core
  have hM : Gen.MAX_DEVICE_SIZE = 1099511627776 := rfl
  have hB : BS = 4096 := rfl
  have hdiv : s.deviceSize / BS * BS ≤ s.deviceSize := Nat.div_mul_le_self _ _
  have hsum : sumSizes s.runs ≤ s.deviceSize / BS := by
    rcases sumSizes_le hc.sep DS (s.deviceSize / BS)
      (fun r hr => ⟨(hc.pos r hr).2, hc.bnd hd r hr⟩) with h | h
    · omega
    · rw [h]; simp [sumSizes]
  have htot : s.totalFree ≤ s.deviceSize := by
    rw [hc.total]
    exact Nat.le_trans (Nat.mul_le_mul_right _ hsum) hdiv
  refine ⟨htot, by omega, ?_, by omega, ?_⟩
  · intro r hr
    have := hc.bnd hd r hr
    have h1 : s.deviceSize / BS ≤ s.deviceSize := Nat.div_le_self _ _
    have h2 : r.size ≤ s.deviceSize / BS := by omega
    have h3 : r.size * BS ≤ s.deviceSize := Nat.le_trans (Nat.mul_le_mul_right _ h2) hdiv
    omega
  · rw [hi.frag]
    unfold fragOf updateFrag
    split
    · simp
    · split
      · simp
      · simp only
        apply Nat.div_le_of_le_mul
        have : s.totalFree - largestBytes s.runs ≤ s.totalFree := Nat.sub_le _ _
        calc (s.totalFree - largestBytes s.runs) * 100 ≤ s.totalFree * 100 :=
              Nat.mul_le_mul_right _ this
          _ = s.totalFree * 100 := rfl

/-! ### non-vacuity: concrete reachable states meet the hypotheses -/

example : ∃ s, initDevice Fsm.new (32 * 4096) = .ok s ∧ s.runs = [⟨16, 16⟩] := ⟨_, rfl, rfl⟩

example : (run Fsm.new [.init (32 * 4096), .alloc 3, .alloc 2, .release 16 3, .alloc 1]).runs
    = [⟨17, 2⟩, ⟨21, 11⟩] := by decide

example : ReleaseValid (run Fsm.new [.init (32 * 4096), .alloc 3]) 16 3 := by
  refine ⟨by decide, by decide, fun _ => by decide, by decide, ?_⟩
  rintro b h1 h2 ⟨r, hr, h3, h4⟩
  have : r = ⟨19, 13⟩ := by
    have : (run Fsm.new [.init (32 * 4096), .alloc 3]).runs = [⟨19, 13⟩] := by decide
    rw [this] at hr; simpa using hr
  subst this; simp at h3; omega

end Feox.C06
