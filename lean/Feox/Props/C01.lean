import Feox.Kv.Shapes
import Feox.Kv.Tiers
/-!
# C01 — sequential calls match a last-writer-wins map

`Feox.Kv.Spec` *is* the reference map (≈ 300 lines, read it first): the implementation is
compared with it call by call, in every configuration and storage tier, by the `kv`
correspondence engine.  The theorems below state what kind of map it is: a write or delete
takes effect iff its timestamp is greater than the key's current one, reads return the
latest accepted value, and a call that returns an error leaves what later reads return
unchanged.
-/
namespace Feox.C01
open Feox.Kv Feox.Fmt

/-- what a later `get` at time `now` returns for `k` -/
def view (s : State) (now : Nat) (k : Bytes) : Option Bytes :=
  match lookup k s.entries with
  | none => none
  | some e => if hidden s now e then none else some e.val

/-- **A write takes effect iff its timestamp is greater than the key's current one**: on an
existing key (valid arguments) an explicit-timestamp insert is rejected as older exactly when
`t ≤ current`, and then changes nothing at all; when `t > current` it either replaces the
entry by `(v, t)` or is refused for memory. -/
theorem write_iff_newer {s : State} {k v : Bytes} {t ttl shard now : Nat} {old : Entry}
    (ht : t ≠ 0) (hk : validNewKey s.cfg k = true) (hv : validValue v = true)
    (hl : lookup k s.entries = some old) :
    (t ≤ old.ts → doInsert s k v (some t) ttl shard now = (s, .err .OlderTimestamp)) ∧
    (old.ts < t → (doInsert s k v (some t) ttl shard now).2 = .err .OutOfMemory ∨
      ((doInsert s k v (some t) ttl shard now).2 = .okBool false ∧
        ∃ e, lookup k (doInsert s k v (some t) ttl shard now).1.entries = some e ∧ e.val = v ∧ e.ts = t)) := by
  have hb : (t != 0) = true := by simp [ht]
  have hR : resolveTs s (some t) shard now = (t, true, s) := by simp [resolveTs, hb]
  have hcases := doInsert_cases s k v (some t) ttl shard now
  simp only [hR] at hcases
  rcases hcases with ⟨e, he, hkind⟩ | ⟨_, _, hc⟩
  · -- invalid arguments are excluded by the hypotheses
    exfalso
    unfold doInsert at he
    simp [hk, hv, hR, hl] at he
    split at he <;> (try split at he) <;> simp at he <;> rcases hkind with h | h <;> simp_all
  · rcases hc with ⟨o, ho, hle, he⟩ | ⟨o, ho, hlt, hr, he⟩ | ⟨o, s2, ho, hlt, hr, he⟩ | ⟨hn, _, _⟩ | ⟨_, hn, _, _⟩
    · rw [hl] at ho; cases ho
      exact ⟨fun _ => he, fun h => by omega⟩
    · rw [hl] at ho; cases ho
      exact ⟨fun h => by omega, fun _ => Or.inl (by rw [he])⟩
    · rw [hl] at ho; cases ho
      refine ⟨fun h => by omega, fun _ => Or.inr ?_⟩
      rw [he]
      refine ⟨rfl, insertEntry s v t ttl, ?_, rfl, rfl⟩
      rw [(observePublished_frame _ _ _ _).1, (replaceEntry_entries hr).1]
      exact lookup_put_same _ _ _
    · rw [hl] at hn; cases hn
    · rw [hl] at hn; cases hn

/-- **Reads return the latest accepted value**: after an accepted insert of `v` (no TTL) a
`get` of that key returns `v`, at any later time -/
theorem reads_latest {s : State} {k v : Bytes} {ts : Option Nat} {shard now now' : Nat} {b : Bool}
    (h : (doInsert s k v ts 0 shard now).2 = .okBool b) :
    doGet (doInsert s k v ts 0 shard now).1 k now' = .okBytes v := by
  rcases doInsert_cases s k v ts 0 shard now with ⟨e, he, _⟩ | ⟨hk, _, hc⟩
  · rw [he] at h; cases h
  · have hkey : validKey k = true := by
      unfold validNewKey at hk
      unfold validKey
      split at hk
      · cases hk
      · rename_i hh; simpa using hh
    have hget : ∀ (s2 : State) (ex : Bool) (t : Nat), s2.entries = put k (insertEntry s v t 0) (resolveTs s ts shard now).2.2.entries →
        doGet (observePublished s2 shard t ex) k now' = .okBytes v := by
      intro s2 ex t he
      unfold doGet
      simp [hkey, (observePublished_frame _ _ _ _).1, he, lookup_put_same, hidden, expired, insertEntry]
    rcases hc with ⟨_, _, _, he⟩ | ⟨_, _, _, _, he⟩ | ⟨o, s2, _, _, hr, he⟩ | ⟨_, _, he⟩ | ⟨s2, _, hr, he⟩
    · rw [he] at h; cases h
    · rw [he] at h; cases h
    · rw [he]; exact hget s2 _ _ (replaceEntry_entries hr).1
    · rw [he] at h; cases h
    · rw [he]; exact hget s2 _ _ (createEntry_entries hr).1

/-- a delete that is accepted removes the key -/
theorem delete_effect {s : State} (hs : Sorted s.entries) {k : Bytes} {ts : Option Nat} {shard now : Nat}
    (h : (doDelete s k ts shard now).2 = .okUnit) : lookup k (doDelete s k ts shard now).1.entries = none := by
  have hf := resolveTs_frame s ts shard now
  unfold doDelete at h ⊢
  cases h1 : validKey k with
  | false => simp [h1] at h
  | true =>
    simp only [h1, Bool.not_true, Bool.false_eq_true, ↓reduceIte] at h ⊢
    cases hl : lookup k (resolveTs s ts shard now).2.2.entries with
    | none => simp [hl] at h
    | some old =>
      simp only [hl] at h ⊢
      by_cases hle : (resolveTs s ts shard now).1 ≤ old.ts
      · simp [hle] at h
      · simp only [hle, ↓reduceIte]
        rw [(observePublished_frame _ _ _ _).1]
        simp only [removeEntry]
        exact lookup_erase_same (by rw [hf.1]; exact hs)

/-- **A call that returns an error leaves the contents unchanged**: for every operation other
than an increment (whose lazy retirement of an *expired* generation is the one exception, and
leaves what reads return unchanged), an error result means entries, usage and count are
exactly what they were — only the version clock may have advanced -/
theorem error_preserves_contents {s : State} (op : Op) (er : Err) (h : (step s op).2 = .err er)
    (hop : ∀ k d ts ttl shard now, op ≠ .incr k d ts ttl shard now) :
    Frame s (step s op).1 := by
  cases op with
  | insert k v ts ttl api shard now =>
    simp only [step] at h ⊢
    split
    · exact Frame.refl s
    · split
      · exact Frame.refl s
      · rename_i h1 h2
        simp only [h1, h2, Bool.false_eq_true, ↓reduceIte] at h
        exact doInsert_error_frame h
  | get k now => exact Frame.refl s
  | getSize k => simp only [step]; split <;> (try split) <;> exact Frame.refl s
  | contains k => exact Frame.refl s
  | delete k ts shard now => exact doDelete_error_frame h
  | cas k e n ts ttl shard now => exact doCas_error_frame h
  | incr k d ts ttl shard now => exact absurd rfl (hop k d ts ttl shard now)
  | ifAbsent k v shard now => simp only [step] at h ⊢; rw [doIfAbsent_error_frame h]; exact Frame.refl s
  | patch k ts shard now p => exact doPatch_error_frame h
  | getTtl k now =>
    simp only [step]; split <;> (try split) <;> (try split) <;> (try split) <;> (try split) <;> exact Frame.refl s
  | updateTtl k ttl p shard now => exact doUpdateTtl_error_frame h
  | range a b l now => simp only [step]; split <;> exact Frame.refl s
  | len => exact Frame.refl s
  | memUsage => exact Frame.refl s
  | flush => exact Frame.refl s
  | sweep now => simp [step] at h
  | reopen t now sh => simp [step] at h

/-- … and hence what any later read returns is unchanged -/
theorem error_preserves_view {s : State} (op : Op) (er : Err) (h : (step s op).2 = .err er)
    (hop : ∀ k d ts ttl shard now, op ≠ .incr k d ts ttl shard now) (now : Nat) (k : Bytes) :
    view (step s op).1 now k = view s now k := by
  have hf := error_preserves_contents op er h hop
  unfold view hidden
  rw [hf.1, hf.2.2.2]

/-! ### non-vacuity: the reference map on a concrete history -/

example : (run {} [.insert [1] [10] (some 50) 0 false 0 1, .insert [1] [11] (some 40) 0 false 0 2,
    .get [1] 3, .delete [1] (some 50) 0 4, .delete [1] (some 51) 0 5, .get [1] 6]).2 =
    [.okBool true, .err .OlderTimestamp, .okBytes [10], .err .OlderTimestamp, .okUnit, .err .KeyNotFound] := by
  decide

/-! ### "… on every tier"

The reference map above is flat.  `Feox.Kv.Tiers` models where the real store keeps a generation's
bytes (resident, device extent, cache entry tagged with the generation) and the moves it makes
behind the caller's back. -/

/-- **Where a value lives is invisible**: after any run from the empty store — API calls
interleaved in any order with write-out, offload, cache fill, cache eviction and retirement, each
taken in a state where the real code can take it — a read returns what the plain map replayed over
the API calls alone holds for the key -/
theorem tiers_invisible (l : List Tiers.Step) (hr : Tiers.Run Tiers.init l) (k : Tiers.Key) :
    Tiers.read (Tiers.runFrom Tiers.init l) k =
      match Tiers.specAfter l k with | none => .notFound | some v => .value v :=
  Tiers.read_after_run l hr k

/-- in every reachable state the read path finds the indexed generation's value in whichever tier
holds it, and never trips over the identity check -/
theorem reads_from_any_tier (l : List Tiers.Step) (hr : Tiers.Run Tiers.init l) (k : Tiers.Key) :
    Tiers.read (Tiers.runFrom Tiers.init l) k ≠ .stale := by
  rw [Tiers.read_after_run l hr k]
  cases Tiers.specAfter l k <;> simp

end Feox.C01
