import Feox.Props.C11
import Feox.Fmt.Expiry
import Feox.Fmt.Newest
import Feox.Fmt.Ttl
/-!
# C11 (continued) — the absolute expiry instant survives flush and restart, on the bytes

A record written by the record writer for a key that has no other generation on the device is found
by the recovery scan with exactly the timestamp, value length and expiry instant the writer encoded,
at the sector it was written to — by `Fmt.commit_record` (write → image → tiling → scan) and
`Fmt.findLive_fold_unique` (what the scan's table holds for a key with one generation).
-/
namespace Feox.C11
open Feox.Fmt Feox.Proto Feox.Gen Feox.C10

theorem nodup_map_liveOf (info : Gen → RecMeta) : ∀ (L : List Rec), L.Pairwise (fun a b => a.1 + a.2.2 ≤ b.1) →
    (∀ r ∈ L, 0 < r.2.2) → (L.map (liveOf info)).Nodup := by
  intro L
  induction L with
  | nil => intro _ _; exact List.nodup_nil
  | cons a L ih =>
    intro hp hpos
    rw [List.pairwise_cons] at hp
    rw [List.map_cons, List.nodup_cons]
    refine ⟨?_, ih hp.2 (fun r hr => hpos r (List.mem_cons_of_mem _ hr))⟩
    intro hmem
    obtain ⟨b, hb, heq⟩ := List.mem_map.mp hmem
    have h1 := hp.1 b hb
    have h2 := hpos a List.mem_cons_self
    have : (liveOf info b).sector = (liveOf info a).sector := by rw [heq]
    simp only [liveOf] at this
    omega

/-- **Expiry (and timestamp, length, place) survive flush and restart unchanged** -/
theorem expiry_survives_restart_on_bytes {img : Image} {v lo total : Nat} {info : Gen → RecMeta} {d : Disk} {L : List Rec}
    (hrep : Rep img v lo total info d) (ht : TiledBy d total L lo) (htot : total ≤ img.size)
    (s : Nat) (g : Gen) (value : Bytes) (hw : WfRec v (info g) value)
    (hk : (info g).key.length ≤ MAX_KEY_SIZE) (hv0 : 0 < (info g).valueLen) (hvmax : (info g).valueLen ≤ MAX_VALUE_SIZE)
    (hlo : lo ≤ s) (hb : s + extentBlocks v (info g).key.length (info g).valueLen ≤ total)
    (hfree : ∀ q, s ≤ q → q < s + extentBlocks v (info g).key.length (info g).valueLen → FLs d q)
    (hnospan : ∀ p r, p < s → d p = .mark r → p + r ≤ s)
    (hfresh : ∀ r ∈ L, (info r.2.1).key ≠ (info g).key)
    (o : Opts) (journal : List (Nat × Nat)) (hro : o.readOnly = false) (st : ScanSt) (hst : st.live = []) :
    match scan (writeBlocks img s (toBlocks (encodeExtent v s (info g) value))) v total o journal lo st with
    | .ok st' => findLive (info g).key st'.live =
        some ⟨(info g).key, (info g).ts, (info g).expiry, (info g).valueLen, s, extentBlocks v (info g).key.length (info g).valueLen⟩
    | .error e => NotFormatErr e := by
  obtain ⟨_, L', ht', hmem, hscan⟩ := commit_record hrep ht htot s g value hw hk hv0 hvmax hlo hb hfree hnospan
  have hgo := hscan o journal st hro
  generalize scan (writeBlocks img s (toBlocks (encodeExtent v s (info g) value))) v total o journal lo st = out at hgo ⊢
  cases out with
  | error e => exact hgo
  | ok st' =>
    simp only [GoodOutcome] at hgo ⊢
    rw [hgo.2, hst, ← List.foldl_map (f := liveOf info) (g := absorbLive)]
    have hrecs := ht'.recs
    have hnd := nodup_map_liveOf info L' hrecs.2 (fun r hr => (hrecs.1 r hr).1.1)
    have hin : liveOf info (s, g, extentBlocks v (info g).key.length (info g).valueLen) ∈ L'.map (liveOf info) :=
      List.mem_map.mpr ⟨_, (hmem _).mpr (Or.inr rfl), rfl⟩
    have := findLive_fold_unique (L'.map (liveOf info)) [] _ hin (by
      intro x hx hkey
      obtain ⟨r, hr, rfl⟩ := List.mem_map.mp hx
      rcases (hmem r).mp hr with hrl | hre
      · exfalso; exact hfresh r hrl (by simpa [liveOf] using hkey)
      · rw [hre]) hnd (by simp [findLive])
    simpa [liveOf] using this

/-- **No older generation ever surfaces while a newer one is on the device** (and the documented
newest-timestamp-wins rule of C10), on the bytes: after the scan of an image that represents a tiled
data area, what the table shows for a key is one of that key's generations on the device whose
timestamp no other generation of the key exceeds; it shows nothing only if the device holds no
generation of the key.  (The removal of expired winners afterwards only filters this table:
`no_resurrection`.) -/
theorem recovered_entry_is_a_newest_generation {img : Image} {v lo total : Nat} {info : Gen → RecMeta} {d : Disk} {L : List Rec}
    (hrep : Rep img v lo total info d) (ht : TiledBy d total L lo)
    (o : Opts) (journal : List (Nat × Nat)) (hro : o.readOnly = false) (st : ScanSt) (hst : st.live = []) (k : Bytes) :
    match scan img v total o journal lo st with
    | .ok st' =>
      match findLive k st'.live with
      | none => ∀ r ∈ L, (info r.2.1).key ≠ k
      | some w => (∃ r ∈ L, w = liveOf info r) ∧ w.key = k ∧ ∀ r ∈ L, (info r.2.1).key = k → (info r.2.1).ts ≤ w.ts
    | .error e => NotFormatErr e := by
  have hgo := scan_rep_tiled (o := o) (journal := journal) hro hrep (total - lo) lo L st (Nat.le_refl _) (Nat.le_refl _) ht
  generalize scan img v total o journal lo st = out at hgo ⊢
  cases out with
  | error e => exact hgo
  | ok st' =>
    simp only [GoodOutcome] at hgo ⊢
    rw [hgo.2, hst, ← List.foldl_map (f := liveOf info) (g := absorbLive)]
    have hw := winner_newest k (L.map (liveOf info))
    cases hres : findLive k ((L.map (liveOf info)).foldl absorbLive []) with
    | none =>
      rw [hres] at hw
      simp only at hw ⊢
      intro r hr
      exact hw (liveOf info r) (List.mem_map.mpr ⟨r, hr, rfl⟩)
    | some w =>
      rw [hres] at hw
      simp only at hw ⊢
      obtain ⟨h1, h2, h3⟩ := hw
      obtain ⟨r, hr, rfl⟩ := List.mem_map.mp h1
      exact ⟨⟨r, hr, rfl⟩, h2, fun r' hr' hk => h3 (liveOf info r') (List.mem_map.mpr ⟨r', hr', rfl⟩) hk⟩

end Feox.C11
