import Feox.Props.C05
import Feox.Fmt.Space
import Feox.Fmt.Commit
/-!
# C05 (continued) — released space is reusable, on the bytes

After the retirement markers have been written over a region of whole tiles (`Fmt.retire_region`) every
block of the region is free-looking in what the image represents, so the record writer may put a new
record there (`Fmt.commit_record`): the image then represents the old records outside the region plus
the new one, and recovery returns exactly those.  Nothing of the retired generations is left to leak.
-/
namespace Feox.C05
open Feox.Fmt Feox.Proto Feox.Gen Feox.C10

/-- **Retire, then reuse**: a new record written at the start of a retired region -/
theorem released_space_is_reusable_on_bytes {img : Image} {v lo total : Nat} {info : Gen → RecMeta} {d : Disk} {L : List Rec}
    (hrep : Rep img v lo total info d) (ht : TiledBy d total L lo) (htot : total ≤ img.size) (h64 : total < 2 ^ 64)
    (s e : Nat) (hse : s < e) (hlo : lo ≤ s) (he : e ≤ total) (hal : Aligned L s e)
    (g : Gen) (value : Bytes) (hw : WfRec v (info g) value)
    (hk : (info g).key.length ≤ MAX_KEY_SIZE) (hv0 : 0 < (info g).valueLen) (hvmax : (info g).valueLen ≤ MAX_VALUE_SIZE)
    (hfit : s + extentBlocks v (info g).key.length (info g).valueLen ≤ e)
    (hnospan : ∀ p r, p < s → d p = .mark r → p + r ≤ s) :
    let n := extentBlocks v (info g).key.length (info g).valueLen
    let img1 := writeBlocks img s (markerBlocks s (e - s) (e - s))
    let img2 := writeBlocks img1 s (toBlocks (encodeExtent v s (info g) value))
    ∃ L', TiledBy (fillLabel (maskRun d s e) s n g) total L' lo ∧
      (∀ r, r ∈ L' ↔ r ∈ L.filter (outside s e) ∨ r = (s, g, n)) ∧
      ∀ (o : Opts) (journal : List (Nat × Nat)) (st : ScanSt), o.readOnly = false →
        GoodOutcome info L' st (scan img2 v total o journal lo st) := by
  intro n img1 img2
  obtain ⟨hrep1, ht1, _⟩ := retire_region hrep ht htot h64 s e hse hlo he hal
  have hfree : ∀ q, s ≤ q → q < s + n → FLs (maskRun d s e) q := by
    intro q h1 h2
    exact fls_maskRun (Or.inr ⟨h1, by omega⟩)
  have hnospan1 : ∀ p r, p < s → maskRun d s e p = .mark r → p + r ≤ s := by
    intro p r hp hm
    have : ¬ (s ≤ p ∧ p < e) := by omega
    simp only [maskRun, this, ↓reduceIte] at hm
    exact hnospan p r hp hm
  obtain ⟨_, L', ht2, hmem, hscan⟩ := commit_record hrep1 ht1 (by rw [writeBlocks_size]; exact htot) s g value hw hk hv0 hvmax hlo
    (by omega) hfree hnospan1
  exact ⟨L', ht2, hmem, hscan⟩

end Feox.C05
