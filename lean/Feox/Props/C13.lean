import Feox.Conc.Reserve
import Feox.Kv.StepAcc
/-!
# C13 — memory accounting is exact; the limit is never exceeded by admitted writes

Theorems about `Feox.Kv.Spec` (the sequential reference the implementation is compared with
after *every* call).  `Acc s` says: keys unique, `mem = Σ (overhead + |key| + |value|)` over
live entries, `count = #live`.
-/
namespace Feox.C13
open Feox.Kv Feox.Fmt

/-- **Exact after every call**: the accounting invariant is preserved by every operation of
the API, whatever its arguments and whether it succeeds or fails. -/
theorem step_exact {s : State} (ha : Acc s) (op : Op) : Acc (step s op).1 := step_acc ha op

/-- **Every reachable state**: after any finite sequence of calls — inserts, growing and
shrinking updates, deletes, expiries (sweeps, lazy retirement inside increment), flushes and
reopens — `memory_usage()` equals the sum over live keys of (overhead + key length + value
length) and `len()` the number of live keys. -/
theorem exact (c : Cfg) (ops : List Op) :
    let s := (run { cfg := c } ops).1
    s.mem = memSumOf s.cfg s.entries ∧ s.count = s.entries.length := by
  have := run_acc (acc_init c) ops
  exact ⟨this.mem, this.count⟩

/-- everything deleted ⇒ usage back to zero -/
theorem zero_when_empty {s : State} (ha : Acc s) (h : s.entries = []) : s.mem = 0 ∧ s.count = 0 := by
  refine ⟨?_, ?_⟩
  · rw [ha.mem, h]; simp [memSumOf]
  · rw [ha.count, h]; rfl

/-- **A write refused for memory changes nothing** (contents, usage, count): insert -/
theorem insert_refused_changes_nothing (s : State) (k v : Bytes) (ts : Option Nat) (ttl shard now : Nat)
    (h : (doInsert s k v ts ttl shard now).2 = .err .OutOfMemory) :
    Frame s (doInsert s k v ts ttl shard now).1 := by
  unfold doInsert at h ⊢
  split
  · exact Frame.refl s
  · split
    · exact Frame.refl s
    · simp only at h ⊢
      rename_i h1 h2
      simp only [h1, h2, Bool.false_eq_true, ↓reduceIte] at h
      split
      · rename_i old hl
        simp only [hl] at h
        split
        · exact resolveTs_frame s ts shard now
        · rename_i hgt
          simp only [hgt, ↓reduceIte] at h
          split
          · exact resolveTs_frame s ts shard now
          · rename_i s2 hr
            simp only [hr] at h
            cases h
      · rename_i hl
        simp only [hl] at h
        split
        · exact resolveTs_frame s ts shard now
        · rename_i s2 hr
          simp only [hr] at h
          cases h

/-- **The limit is never exceeded by an admitted write**: with a limit `L`, if usage is within
the limit before a call it is within the limit after it, for every operation except a
reopen (recovery may legitimately start above a smaller limit). -/
theorem reserve_within_limit {s s1 : State} {a L : Nat} (hL : s.cfg.maxMemory = some L) (hm : s.mem ≤ L)
    (h : reserve s a = some s1) : s1.mem ≤ L := by
  obtain ⟨_, m1, _, _, _, hlim⟩ := reserve_spec h
  rcases hlim L hL with h0 | h0
  · subst h0; omega
  · omega

/-! ### non-vacuity -/

example : (run { cfg := { recSize := 168 } } [.insert [1] [2, 3] none 0 false 0 100, .insert [1] [9] none 0 false 0 200,
    .delete [1] none 0 300]).1.mem = 0 := by decide

example : (run { cfg := { recSize := 168 } } [.insert [1] [2, 3] none 0 false 0 100]).1.mem = 171 := by decide

/-! ### under contention (model `Feox.Conc.Reserve`: loads, weak compare-exchanges that may fail
spuriously, releases, by any number of threads in any order) -/

/-- **No interleaving pushes usage above the limit**: whatever the schedule of reservation
attempts and releases, a store that starts within its limit stays within it. -/
theorem limit_never_exceeded_concurrently (l init : Nat) (hinit : init ≤ l) (p : Feox.Conc.Reserve.Pcs)
    (es : List Feox.Conc.Reserve.Ev) :
    (Feox.Conc.Reserve.run { usage := init, limit := some l, base := init } p es).1.usage ≤ l := by
  have h0 : Feox.Conc.Reserve.Inv { usage := init, limit := some l, base := init } :=
    ⟨by simp, by simp, by intro l' hl; simp at hl; subst hl; exact hinit⟩
  have hl : (Feox.Conc.Reserve.run { usage := init, limit := some l, base := init } p es).1.limit = some l := by
    generalize hs : ({ usage := init, limit := some l, base := init } : Feox.Conc.Reserve.State) = s
    have hs' : s.limit = some l := by subst hs; rfl
    clear hs h0
    induction es generalizing s p with
    | nil => exact hs'
    | cons e es ih =>
      simp only [Feox.Conc.Reserve.run]
      apply ih
      cases e <;> simp only [Feox.Conc.Reserve.step] <;> (repeat' split) <;> simp_all
  exact (Feox.Conc.Reserve.run_inv es _ p h0).bound l hl

/-- **… and the counter stays exact**: usage = what it started with + everything granted −
everything given back, at every instant of every schedule (a failed or spurious compare-exchange
and a refused reservation change nothing). -/
theorem concurrent_counter_exact (s : Feox.Conc.Reserve.State) (p : Feox.Conc.Reserve.Pcs) (es : List Feox.Conc.Reserve.Ev)
    (h : Feox.Conc.Reserve.Inv s) :
    let s' := (Feox.Conc.Reserve.run s p es).1
    s'.usage + s'.released = s'.base + s'.granted :=
  (Feox.Conc.Reserve.run_inv es s p h).exact

/- non-vacuity: two threads race for the last 10 bytes under a limit of 100; one is refused -/
example :
    let r := Feox.Conc.Reserve.run { usage := 90, limit := some 100, base := 90 } (fun _ => .idle)
      [.load 0 10, .load 1 10, .cas 0 false, .cas 1 false, .cas 1 false]
    r.1.usage = 100 := by decide

/-! ### the two ingredients of the reservation loop are both needed (witnesses) -/

/-- checking the limit against the loaded value and then *adding* to whatever the counter holds by
now lets two writers through together (the self-made change `seeded/C13-s1`) -/
theorem check_then_add_exceeds :
    ([.load 0 6, .load 1 6, .cas 0, .cas 1].foldl Conc.Reserve.Broken.stepCheckThenAdd Conc.Reserve.Broken.start).usage = 12 :=
  Conc.Reserve.Broken.check_then_add_exceeds

/-- taking the observed value over after a lost compare-exchange *without checking again* lets a
third writer through (seeded change C13-5); the loop as written refuses it on the same schedule -/
theorem rebase_without_recheck_exceeds :
    ([.load 0 4, .load 1 4, .load 2 4, .cas 0, .cas 1, .cas 1, .cas 2, .cas 2].foldl
      Conc.Reserve.Broken.stepRebase Conc.Reserve.Broken.start).usage = 12 :=
  Conc.Reserve.Broken.rebase_without_recheck_exceeds

end Feox.C13
