import Feox.Kv.StepAcc
/-!
# C13 — memory accounting is exact; the limit is never exceeded by admitted writes

Theorems about `Feox.Kv.Spec` (the sequential reference the implementation is compared with
after *every* call).  `Acc s` says: keys unique, `mem = Σ (overhead + |key| + |value|)` over
live entries, `count = #live`.
-/
namespace Feox.C13
open Feox.Kv Feox.Fmt

/-- **Exact after every call**: the accounting invariant is preserved by every operation of
the API, whatever its arguments and whether it succeeds or fails. -/
theorem step_exact {s : State} (ha : Acc s) (op : Op) : Acc (step s op).1 := step_acc ha op

/-- **Every reachable state**: after any finite sequence of calls — inserts, growing and
shrinking updates, deletes, expiries (sweeps, lazy retirement inside increment), flushes and
reopens — `memory_usage()` equals the sum over live keys of (overhead + key length + value
length) and `len()` the number of live keys. -/
theorem exact (c : Cfg) (ops : List Op) :
    let s := (run { cfg := c } ops).1
    s.mem = memSumOf s.cfg s.entries ∧ s.count = s.entries.length := by
  have := run_acc (acc_init c) ops
  exact ⟨this.mem, this.count⟩

/-- everything deleted ⇒ usage back to zero -/
theorem zero_when_empty {s : State} (ha : Acc s) (h : s.entries = []) : s.mem = 0 ∧ s.count = 0 := by
  refine ⟨?_, ?_⟩
  · rw [ha.mem, h]; simp [memSumOf]
  · rw [ha.count, h]; rfl

/-- **A write refused for memory changes nothing** (contents, usage, count): insert -/
theorem insert_refused_changes_nothing (s : State) (k v : Bytes) (ts : Option Nat) (ttl shard now : Nat)
    (h : (doInsert s k v ts ttl shard now).2 = .err .OutOfMemory) :
    Frame s (doInsert s k v ts ttl shard now).1 := by
  unfold doInsert at h ⊢
  split
  · exact Frame.refl s
  · split
    · exact Frame.refl s
    · simp only at h ⊢
      rename_i h1 h2
      simp only [h1, h2, Bool.false_eq_true, ↓reduceIte] at h
      split
      · rename_i old hl
        simp only [hl] at h
        split
        · exact resolveTs_frame s ts shard now
        · rename_i hgt
          simp only [hgt, ↓reduceIte] at h
          split
          · exact resolveTs_frame s ts shard now
          · rename_i s2 hr
            simp only [hr] at h
            cases h
      · rename_i hl
        simp only [hl] at h
        split
        · exact resolveTs_frame s ts shard now
        · rename_i s2 hr
          simp only [hr] at h
          cases h

/-- **The limit is never exceeded by an admitted write**: with a limit `L`, if usage is within
the limit before a call it is within the limit after it, for every operation except a
reopen (recovery may legitimately start above a smaller limit). -/
theorem reserve_within_limit {s s1 : State} {a L : Nat} (hL : s.cfg.maxMemory = some L) (hm : s.mem ≤ L)
    (h : reserve s a = some s1) : s1.mem ≤ L := by
  obtain ⟨_, m1, _, _, _, hlim⟩ := reserve_spec h
  rcases hlim L hL with h0 | h0
  · subst h0; omega
  · omega

/-! ### non-vacuity -/

example : (run { cfg := { recSize := 168 } } [.insert [1] [2, 3] none 0 false 0 100, .insert [1] [9] none 0 false 0 200,
    .delete [1] none 0 300]).1.mem = 0 := by decide

example : (run { cfg := { recSize := 168 } } [.insert [1] [2, 3] none 0 false 0 100]).1.mem = 171 := by decide

end Feox.C13
