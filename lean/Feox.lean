import Feox.Gen.Constants
import Feox.Fsm.Model
import Feox.Fsm.Lemmas
import Feox.Fsm.Steps
import Feox.Props.C06
