import Feox.Drv.Fsm
import Feox.Drv.Fmt
import Feox.Drv.Kv
import Feox.Drv.Cache
import Feox.Drv.Proto
import Feox.Drv.Conc
import Feox.Drv.Pin
import Feox.Drv.InFlight
import Feox.Drv.Range
import Feox.Drv.Tiers
/-! `feoxdrv` — the Lean side of the correspondence check: reads one operation per line on
stdin, runs the executable models, prints one answer line per input line.  Imports models
only (no Mathlib, no proof files), so it links as a native executable. -/
open Feox

structure Drv where
  fsm : Fsm.State := {}
  kv : Kv.State := {}
  cache : Cache.State := Cache.mkState 1 0 (fun _ => 0)
  dur : Drv.ProtoDrv.St := {}
  txn : Drv.ProtoDrv.TxnSt := {}
  space : Drv.ProtoDrv.SpaceSt := {}
  conc : Drv.ConcDrv.St := {}
  pin : Conc.Pin.State := {}
  ifl : Conc.InFlight.Set := {}
  scan : Drv.RangeDrv.St := {}
  tiers : Drv.TiersDrv.St := []

def stepLine (d : Drv) (line : String) : IO (Drv × String) := do
  match (line.trimAscii.toString.splitOn " ").filter (· ≠ "") with
  | "fsm" :: rest =>
    match Drv.FsmDrv.handle d.fsm rest with
    | some (s, out) => pure ({ d with fsm := s }, out)
    | none => pure (d, "bad-op")
  | "kv" :: rest =>
    match Drv.KvDrv.handle d.kv rest with
    | some (s, out) => pure ({ d with kv := s }, out)
    | none => pure (d, "bad-op")
  | "dur" :: rest =>
    match Drv.ProtoDrv.handleDur d.dur rest with
    | some (s, out) => pure ({ d with dur := s }, out)
    | none => pure (d, "bad-op")
  | "space" :: rest =>
    match Drv.ProtoDrv.handleSpace d.space rest with
    | some (s, out) => pure ({ d with space := s }, out)
    | none => pure (d, "bad-op")
  | "txn" :: rest =>
    match Drv.ProtoDrv.handleTxn d.txn rest with
    | some (s, out) => pure ({ d with txn := s }, out)
    | none => pure (d, "bad-op")
  | "conc" :: rest =>
    match Drv.ConcDrv.handle d.conc rest with
    | some (s, out) => pure ({ d with conc := s }, out)
    | none => pure (d, "bad-op")
  | "pin" :: rest =>
    match Drv.PinDrv.handle d.pin rest with
    | some (s, out) => pure ({ d with pin := s }, out)
    | none => pure (d, "bad-op")
  | "tier" :: rest =>
    match Drv.TiersDrv.handle d.tiers rest with
    | some (s, out) => pure ({ d with tiers := s }, out)
    | none => pure (d, "bad-op")
  | "ifl" :: rest =>
    match Drv.InFlightDrv.handle d.ifl rest with
    | some (s, out) => pure ({ d with ifl := s }, out)
    | none => pure (d, "bad-op")
  | "scan" :: rest =>
    match Drv.RangeDrv.handle d.scan rest with
    | some (s, out) => pure ({ d with scan := s }, out)
    | none => pure (d, "bad-op")
  | "shards" :: rest =>
    match Drv.ProtoDrv.handleShards rest with
    | some out => pure (d, out)
    | none => pure (d, "bad-op")
  | "cache" :: rest =>
    match Drv.CacheDrv.handle d.cache rest with
    | some (s, out) => pure ({ d with cache := s }, out)
    | none => pure (d, "bad-op")
  | "fmt" :: rest =>
    match ← Drv.FmtDrv.handleIO rest with
    | some out => pure (d, out)
    | none => pure (d, "bad-op")
  | [] => pure (d, "")
  | _ => pure (d, "bad-op")

partial def loop (h : IO.FS.Stream) (out : IO.FS.Stream) (d : Drv) : IO Unit := do
  let line ← h.getLine
  if line.isEmpty then return ()
  let (d', o) ← stepLine d line
  out.putStrLn o
  loop h out d'

def main : IO Unit := do
  let stdin ← IO.getStdin
  let stdout ← IO.getStdout
  loop stdin stdout {}
